/-
  Helper lemmas about the greedy band matcher (Model/Bands.lean).
-/
import Homonim.Model.Bands
import Mathlib.Tactic.Linarith
import Mathlib.Tactic.Ring
import Mathlib.Tactic.FieldSimp
import Mathlib.Data.List.Basic
import Mathlib.Data.List.Nodup
import Mathlib.Data.List.Sublists
import Mathlib.Algebra.Order.Field.Basic
import Mathlib.Data.Rat.Defs

namespace Homonim
open matchBands

/-! ### structure of `matchBands` -/

def pairsOf (srcB : List Nat) (mb2 : List (Option Nat)) : List (Nat × Nat) :=
  (srcB.zip mb2).filterMap fun p => p.2.map fun r => (p.1, r)

def stage1 (srcB : List Nat) (srcW : List (Option Rat)) (refB : List Nat) (refW : List (Option Rat))
    (force : Bool) (tol : Rat) : Except MatchErr (List (Option Nat)) :=
  let n := srcB.length
  let m := refB.length
  if npAny srcW && npAny refW && !force then
      let dist := srcW.map fun s => refW.map fun r => relDist s r
      let g := greedyMatch dist n (List.replicate n false) (List.replicate m false) (List.replicate n none)
      if g.any fun e => match e with | some (_, d) => decide (tol < d) | none => false then .error .unmatchedWavelength
      else .ok (g.map fun e => e.map fun jd => refB.getD jd.1 0)
    else .ok (List.replicate n none)

def stage2 (n m : Nat) (refB : List Nat) (force : Bool) (mb : List (Option Nat)) : Except MatchErr (List (Option Nat)) :=
  let nMatched := (mb.filter Option.isSome).length
  if nMatched < min n m then
        let unmatchRef := refB.filter fun bi => !(mb.contains (some bi))
        if n = m then
          .ok (matchBands.fillNone mb unmatchRef)
        else if force then .ok (matchBands.fillNone mb unmatchRef)
        else .error .unmatchedCount
      else .ok mb

theorem matchBands_eq (srcB : List Nat) (srcW : List (Option Rat)) (refB : List Nat) (refW : List (Option Rat))
    (force : Bool) (tol : Rat) : matchBands srcB srcW refB refW force tol =
    if srcB.length > refB.length && !force then .error .fewerRef else
    match stage1 srcB srcW refB refW force tol with
    | .error e => .error e
    | .ok mb => match stage2 srcB.length refB.length refB force mb with
      | .error e => .error e
      | .ok mb2 => .ok ((pairsOf srcB mb2).map (·.1), (pairsOf srcB mb2).map (·.2)) := by
  rfl


/-! ### the final pairing -/

theorem pairsOf_nil_left (l) : pairsOf [] l = [] := by simp [pairsOf]
theorem pairsOf_nil_right (l) : pairsOf l [] = [] := by simp [pairsOf]
theorem pairsOf_cons_some (a x l l') : pairsOf (a :: l) (some x :: l') = (a, x) :: pairsOf l l' := by
  simp [pairsOf]
theorem pairsOf_cons_none (a l l') : pairsOf (a :: l) (none :: l') = pairsOf l l' := by
  simp [pairsOf]

theorem pairsOf_fst_sublist (srcB : List Nat) (mb2 : List (Option Nat)) :
    ((pairsOf srcB mb2).map (·.1)).Sublist srcB := by
  induction srcB generalizing mb2 with
  | nil => simp [pairsOf_nil_left]
  | cons a l ih =>
    cases mb2 with
    | nil => simp [pairsOf_nil_right]
    | cons x l' =>
      cases x with
      | none => rw [pairsOf_cons_none]; exact (ih l').trans (List.sublist_cons_self _ _)
      | some x => rw [pairsOf_cons_some]; simpa using ih l'

theorem pairsOf_snd_sublist (srcB : List Nat) (mb2 : List (Option Nat)) :
    ((pairsOf srcB mb2).map (·.2)).Sublist (mb2.filterMap id) := by
  induction srcB generalizing mb2 with
  | nil => simp [pairsOf_nil_left]
  | cons a l ih =>
    cases mb2 with
    | nil => simp [pairsOf_nil_right]
    | cons x l' =>
      cases x with
      | none => rw [pairsOf_cons_none]; simpa using ih l'
      | some x => rw [pairsOf_cons_some]; simpa using ih l'

theorem pairsOf_all_some (srcB : List Nat) (mb2 : List (Option Nat)) (hl : mb2.length = srcB.length)
    (hall : ∀ x ∈ mb2, x.isSome = true) :
    (pairsOf srcB mb2).map (·.1) = srcB ∧ ((pairsOf srcB mb2).map (·.2)).map some = mb2 := by
  induction srcB generalizing mb2 with
  | nil => cases mb2 <;> simp_all [pairsOf_nil_left]
  | cons a l ih =>
    cases mb2 with
    | nil => simp at hl
    | cons x l' =>
      cases x with
      | none => simp at hall
      | some x =>
        rw [pairsOf_cons_some]
        have := ih l' (by simpa using hl) (fun y hy => hall y (List.mem_cons_of_mem _ hy))
        simp [this]

/-! ### `fillNone` -/

theorem fillNone_length (l : List (Option Nat)) (vals : List Nat) : (fillNone l vals).length = l.length := by
  induction l generalizing vals with
  | nil => simp [fillNone]
  | cons x l ih =>
    cases x with
    | some x => simp [fillNone, ih]
    | none => cases vals <;> simp [fillNone, ih]

theorem fillNone_mem (l : List (Option Nat)) (vals : List Nat) (x : Nat) (h : some x ∈ fillNone l vals) :
    some x ∈ l ∨ x ∈ vals := by
  induction l generalizing vals with
  | nil => simp [fillNone] at h
  | cons y l ih =>
    cases y with
    | some y =>
      simp only [fillNone, List.mem_cons] at h
      rcases h with h | h
      · left; simp [h]
      · rcases ih vals h with h | h
        · left; simp [h]
        · right; exact h
    | none =>
      cases vals with
      | nil =>
        simp only [fillNone, List.mem_cons] at h
        rcases h with h | h
        · simp at h
        · rcases ih [] h with h | h
          · left; simp [h]
          · right; exact h
      | cons v vals =>
        simp only [fillNone, List.mem_cons] at h
        rcases h with h | h
        · right; simp at h; simp [h]
        · rcases ih vals h with h | h
          · left; simp [h]
          · right; simp [h]

theorem fm_some (y : Nat) (l : List (Option Nat)) : (some y :: l).filterMap id = y :: l.filterMap id := rfl
theorem fm_none (l : List (Option Nat)) : ((none : Option Nat) :: l).filterMap id = l.filterMap id := rfl

theorem fillNone_nodup (l : List (Option Nat)) (vals : List Nat) (hl : (l.filterMap id).Nodup) (hv : vals.Nodup)
    (hd : ∀ v ∈ vals, some v ∉ l) : ((fillNone l vals).filterMap id).Nodup := by
  induction l generalizing vals with
  | nil => simp [fillNone]
  | cons y l ih =>
    cases y with
    | some y =>
      simp only [fillNone, fm_some, List.nodup_cons] at hl ⊢
      refine ⟨?_, ih vals hl.2 hv (fun v hv' hm => hd v hv' (List.mem_cons_of_mem _ hm))⟩
      intro hm
      have hm' : some y ∈ fillNone l vals := by simpa using hm
      rcases fillNone_mem _ _ _ hm' with h | h
      · apply hl.1; simpa using h
      · exact hd y h (by simp)
    | none =>
      cases vals with
      | nil =>
        simp only [fillNone, fm_none] at hl ⊢
        exact ih [] hl hv (by simp)
      | cons v vals =>
        simp only [fillNone, fm_none, fm_some, List.nodup_cons] at hl hv ⊢
        refine ⟨?_, ih vals hl hv.2 (fun w hw hm => hd w (List.mem_cons_of_mem _ hw) (List.mem_cons_of_mem _ hm))⟩
        intro hm
        have hm' : some v ∈ fillNone l vals := by simpa using hm
        rcases fillNone_mem _ _ _ hm' with h | h
        · exact hd v (by simp) (List.mem_cons_of_mem _ h)
        · exact hv.1 h

theorem fillNone_all_some (l : List (Option Nat)) (vals : List Nat)
    (h : l.length ≤ (l.filter Option.isSome).length + vals.length) : ∀ x ∈ fillNone l vals, x.isSome = true := by
  induction l generalizing vals with
  | nil => simp [fillNone]
  | cons y l ih =>
    cases y with
    | some y =>
      simp only [fillNone, List.mem_cons]
      rintro x (rfl | hx)
      · rfl
      · exact ih vals (by simp at h; omega) x hx
    | none =>
      cases vals with
      | nil =>
        exfalso
        have := List.length_filter_le Option.isSome l
        simp at h; omega
      | cons v vals =>
        simp only [fillNone, List.mem_cons]
        rintro x (rfl | hx)
        · rfl
        · exact ih vals (by simp at h; omega) x hx

theorem fillNone_getElem?_some (l : List (Option Nat)) (vals : List Nat) (i x : Nat)
    (h : l[i]? = some (some x)) : (fillNone l vals)[i]? = some (some x) := by
  induction l generalizing vals i with
  | nil => simp at h
  | cons y l ih =>
    cases i with
    | zero =>
      simp at h; subst h; simp [fillNone]
    | succ i =>
      simp at h
      cases y with
      | some y => simp [fillNone, ih vals i h]
      | none => cases vals <;> simp [fillNone, ih _ i h]

theorem fillNone_getElem?_none (l : List (Option Nat)) (vals : List Nat) (i x : Nat)
    (h : (fillNone l vals)[i]? = some (some x)) (hn : l[i]? = some none) : x ∈ vals := by
  induction l generalizing vals i with
  | nil => simp at hn
  | cons y l ih =>
    cases i with
    | zero =>
      simp at hn; subst hn
      cases vals with
      | nil => simp [fillNone] at h
      | cons v vals => simp [fillNone] at h; simp [h]
    | succ i =>
      simp at hn
      cases y with
      | some y => simp [fillNone] at h; exact ih vals i h hn
      | none =>
        cases vals with
        | nil => simp [fillNone] at h; exact ih _ i h hn
        | cons v vals => simp [fillNone] at h; exact List.mem_cons_of_mem _ (ih _ i h hn)


/-! ### counting, `argminEntry` -/

theorem count_matched_le (refB : List Nat) (mb : List (Option Nat)) (hnd : refB.Nodup) :
    (refB.filter fun b => mb.contains (some b)).length ≤ (mb.filter Option.isSome).length := by
  have h1 : ((refB.filter fun b => mb.contains (some b)).map some).Nodup :=
    (hnd.filter _).map (Option.some_injective _)
  have h2 : ((refB.filter fun b => mb.contains (some b)).map some) ⊆ mb.filter Option.isSome := by
    intro x hx
    simp only [List.mem_map, List.mem_filter] at hx
    obtain ⟨b, ⟨_, hb⟩, rfl⟩ := hx
    simp only [List.mem_filter, Option.isSome_some, and_true]
    simpa using hb
  have := (List.subperm_of_subset h1 h2).length_le
  simpa using this

/-- the candidate entries scanned by `argminEntry` -/
def entries (dist : List (List (Option Rat))) (rowUsed colUsed : List Bool) : List (Nat × Nat × Rat) :=
  (List.range dist.length).flatMap fun i =>
    if rowUsed.getD i true then [] else
      let row := dist.getD i []
      (List.range row.length).filterMap fun j =>
        if colUsed.getD j true then none else (row.getD j none).map fun d => (i, j, d)

def minStep (best : Option (Nat × Nat × Rat)) (e : Nat × Nat × Rat) : Option (Nat × Nat × Rat) :=
  match best with
  | none => some e
  | some b => if e.2.2 < b.2.2 then some e else some b

theorem argminEntry_eq (dist ru cu) : argminEntry dist ru cu = (entries dist ru cu).foldl minStep none := rfl

theorem mem_entries (dist : List (List (Option Rat))) (ru cu : List Bool) (i j : Nat) (d : Rat) :
    (i, j, d) ∈ entries dist ru cu ↔ i < dist.length ∧ ru.getD i true = false ∧ j < (dist.getD i []).length ∧
      cu.getD j true = false ∧ (dist.getD i []).getD j none = some d := by
  unfold entries
  simp only [List.mem_flatMap, List.mem_range]
  constructor
  · rintro ⟨i', hi', h⟩
    split at h
    · simp at h
    · rename_i hru
      simp only [List.mem_filterMap, List.mem_range] at h
      obtain ⟨j', hj', h⟩ := h
      split at h
      · simp at h
      · rename_i hcu
        simp only [Option.map_eq_some_iff] at h
        obtain ⟨d', hd', h⟩ := h
        simp only [Prod.mk.injEq] at h
        obtain ⟨rfl, rfl, rfl⟩ := h
        simp only [Bool.not_eq_true] at hru hcu
        exact ⟨hi', hru, hj', hcu, hd'⟩
  · rintro ⟨hi, hru, hj, hcu, hd⟩
    refine ⟨i, hi, ?_⟩
    rw [if_neg (by rw [hru]; simp)]
    simp only [List.mem_filterMap, List.mem_range]
    refine ⟨j, hj, ?_⟩
    rw [if_neg (by rw [hcu]; simp)]
    simp only [hd, Option.map_some]

theorem foldl_minStep_none (l : List (Nat × Nat × Rat)) (init) :
    l.foldl minStep init = none ↔ init = none ∧ l = [] := by
  induction l generalizing init with
  | nil => simp
  | cons e l ih =>
    simp only [List.foldl_cons, ih]
    cases init with
    | none => simp [minStep]
    | some b => simp only [minStep]; split <;> simp

theorem foldl_minStep_some (l : List (Nat × Nat × Rat)) (init r) (h : l.foldl minStep init = some r) :
    (r ∈ l ∨ init = some r) ∧ (∀ e ∈ l, r.2.2 ≤ e.2.2) ∧ (∀ b, init = some b → r.2.2 ≤ b.2.2) := by
  induction l generalizing init with
  | nil => simp at h; subst h; simp
  | cons e l ih =>
    simp only [List.foldl_cons] at h
    obtain ⟨h1, h2, h3⟩ := ih _ h
    cases init with
    | none =>
      simp only [minStep] at h1 h3
      refine ⟨?_, ?_, by simp⟩
      · rcases h1 with h1 | h1
        · left; simp [h1]
        · left; simp at h1; simp [h1]
      · intro e' he'
        rcases List.mem_cons.1 he' with rfl | he'
        · exact h3 _ rfl
        · exact h2 _ he'
    | some b =>
      simp only [minStep] at h1 h3
      by_cases hlt : e.2.2 < b.2.2
      · simp only [hlt, if_true] at h1 h3
        have hre := h3 _ rfl
        refine ⟨?_, ?_, ?_⟩
        · rcases h1 with h1 | h1
          · left; simp [h1]
          · left; simp at h1; simp [h1]
        · intro e' he'
          rcases List.mem_cons.1 he' with rfl | he'
          · exact hre
          · exact h2 _ he'
        · intro b' hb'; simp at hb'; subst hb'; exact le_of_lt (lt_of_le_of_lt hre hlt)
      · simp only [hlt, if_false] at h1 h3
        have hrb := h3 _ rfl
        refine ⟨?_, ?_, ?_⟩
        · rcases h1 with h1 | h1
          · left; simp [h1]
          · right; exact h1
        · intro e' he'
          rcases List.mem_cons.1 he' with rfl | he'
          · exact le_trans hrb (not_lt.1 hlt)
          · exact h2 _ he'
        · intro b' hb'; simp at hb'; subst hb'; exact hrb

theorem argminEntry_none (dist ru cu) (h : argminEntry dist ru cu = none) : entries dist ru cu = [] := by
  rw [argminEntry_eq, foldl_minStep_none] at h; exact h.2

theorem argminEntry_some (dist ru cu r) (h : argminEntry dist ru cu = some r) :
    r ∈ entries dist ru cu ∧ ∀ e ∈ entries dist ru cu, r.2.2 ≤ e.2.2 := by
  rw [argminEntry_eq] at h
  obtain ⟨h1, h2, _⟩ := foldl_minStep_some _ _ _ h
  exact ⟨by simpa using h1, h2⟩


/-! ### the greedy invariant -/

structure GInv (dist : List (List (Option Rat))) (n m : Nat) (ru cu : List Bool)
    (acc : List (Option (Nat × Rat))) : Prop where
  lru : ru.length = n
  lcu : cu.length = m
  lacc : acc.length = n
  row_iff : ∀ i : Nat, ru[i]? = some true ↔ ∃ (j : Nat) (d : Rat), acc[i]? = some (some (j, d))
  col_iff : ∀ j : Nat, cu[j]? = some true ↔ ∃ (i : Nat) (d : Rat), acc[i]? = some (some (j, d))
  ent : ∀ (i j : Nat) (d : Rat), acc[i]? = some (some (j, d)) → j < m ∧ (dist.getD i []).getD j none = some d
  inj : ∀ (i i' j : Nat) (d d' : Rat), acc[i]? = some (some (j, d)) → acc[i']? = some (some (j, d')) → i = i'

theorem getD_true_eq_false (l : List Bool) (i : Nat) : l.getD i true = false ↔ l[i]? = some false := by
  rw [List.getD_eq_getElem?_getD]
  cases h : l[i]? with
  | none => simp
  | some b => simp

theorem GInv.init (dist : List (List (Option Rat))) (n m : Nat) :
    GInv dist n m (List.replicate n false) (List.replicate m false) (List.replicate n none) := by
  refine ⟨by simp, by simp, by simp, ?_, ?_, ?_, ?_⟩
  · intro i; simp [List.getElem?_replicate]
  · intro j; simp [List.getElem?_replicate]
  · intro i j d; simp [List.getElem?_replicate]
  · intro i i' j d d'; simp [List.getElem?_replicate]

theorem GInv.step {dist : List (List (Option Rat))} {n m : Nat} {ru cu acc} (h : GInv dist n m ru cu acc)
    {i j : Nat} {d : Rat} (hi : ru[i]? = some false) (hj : cu[j]? = some false) (hjm : j < m)
    (hd : (dist.getD i []).getD j none = some d) :
    GInv dist n m (ru.set i true) (cu.set j true) (acc.set i (some (j, d))) := by
  obtain ⟨lru, lcu, lacc, row_iff, col_iff, ent, inj⟩ := h
  have hin : i < n := by
    rw [← lru]; exact (List.getElem?_eq_some_iff.1 hi).1
  have hacci : ∀ (j' : Nat) (d' : Rat), acc[i]? ≠ some (some (j', d')) := by
    intro j' d' hc
    have := (row_iff i).2 ⟨j', d', hc⟩
    rw [hi] at this; simp at this
  have haccj : ∀ (i' : Nat) (d' : Rat), acc[i']? ≠ some (some (j, d')) := by
    intro i' d' hc
    have := (col_iff j).2 ⟨i', d', hc⟩
    rw [hj] at this; simp at this
  refine ⟨by simp [lru], by simp [lcu], by simp [lacc], ?_, ?_, ?_, ?_⟩
  · intro i'
    rw [List.getElem?_set, List.getElem?_set]
    by_cases hii : i = i'
    · subst hii; simp [lru, lacc, hin]
    · simp only [hii, if_false]; exact row_iff i'
  · intro j'
    rw [List.getElem?_set]
    by_cases hjj : j = j'
    · subst hjj
      simp only [if_true, lcu, hjm, true_iff]
      exact ⟨i, d, by simp [lacc, hin]⟩
    · simp only [hjj, if_false]
      rw [col_iff j']
      constructor
      · rintro ⟨i', d', h'⟩
        refine ⟨i', d', ?_⟩
        rw [List.getElem?_set]
        have : i ≠ i' := by rintro rfl; exact hacci _ _ h'
        simp [this, h']
      · rintro ⟨i', d', h'⟩
        rw [List.getElem?_set] at h'
        by_cases hii : i = i'
        · subst hii; simp [lacc, hin] at h'; exact absurd h'.1 hjj
        · simp only [hii, if_false] at h'; exact ⟨i', d', h'⟩
  · intro i' j' d' h'
    rw [List.getElem?_set] at h'
    by_cases hii : i = i'
    · subst hii; simp [lacc, hin] at h'; obtain ⟨rfl, rfl⟩ := h'; exact ⟨hjm, hd⟩
    · simp only [hii, if_false] at h'; exact ent _ _ _ h'
  · intro i1 i2 j' d1 d2 h1 h2
    rw [List.getElem?_set] at h1 h2
    by_cases h1i : i = i1 <;> by_cases h2i : i = i2
    · rw [← h1i, ← h2i]
    · subst h1i; simp [lacc, hin] at h1; simp only [h2i, if_false] at h2
      obtain ⟨rfl, rfl⟩ := h1; exact absurd h2 (haccj _ _)
    · subst h2i; simp [lacc, hin] at h2; simp only [h1i, if_false] at h1
      obtain ⟨rfl, rfl⟩ := h2; exact absurd h1 (haccj _ _)
    · simp only [h1i, h2i, if_false] at h1 h2; exact inj _ _ _ _ _ h1 h2


theorem greedy_final {dist : List (List (Option Rat))} {n m : Nat} (hdl : dist.length = n)
    (hrow : ∀ i, i < n → (dist.getD i []).length = m)
    (Q : List (Option (Nat × Rat)) → Prop)
    (hQ : ∀ ru cu acc i j d, GInv dist n m ru cu acc → Q acc → (i, j, d) ∈ entries dist ru cu →
      (∀ e ∈ entries dist ru cu, d ≤ e.2.2) → Q (acc.set i (some (j, d)))) :
    ∀ fuel ru cu acc, GInv dist n m ru cu acc → Q acc → ru.count false ≤ fuel →
      ∃ ru' cu', GInv dist n m ru' cu' (greedyMatch dist fuel ru cu acc) ∧ Q (greedyMatch dist fuel ru cu acc) ∧
        entries dist ru' cu' = [] := by
  intro fuel
  induction fuel with
  | zero =>
    intro ru cu acc hI hq hc
    refine ⟨ru, cu, by simpa [greedyMatch] using hI, by simpa [greedyMatch] using hq, ?_⟩
    rw [List.eq_nil_iff_forall_not_mem]
    rintro ⟨i, j, d⟩ hm
    rw [mem_entries] at hm
    have h1 := (getD_true_eq_false _ _).1 hm.2.1
    have h2 : false ∈ ru := List.mem_of_getElem? h1
    have h3 : ru.count false = 0 := by omega
    rw [List.count_eq_zero] at h3
    exact h3 h2
  | succ fuel ih =>
    intro ru cu acc hI hq hc
    rw [greedyMatch]
    cases hargmin : argminEntry dist ru cu with
    | none =>
      exact ⟨ru, cu, hI, hq, argminEntry_none _ _ _ hargmin⟩
    | some r =>
      obtain ⟨i, j, d⟩ := r
      obtain ⟨hmem, hmin⟩ := argminEntry_some _ _ _ _ hargmin
      have hm := (mem_entries _ _ _ _ _ _).1 hmem
      have hi := (getD_true_eq_false _ _).1 hm.2.1
      have hj := (getD_true_eq_false _ _).1 hm.2.2.2.1
      have hin : i < n := hdl ▸ hm.1
      have hjm : j < m := by rw [← hrow i hin]; exact hm.2.2.1
      have hI' := hI.step hi hj hjm hm.2.2.2.2
      have hq' := hQ ru cu acc i j d hI hq hmem hmin
      refine ih _ _ _ hI' hq' ?_
      have hil : i < ru.length := (List.getElem?_eq_some_iff.1 hi).1
      have hget : ru[i] = false := (List.getElem?_eq_some_iff.1 hi).2
      rw [List.count_set hil, hget]
      simp
      omega


/-- what we know about the result of the greedy matcher started from the empty state -/
structure GreedyOut (dist : List (List (Option Rat))) (n m : Nat) (g : List (Option (Nat × Rat))) : Prop where
  len : g.length = n
  ent : ∀ (i j : Nat) (d : Rat), g[i]? = some (some (j, d)) → j < m ∧ (dist.getD i []).getD j none = some d
  inj : ∀ (i i' j : Nat) (d d' : Rat), g[i]? = some (some (j, d)) → g[i']? = some (some (j, d')) → i = i'
  maxl : ∀ (i j : Nat), j < m → g[i]? = some none → (∀ (i' : Nat) (d' : Rat), g[i']? ≠ some (some (j, d'))) →
    (dist.getD i []).getD j none = none

theorem greedy_spec {dist : List (List (Option Rat))} {n m : Nat} (hdl : dist.length = n)
    (hrow : ∀ i, i < n → (dist.getD i []).length = m)
    (Q : List (Option (Nat × Rat)) → Prop) (hQ0 : Q (List.replicate n none))
    (hQ : ∀ ru cu acc i j d, GInv dist n m ru cu acc → Q acc → (i, j, d) ∈ entries dist ru cu →
      (∀ e ∈ entries dist ru cu, d ≤ e.2.2) → Q (acc.set i (some (j, d)))) :
    GreedyOut dist n m (greedyMatch dist n (List.replicate n false) (List.replicate m false) (List.replicate n none)) ∧
    Q (greedyMatch dist n (List.replicate n false) (List.replicate m false) (List.replicate n none)) := by
  obtain ⟨ru, cu, hI, hq, hE⟩ := greedy_final hdl hrow Q hQ n _ _ _ (GInv.init dist n m) hQ0
    (by rw [List.count_replicate]; simp)
  refine ⟨⟨hI.lacc, hI.ent, hI.inj, ?_⟩, hq⟩
  intro i j hjm hgi hcol
  cases hd : (dist.getD i []).getD j none with
  | none => rfl
  | some d =>
    exfalso
    have hin : i < n := by rw [← hI.lacc]; exact (List.getElem?_eq_some_iff.1 hgi).1
    have hri : ru[i]? = some false := by
      have hlt : i < ru.length := by rw [hI.lru]; exact hin
      cases hb : ru[i] with
      | false => exact List.getElem?_eq_some_iff.2 ⟨hlt, hb⟩
      | true =>
        obtain ⟨j', d', h'⟩ := (hI.row_iff i).1 (List.getElem?_eq_some_iff.2 ⟨hlt, hb⟩)
        rw [hgi] at h'; simp at h'
    have hcj : cu[j]? = some false := by
      have hlt : j < cu.length := by rw [hI.lcu]; exact hjm
      cases hb : cu[j] with
      | false => exact List.getElem?_eq_some_iff.2 ⟨hlt, hb⟩
      | true =>
        obtain ⟨i', d', h'⟩ := (hI.col_iff j).1 (List.getElem?_eq_some_iff.2 ⟨hlt, hb⟩)
        exact absurd h' (hcol _ _)
    have : (i, j, d) ∈ entries dist ru cu := by
      rw [mem_entries]
      refine ⟨hdl ▸ hin, (getD_true_eq_false _ _).2 hri, ?_, (getD_true_eq_false _ _).2 hcj, hd⟩
      rw [hrow i hin]; exact hjm
    rw [hE] at this; simp at this

/-- the distance matrix of `matchBands` -/
def distOf (srcW refW : List (Option Rat)) : List (List (Option Rat)) :=
  srcW.map fun s => refW.map fun r => relDist s r

theorem distOf_length (srcW refW) : (distOf srcW refW).length = srcW.length := by simp [distOf]

theorem distOf_row_length (srcW refW : List (Option Rat)) (i : Nat) (hi : i < srcW.length) :
    ((distOf srcW refW).getD i []).length = refW.length := by
  simp [distOf, List.getD_eq_getElem?_getD, List.getElem?_eq_getElem hi]

theorem distOf_entry (srcW refW : List (Option Rat)) (i j : Nat) (s r : Option Rat)
    (hi : srcW[i]? = some s) (hj : refW[j]? = some r) :
    ((distOf srcW refW).getD i []).getD j none = relDist s r := by
  simp [distOf, List.getD_eq_getElem?_getD, hi, hj]

theorem relDist_some (a b : Rat) (ha : 0 < a) : relDist (some a) (some b) = some (|a - b| / a) := by
  simp only [relDist]
  rw [if_neg (ne_of_gt ha)]
  congr 2
  split
  · rename_i h; rw [abs_of_neg h]; ring
  · rename_i h; rw [abs_of_nonneg (not_lt.1 h)]


/-! ### the two stages of `matchBands` -/

theorem nodup_filterMap_of_index_inj {α : Type} (l : List (Option α))
    (h : ∀ (i i' : Nat) (x : α), l[i]? = some (some x) → l[i']? = some (some x) → i = i') :
    (l.filterMap id).Nodup := by
  induction l with
  | nil => simp
  | cons y l ih =>
    have ih' := ih (fun i i' x h1 h2 => by
      have := h (i + 1) (i' + 1) x (by simpa using h1) (by simpa using h2)
      omega)
    cases y with
    | none => simpa using ih'
    | some y =>
      have : (some y :: l).filterMap id = y :: l.filterMap id := rfl
      rw [this, List.nodup_cons]
      refine ⟨?_, ih'⟩
      intro hm
      have hm' : some y ∈ l := by simpa using hm
      obtain ⟨i, hi⟩ := List.getElem?_of_mem hm'
      have := h 0 (i + 1) y (by simp) (by simpa using hi)
      omega

/-- the map from greedy result to reference band numbers -/
def toRef (refB : List Nat) (g : List (Option (Nat × Rat))) : List (Option Nat) :=
  g.map fun e => e.map fun jd => refB.getD jd.1 0

theorem toRef_getElem?_some (refB : List Nat) (g : List (Option (Nat × Rat))) (i x : Nat)
    (h : (toRef refB g)[i]? = some (some x)) : ∃ j d, g[i]? = some (some (j, d)) ∧ x = refB.getD j 0 := by
  simp only [toRef, List.getElem?_map, Option.map_eq_some_iff] at h
  obtain ⟨e, he, h⟩ := h
  obtain ⟨⟨j, d⟩, rfl, h⟩ := h
  exact ⟨j, d, he, h.symm⟩

theorem toRef_getElem?_none (refB : List Nat) (g : List (Option (Nat × Rat))) (i : Nat)
    (h : (toRef refB g)[i]? = some none) : g[i]? = some none := by
  simp only [toRef, List.getElem?_map, Option.map_eq_some_iff] at h
  obtain ⟨e, he, h⟩ := h
  cases e with
  | none => exact he
  | some e => simp at h

theorem toRef_getElem?_of (refB : List Nat) (g : List (Option (Nat × Rat))) (i j : Nat) (d : Rat)
    (h : g[i]? = some (some (j, d))) : (toRef refB g)[i]? = some (some (refB.getD j 0)) := by
  simp [toRef, h]

theorem stage1_cases (srcB : List Nat) (srcW : List (Option Rat)) (refB : List Nat) (refW : List (Option Rat))
    (force : Bool) (tol : Rat) (mb : List (Option Nat)) (hs : srcW.length = srcB.length)
    (hr : refW.length = refB.length) (h : stage1 srcB srcW refB refW force tol = .ok mb) :
    (mb = List.replicate srcB.length none ∧ ¬(npAny srcW = true ∧ npAny refW = true ∧ force = false)) ∨
    (npAny srcW = true ∧ npAny refW = true ∧ force = false ∧
      ∃ g, GreedyOut (distOf srcW refW) srcB.length refB.length g ∧
        (∀ (j : Nat) (d : Rat), some (j, d) ∈ g → d ≤ tol) ∧ mb = toRef refB g) := by
  unfold stage1 at h
  simp only at h
  split at h
  · rename_i hc
    simp only [Bool.and_eq_true, Bool.not_eq_true'] at hc
    right
    refine ⟨hc.1.1, hc.1.2, hc.2, ?_⟩
    split at h
    · simp at h
    · rename_i hany
      have hspec := (greedy_spec (dist := distOf srcW refW) (n := srcB.length) (m := refB.length)
        (by rw [distOf_length, hs]) (fun i hi => by rw [distOf_row_length _ _ _ (hs ▸ hi), hr])
        (fun _ => True) trivial (fun _ _ _ _ _ _ _ _ _ _ => trivial)).1
      refine ⟨_, hspec, ?_, ?_⟩
      · intro j d hm
        simp only [Bool.not_eq_true, List.any_eq_false] at hany
        have := hany _ hm
        simpa using this
      · simp only [Except.ok.injEq] at h
        exact h.symm
  · rename_i hc
    left
    simp only [Except.ok.injEq] at h
    refine ⟨h.symm, ?_⟩
    simpa [Bool.and_eq_true] using hc


theorem getD_eq_getElem' (l : List Nat) (j : Nat) (h : j < l.length) : l.getD j 0 = l[j] := by
  simp [List.getD_eq_getElem?_getD, List.getElem?_eq_getElem h]

theorem getD_mem_of_lt (l : List Nat) (j : Nat) (h : j < l.length) : l.getD j 0 ∈ l := by
  rw [getD_eq_getElem' _ _ h]; exact List.getElem_mem h

theorem getD_inj_of_nodup (l : List Nat) (hnd : l.Nodup) (j j' : Nat) (h : j < l.length) (h' : j' < l.length)
    (he : l.getD j 0 = l.getD j' 0) : j = j' := by
  rw [getD_eq_getElem' _ _ h, getD_eq_getElem' _ _ h'] at he
  exact (hnd.getElem_inj_iff).1 he

/-- general facts about the wavelength stage -/
structure MbOut (n : Nat) (refB : List Nat) (mb : List (Option Nat)) : Prop where
  len : mb.length = n
  sub : ∀ x, some x ∈ mb → x ∈ refB
  nodup : refB.Nodup → (mb.filterMap id).Nodup

theorem toRef_mbOut (refB : List Nat) (dist n g) (hg : GreedyOut dist n refB.length g) :
    MbOut n refB (toRef refB g) := by
  refine ⟨by simp [toRef, hg.len], ?_, ?_⟩
  · intro x hx
    obtain ⟨i, hi⟩ := List.getElem?_of_mem hx
    obtain ⟨j, d, hg', rfl⟩ := toRef_getElem?_some _ _ _ _ hi
    exact getD_mem_of_lt _ _ (hg.ent _ _ _ hg').1
  · intro hnd
    apply nodup_filterMap_of_index_inj
    intro i i' x h1 h2
    obtain ⟨j, d, hg1, rfl⟩ := toRef_getElem?_some _ _ _ _ h1
    obtain ⟨j', d', hg2, he⟩ := toRef_getElem?_some _ _ _ _ h2
    have := getD_inj_of_nodup _ hnd _ _ (hg.ent _ _ _ hg1).1 (hg.ent _ _ _ hg2).1 he
    subst this
    exact hg.inj _ _ _ _ _ hg1 hg2

theorem stage1_mbOut (srcB : List Nat) (srcW : List (Option Rat)) (refB : List Nat) (refW : List (Option Rat))
    (force : Bool) (tol : Rat) (mb : List (Option Nat)) (hs : srcW.length = srcB.length)
    (hr : refW.length = refB.length) (h : stage1 srcB srcW refB refW force tol = .ok mb) :
    MbOut srcB.length refB mb := by
  rcases stage1_cases _ _ _ _ _ _ _ hs hr h with ⟨rfl, _⟩ | ⟨_, _, _, g, hg, _, rfl⟩
  · refine ⟨by simp, ?_, ?_⟩
    · intro x hx; simp [List.mem_replicate] at hx
    · intro _
      have : (List.replicate srcB.length (none : Option Nat)).filterMap id = [] := by
        rw [List.filterMap_eq_nil_iff]; intro a ha; rw [List.eq_of_mem_replicate ha]; rfl
      rw [this]; exact List.nodup_nil
  · exact toRef_mbOut _ _ _ _ hg

/-- the unmatched reference bands -/
def unmatchRef (refB : List Nat) (mb : List (Option Nat)) : List Nat :=
  refB.filter fun bi => !(mb.contains (some bi))

theorem mem_unmatchRef (refB : List Nat) (mb : List (Option Nat)) (x : Nat) :
    x ∈ unmatchRef refB mb ↔ x ∈ refB ∧ some x ∉ mb := by
  simp [unmatchRef]

theorem stage2_cases (n m : Nat) (refB : List Nat) (force : Bool) (mb mb2 : List (Option Nat))
    (h : stage2 n m refB force mb = .ok mb2) :
    (mb2 = mb ∧ min n m ≤ (mb.filter Option.isSome).length) ∨
    ((mb.filter Option.isSome).length < min n m ∧ (n = m ∨ force = true) ∧
      mb2 = fillNone mb (unmatchRef refB mb)) := by
  unfold stage2 at h
  simp only at h
  split at h
  · rename_i hlt
    right
    split at h
    · rename_i hnm
      simp only [Except.ok.injEq] at h
      exact ⟨hlt, Or.inl hnm, h.symm⟩
    · split at h
      · rename_i hf
        simp only [Except.ok.injEq] at h
        exact ⟨hlt, Or.inr hf, h.symm⟩
      · simp at h
  · rename_i hlt
    left
    simp only [Except.ok.injEq] at h
    exact ⟨h.symm, not_lt.1 hlt⟩

theorem stage2_mbOut (n m : Nat) (refB : List Nat) (force : Bool) (mb mb2 : List (Option Nat))
    (hmb : MbOut n refB mb) (h : stage2 n m refB force mb = .ok mb2) : MbOut n refB mb2 := by
  rcases stage2_cases _ _ _ _ _ _ h with ⟨rfl, _⟩ | ⟨_, _, rfl⟩
  · exact hmb
  · refine ⟨by rw [fillNone_length, hmb.len], ?_, ?_⟩
    · intro x hx
      rcases fillNone_mem _ _ _ hx with h | h
      · exact hmb.sub _ h
      · exact ((mem_unmatchRef _ _ _).1 h).1
    · intro hnd
      apply fillNone_nodup _ _ (hmb.nodup hnd) (hnd.filter _)
      intro v hv
      exact ((mem_unmatchRef _ _ _).1 hv).2

/-- unforced: every entry of the second stage is matched -/
theorem stage2_all_some (n m : Nat) (refB : List Nat) (mb mb2 : List (Option Nat)) (hnm : n ≤ m)
    (hm : refB.length = m) (hnd : refB.Nodup)
    (hmb : MbOut n refB mb) (h : stage2 n m refB false mb = .ok mb2) : ∀ x ∈ mb2, x.isSome = true := by
  rcases stage2_cases _ _ _ _ _ _ h with ⟨rfl, hle⟩ | ⟨_, hnm', rfl⟩
  · rw [Nat.min_eq_left hnm] at hle
    have h1 : (mb2.filter Option.isSome).length = mb2.length := by
      have := List.length_filter_le Option.isSome mb2
      rw [hmb.len] at *; omega
    rw [List.length_filter_eq_length_iff] at h1
    exact h1
  · have hnm'' : n = m := by simpa using hnm'
    apply fillNone_all_some
    have h1 := count_matched_le refB mb hnd
    have h2 : (unmatchRef refB mb).length + (refB.filter fun b => mb.contains (some b)).length = refB.length := by
      unfold unmatchRef
      have := List.length_eq_length_filter_add (l := refB) (fun b => mb.contains (some b))
      omega
    rw [hmb.len]; omega


/-! ### successful runs -/

/-- decomposition of a successful `matchBands` -/
theorem matchBands_ok {srcB : List Nat} {srcW : List (Option Rat)} {refB : List Nat} {refW : List (Option Rat)}
    {force : Bool} {tol : Rat} {S R : List Nat} (h : matchBands srcB srcW refB refW force tol = .ok (S, R)) :
    (force = false → srcB.length ≤ refB.length) ∧
    ∃ mb mb2, stage1 srcB srcW refB refW force tol = .ok mb ∧
      stage2 srcB.length refB.length refB force mb = .ok mb2 ∧
      S = (pairsOf srcB mb2).map (·.1) ∧ R = (pairsOf srcB mb2).map (·.2) := by
  rw [matchBands_eq] at h
  split at h
  · simp at h
  · rename_i hc
    refine ⟨fun hf => by subst hf; simpa using hc, ?_⟩
    split at h
    · simp at h
    · rename_i mb h1
      split at h
      · simp at h
      · rename_i mb2 h2
        simp only [Except.ok.injEq, Prod.mk.injEq] at h
        exact ⟨mb, mb2, h1, h2, h.1.symm, h.2.symm⟩

/-- unforced success: the second-stage list is fully matched, `S = srcB` and `R` lists its values -/
theorem matchBands_ok_unforced {srcB : List Nat} {srcW : List (Option Rat)} {refB : List Nat}
    {refW : List (Option Rat)} {tol : Rat} {S R : List Nat} (hs : srcW.length = srcB.length)
    (hr : refW.length = refB.length) (hnd : refB.Nodup)
    (h : matchBands srcB srcW refB refW false tol = .ok (S, R)) :
    srcB.length ≤ refB.length ∧
    ∃ mb, stage1 srcB srcW refB refW false tol = .ok mb ∧
      stage2 srcB.length refB.length refB false mb = .ok (R.map some) ∧ S = srcB ∧ R.length = srcB.length := by
  obtain ⟨hnm, mb, mb2, h1, h2, rfl, rfl⟩ := matchBands_ok h
  have hnm := hnm rfl
  have hmb := stage1_mbOut _ _ _ _ _ _ _ hs hr h1
  have hout := stage2_mbOut _ _ _ _ _ _ hmb h2
  have hall := stage2_all_some _ _ _ _ _ hnm rfl hnd hmb h2
  obtain ⟨e1, e2⟩ := pairsOf_all_some srcB mb2 hout.len hall
  refine ⟨hnm, mb, h1, by rw [e2]; exact h2, e1, ?_⟩
  have := congrArg List.length e2
  simpa [hout.len] using this

theorem npAny_of_pos (ws : List (Option Rat)) (i : Nat) (a : Rat) (h : ws[i]? = some (some a)) (ha : a ≠ 0) :
    npAny ws = true := by
  simp only [npAny, List.any_eq_true]
  exact ⟨some a, List.mem_of_getElem? h, by simpa using ha⟩

/-- core of `match_within_tol`, on the second-stage list -/
theorem within_tol_core (srcB : List Nat) (srcW : List (Option ℚ)) (refB : List Nat) (refW : List (Option ℚ))
    (tol : ℚ) (mb mb2 : List (Option Nat)) (hs : srcW.length = srcB.length) (hr : refW.length = refB.length)
    (hnd : refB.Nodup) (hrany : npAny refW = true)
    (h1 : stage1 srcB srcW refB refW false tol = .ok mb)
    (h2 : stage2 srcB.length refB.length refB false mb = .ok mb2)
    (i j : Nat) (a b : ℚ) (hj : j < refB.length) (ha : 0 < a)
    (hmb2 : mb2[i]? = some (some (refB.getD j 0)))
    (hwi : srcW[i]? = some (some a)) (hwj : refW[j]? = some (some b)) : |a - b| ≤ tol * a := by
  have hent : ((distOf srcW refW).getD i []).getD j none = some (|a - b| / a) := by
    rw [distOf_entry _ _ _ _ _ _ hwi hwj, relDist_some _ _ ha]
  rcases stage1_cases _ _ _ _ _ _ _ hs hr h1 with ⟨_, hno⟩ | ⟨_, _, _, g, hg, htol, rfl⟩
  · exact absurd ⟨npAny_of_pos _ _ _ hwi (ne_of_gt ha), hrany, rfl⟩ hno
  · have hin : i < g.length := by
      have h3 := (stage2_mbOut _ _ _ _ _ _ (toRef_mbOut _ _ _ _ hg) h2).len
      have := (List.getElem?_eq_some_iff.1 hmb2).1
      rw [hg.len]; omega
    -- the greedy entry of row `i`
    cases hgi : g[i] with
    | some jd =>
      obtain ⟨j', d⟩ := jd
      have hgi' : g[i]? = some (some (j', d)) := List.getElem?_eq_some_iff.2 ⟨hin, hgi⟩
      have hmbi := toRef_getElem?_of refB g i j' d hgi'
      have hmb2i : mb2[i]? = some (some (refB.getD j' 0)) := by
        rcases stage2_cases _ _ _ _ _ _ h2 with ⟨rfl, _⟩ | ⟨_, _, rfl⟩
        · exact hmbi
        · exact fillNone_getElem?_some _ _ _ _ hmbi
      rw [hmb2] at hmb2i
      simp only [Option.some.injEq] at hmb2i
      have hjj := getD_inj_of_nodup _ hnd _ _ hj (hg.ent _ _ _ hgi').1 hmb2i
      subst hjj
      have hd := (hg.ent _ _ _ hgi').2
      rw [hent] at hd
      simp only [Option.some.injEq] at hd
      have := htol j d (List.mem_of_getElem? hgi')
      rw [← hd, div_le_iff₀ ha] at this
      exact this
    | none =>
      exfalso
      have hgi' : g[i]? = some none := List.getElem?_eq_some_iff.2 ⟨hin, hgi⟩
      have hmbi : (toRef refB g)[i]? = some none := by simp [toRef, hgi']
      rcases stage2_cases _ _ _ _ _ _ h2 with ⟨rfl, _⟩ | ⟨_, _, rfl⟩
      · rw [hmbi] at hmb2; simp at hmb2
      · have hun := fillNone_getElem?_none _ _ _ _ hmb2 hmbi
        have hnot := ((mem_unmatchRef _ _ _).1 hun).2
        have hmax := hg.maxl i j hj hgi' (by
          intro i' d' hc
          exact hnot (List.mem_of_getElem? (toRef_getElem?_of refB g i' j d' hc)))
        rw [hent] at hmax; simp at hmax

/-! ### nearest band wins -/

theorem getElem?_bool_cases (l : List Bool) (i : Nat) (h : i < l.length) : l[i]? = some true ∨ l[i]? = some false := by
  rw [List.getElem?_eq_getElem h]
  cases l[i] <;> simp

theorem nearest_greedy (srcW refW : List (Option ℚ)) (n m : Nat) (hs : srcW.length = n) (hr : refW.length = m)
    (sw rw : Nat → ℚ) (hsw : ∀ i, i < n → srcW[i]? = some (some (sw i)) ∧ 0 < sw i)
    (hrw : ∀ j, j < m → refW[j]? = some (some (rw j)))
    (assign : Nat → Nat) (hin : ∀ i, i < n → assign i < m)
    (hinj : ∀ i i', i < n → i' < n → assign i = assign i' → i = i')
    (hnear : ∀ i j, i < n → j < m → j ≠ assign i →
      |sw i - rw (assign i)| / sw i < |sw i - rw j| / sw i) :
    (greedyMatch (distOf srcW refW) n (List.replicate n false) (List.replicate m false)
        (List.replicate n none)).length = n ∧
    ∀ i, i < n → (greedyMatch (distOf srcW refW) n (List.replicate n false) (List.replicate m false)
        (List.replicate n none))[i]? = some (some (assign i, |sw i - rw (assign i)| / sw i)) := by
  have hentry : ∀ i j, i < n → j < m →
      ((distOf srcW refW).getD i []).getD j none = some (|sw i - rw j| / sw i) := by
    intro i j hi hj
    rw [distOf_entry _ _ _ _ _ _ (hsw i hi).1 (hrw j hj), relDist_some _ _ (hsw i hi).2]
  have hdl : (distOf srcW refW).length = n := by rw [distOf_length, hs]
  have hrowl : ∀ i, i < n → ((distOf srcW refW).getD i []).length = m := fun i hi => by
    rw [distOf_row_length _ _ _ (hs ▸ hi), hr]
  obtain ⟨hg, hq⟩ := greedy_spec (dist := distOf srcW refW) (n := n) (m := m) hdl hrowl
    (fun acc => ∀ (i j : Nat) (d : ℚ), acc[i]? = some (some (j, d)) → j = assign i)
    (by intro i j d; simp [List.getElem?_replicate])
    (by
      intro ru cu acc i j d hI hq hmem hmin i' j' d' h'
      have hm := (mem_entries _ _ _ _ _ _).1 hmem
      have hi : i < n := hdl ▸ hm.1
      have hru := (getD_true_eq_false _ _).1 hm.2.1
      rw [List.getElem?_set] at h'
      by_cases hii : i = i'
      · subst hii
        have hlt : i < acc.length := by rw [hI.lacc]; exact hi
        simp only [if_true, hlt, Option.some.injEq, Prod.mk.injEq] at h'
        obtain ⟨rfl, rfl⟩ := h'
        by_contra hne
        have hjm : j < m := by rw [← hrowl i hi]; exact hm.2.2.1
        have hd := hm.2.2.2.2
        rw [hentry i j hi hjm] at hd
        simp only [Option.some.injEq] at hd
        -- column `assign i` is still free
        have hcu : cu[assign i]? = some false := by
          rcases getElem?_bool_cases cu (assign i) (by rw [hI.lcu]; exact hin i hi) with hc | hc
          · exfalso
            obtain ⟨i2, d2, h2⟩ := (hI.col_iff _).1 hc
            have hi2 : i2 < n := by rw [← hI.lacc]; exact (List.getElem?_eq_some_iff.1 h2).1
            have := hinj _ _ hi2 hi (hq _ _ _ h2).symm
            subst this
            have := (hI.row_iff i2).2 ⟨_, _, h2⟩
            rw [hru] at this; simp at this
          · exact hc
        have hmem' : (i, assign i, |sw i - rw (assign i)| / sw i) ∈ entries (distOf srcW refW) ru cu := by
          rw [mem_entries]
          refine ⟨hm.1, hm.2.1, ?_, (getD_true_eq_false _ _).2 hcu, hentry i _ hi (hin i hi)⟩
          rw [hrowl i hi]; exact hin i hi
        have h1 := hmin _ hmem'
        have h2 := hnear i j hi hjm hne
        simp only at h1
        rw [← hd] at h1
        exact absurd h2 (not_lt.2 h1)
      · simp only [hii, if_false] at h'
        exact hq _ _ _ h')
  refine ⟨hg.len, ?_⟩
  intro i hi
  generalize greedyMatch (distOf srcW refW) n (List.replicate n false) (List.replicate m false)
        (List.replicate n none) = g at hg hq ⊢
  have hlt : i < g.length := by rw [hg.len]; exact hi
  cases hgi : g[i] with
  | none =>
    exfalso
    have hgi' : g[i]? = some none := List.getElem?_eq_some_iff.2 ⟨hlt, hgi⟩
    have := hg.maxl i (assign i) (hin i hi) hgi' (by
      intro i' d' hc
      have hi' : i' < n := by rw [← hg.len]; exact (List.getElem?_eq_some_iff.1 hc).1
      have := hinj _ _ hi' hi (hq _ _ _ hc).symm
      subst this
      rw [hgi'] at hc; simp at hc)
    rw [hentry i _ hi (hin i hi)] at this; simp at this
  | some jd =>
    obtain ⟨j, d⟩ := jd
    have hgi' : g[i]? = some (some (j, d)) := List.getElem?_eq_some_iff.2 ⟨hlt, hgi⟩
    have hj := hq _ _ _ hgi'
    subst hj
    have := (hg.ent _ _ _ hgi').2
    rw [hentry i _ hi (hin i hi)] at this
    simp only [Option.some.injEq] at this
    rw [List.getElem?_eq_getElem hlt, hgi, this]


theorem npAny_false (ws : List (Option ℚ)) (h : npAny ws = false) (w : Option ℚ) (hw : w ∈ ws) : w = some 0 := by
  simp only [npAny, List.any_eq_false] at h
  have := h w hw
  cases w with
  | none => simp at this
  | some q => simpa using this

/-- the second stage and the pairing when every source band has been matched by wavelength -/
theorem finish_all_matched (srcB refB R : List Nat) (m : Nat) (hR : R.length = srcB.length) (hnm : srcB.length ≤ m) :
    (match stage2 srcB.length m refB false (R.map some) with
      | .error e => (.error e : Except MatchErr (List Nat × List Nat))
      | .ok mb2 => .ok ((pairsOf srcB mb2).map (fun x : Nat × Nat => x.1), (pairsOf srcB mb2).map (fun x : Nat × Nat => x.2))) = .ok (srcB, R) := by
  have hcount : ((R.map some).filter Option.isSome).length = srcB.length := by
    rw [← hR]
    have : (R.map some).filter Option.isSome = R.map some := by
      rw [List.filter_eq_self]; intro a ha; simp only [List.mem_map] at ha; obtain ⟨x, _, rfl⟩ := ha; rfl
    rw [this, List.length_map]
  have h2 : stage2 srcB.length m refB false (R.map some) = .ok (R.map some) := by
    unfold stage2
    simp only [hcount]
    rw [if_neg]
    rw [Nat.min_eq_left hnm]; omega
  rw [h2]
  obtain ⟨e1, e2⟩ := pairsOf_all_some srcB (R.map some) (by simp [hR]) (by
    intro x hx; simp only [List.mem_map] at hx; obtain ⟨y, _, rfl⟩ := hx; rfl)
  have e3 : (pairsOf srcB (R.map some)).map (·.2) = R :=
    (List.map_injective_iff.2 (Option.some_injective _)) e2
  simp only [e1, e3]

end Homonim
