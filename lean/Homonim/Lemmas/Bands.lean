/-
  Helper lemmas about the greedy band matcher (Model/Bands.lean).
-/
import Homonim.Model.Bands
import Mathlib.Tactic.Linarith
import Mathlib.Tactic.Ring
import Mathlib.Tactic.FieldSimp
import Mathlib.Data.List.Basic
import Mathlib.Data.List.Nodup
import Mathlib.Data.List.Sublists
import Mathlib.Algebra.Order.Field.Basic
import Mathlib.Data.Rat.Defs

namespace Homonim

end Homonim
