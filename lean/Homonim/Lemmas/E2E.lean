/-
  Helper lemmas for E2E (end-to-end block transparency of the whole-image fusion model):
    * 1-D geometry: overlapping source pixels lie in the expanded window; nothing overlaps outside `refWin`;
      the centre of a source pixel of a rounded window lies in the closure of the window, so the nearest pixel and the
      bilinear support stay within one pixel of it;
    * congruence of `avg2`, `resample2` and `fitAt` on the points they actually read.
-/
import Homonim.Model.FuseBlocks
import Homonim.Lemmas.Geom
import Homonim.Lemmas.Kernel
import Homonim.Lemmas.KernelLocal
import Homonim.Props.C05
import Homonim.Props.C06
import Mathlib.Tactic.Ring
import Mathlib.Tactic.Linarith
import Mathlib.Data.List.Basic

namespace Homonim

/-! ### integer helpers -/

theorem lt_of_mul_lt_mul_pos (x y d : Int) (hd : 0 < d) (h : x * d < y * d) : x < y := by
  by_contra hc
  have : y * d ≤ x * d := Int.mul_le_mul_of_nonneg_right (by omega) (le_of_lt hd)
  omega

theorem le_of_mul_le_mul_pos (x y d : Int) (hd : 0 < d) (h : x * d ≤ y * d) : x ≤ y := by
  by_contra hc
  have : (y + 1) * d ≤ x * d := Int.mul_le_mul_of_nonneg_right (by omega) (le_of_lt hd)
  have : (y + 1) * d = y * d + d := by ring
  omega

/-- rounding half-to-even moves by at most half a unit -/
theorem rhe_half (a d : Int) (hd : 0 < d) : 2 * a - d ≤ 2 * (rhe a d * d) ∧ 2 * (rhe a d * d) ≤ 2 * a + d := by
  have h0 := Int.emod_add_mul_ediv a d
  have h1 := Int.emod_nonneg a (ne_of_gt hd)
  have h2 := Int.emod_lt_of_pos a hd
  have e1 : (a / d + 1) * d = d * (a / d) + d := by ring
  have e2 : a / d * d = d * (a / d) := by ring
  unfold rhe; simp only
  split_ifs <;> (first | rw [e1] | rw [e2]) <;> omega

/-! ### 1-D geometry of `average` supports -/

theorem mem_avgWeights1 (S D : Axis) (j : Int) (iw : Int × Int) (h : iw ∈ avgWeights1 S D j) :
    0 ≤ iw.1 ∧ iw.1 < S.n ∧ D.edge j < S.edge (iw.1 + 1) ∧ S.edge iw.1 < D.edge (j + 1) := by
  unfold avgWeights1 at h
  simp only [List.mem_filterMap, List.mem_range] at h
  obtain ⟨i, hi, hif⟩ := h
  split at hif
  · rename_i hw
    have := Option.some.inj hif
    subst this
    simp only
    unfold overlap1 at hw
    omega
  · cases hif

/-- every source pixel that overlaps a pixel of the window lies in the expanded window -/
theorem overlap_in_expand (S R : Axis) (hS : 0 < S.p) (hR : 0 < R.p) (w : Win1) (a : Int)
    (ha : w.lo ≤ a ∧ a < w.hi) (x : Int) (h1 : R.edge a < S.edge (x + 1)) (h2 : S.edge x < R.edge (a + 1)) :
    (expandTo R S w).lo ≤ x ∧ x < (expandTo R S w).hi := by
  unfold expandTo toOther
  simp only
  unfold Axis.edge at *
  have e1 : w.lo * R.p ≤ a * R.p := Int.mul_le_mul_of_nonneg_right ha.1 (le_of_lt hR)
  have e2 : (a + 1) * R.p ≤ w.hi * R.p := Int.mul_le_mul_of_nonneg_right (by omega) (le_of_lt hR)
  constructor
  · have h3 := fdiv_mul_le (R.o + w.lo * R.p - S.o) S.p hS
    have : (R.o + w.lo * R.p - S.o) / S.p < x + 1 := lt_of_mul_lt_mul_pos _ _ _ hS (by omega)
    omega
  · have h3 := cdiv_mul_ge (R.o + w.hi * R.p - S.o) S.p hS
    exact lt_of_mul_lt_mul_pos _ _ _ hS (by omega)

/-- no source pixel overlaps a reference pixel outside `refWin` -/
theorem avgWeights1_outside (S R : Axis) (hS : 0 < S.p) (hR : 0 < R.p) (a : Int)
    (ha : ¬ ((refWin S R).lo ≤ a ∧ a < (refWin S R).hi)) : avgWeights1 S R a = [] := by
  rw [List.eq_nil_iff_forall_not_mem]
  intro iw hiw
  obtain ⟨h0, hn, h1, h2⟩ := mem_avgWeights1 S R a iw hiw
  apply ha
  unfold refWin expandTo toOther Axis.full
  simp only
  unfold Axis.edge at *
  have e1 : 0 ≤ iw.1 * S.p := Int.mul_nonneg h0 (le_of_lt hS)
  have e2 : (iw.1 + 1) * S.p ≤ S.n * S.p := Int.mul_le_mul_of_nonneg_right (by omega) (le_of_lt hS)
  constructor
  · have h3 := fdiv_mul_le (S.o + 0 * S.p - R.o) R.p hR
    have : (S.o + 0 * S.p - R.o) / R.p < a + 1 := lt_of_mul_lt_mul_pos _ _ _ hR (by omega)
    omega
  · have h3 := cdiv_mul_ge (S.o + S.n * S.p - R.o) R.p hR
    exact lt_of_mul_lt_mul_pos _ _ _ hR (by omega)

theorem wmean_nil : wmean [] = none := by
  unfold wmean divO; simp

/-- `avg2` is invalid where no source pixel overlaps along the rows -/
theorem avg2_outside_rows (Sr Sc Dr Dc : Axis) (img : ImgO) (a b : Int) (h : avgWeights1 Sr Dr a = []) :
    avg2 Sr Sc Dr Dc img a b = none := by
  unfold avg2; simp only [h, List.flatMap_nil]; exact wmean_nil

/-- `avg2` is invalid where no source pixel overlaps along the columns -/
theorem avg2_outside_cols (Sr Sc Dr Dc : Axis) (img : ImgO) (a b : Int) (h : avgWeights1 Sc Dc b = []) :
    avg2 Sr Sc Dr Dc img a b = none := by
  unfold avg2
  have : (List.flatMap (fun (_ : Int × Int) => ([] : List (Rat × Rat))) (avgWeights1 Sr Dr a)) = [] := by simp
  simp only [h, List.filterMap_nil, this]; exact wmean_nil

/-- `avg2` reads the image only at the overlapping pixels -/
theorem avg2_congr (Sr Sc Dr Dc : Axis) (img1 img2 : ImgO) (a b : Int)
    (h : ∀ iw ∈ avgWeights1 Sr Dr a, ∀ kv ∈ avgWeights1 Sc Dc b, img1 iw.1 kv.1 = img2 iw.1 kv.1) :
    avg2 Sr Sc Dr Dc img1 a b = avg2 Sr Sc Dr Dc img2 a b := by
  unfold avg2
  simp only
  congr 1
  apply List.flatMap_congr
  intro iw hiw
  apply List.filterMap_congr
  intro kv hkv
  rw [h iw hiw kv hkv]

/-! ### 1-D geometry of the up-sampling supports -/

/-- the centre of a source pixel of the rounded window lies in the closure of the window: the nearest reference pixel is
    in `[w.lo, w.hi]` and the bilinear support in `[w.lo - 1, w.hi]` -/
theorem support_near_window (S R : Axis) (hS : 0 < S.p) (hR : 0 < R.p) (w : Win1) (r : Int)
    (hr : (roundTo R S w).lo ≤ r ∧ r < (roundTo R S w).hi) :
    (w.lo ≤ nearestIdx R S r ∧ nearestIdx R S r ≤ w.hi) ∧
      ∀ iw ∈ bilinWeights1 R S r, w.lo - 1 ≤ iw.1 ∧ iw.1 ≤ w.hi := by
  unfold roundTo toOther at hr
  simp only at hr
  have hden : 0 < 2 * R.p := by omega
  have hl := (rhe_half (R.edge w.lo - S.o) S.p hS).1
  have hh := (rhe_half (R.edge w.hi - S.o) S.p hS).2
  have e1 : rhe (R.edge w.lo - S.o) S.p * S.p ≤ r * S.p := Int.mul_le_mul_of_nonneg_right hr.1 (le_of_lt hS)
  have e2 : (r + 1) * S.p ≤ rhe (R.edge w.hi - S.o) S.p * S.p :=
    Int.mul_le_mul_of_nonneg_right (by omega) (le_of_lt hS)
  have e3 : (r + 1) * S.p = r * S.p + S.p := by ring
  -- doubled centre of source pixel `r`, relative to the reference origin
  have c1 : w.lo * (2 * R.p) ≤ 2 * (S.edge r - R.o) + S.p := by
    unfold Axis.edge at *
    have : w.lo * (2 * R.p) = 2 * (w.lo * R.p) := by ring
    omega
  have c2 : 2 * (S.edge r - R.o) + S.p ≤ w.hi * (2 * R.p) := by
    unfold Axis.edge at *
    have : w.hi * (2 * R.p) = 2 * (w.hi * R.p) := by ring
    omega
  have n1 : w.lo ≤ (2 * (S.edge r - R.o) + S.p) / (2 * R.p) := le_fdiv_of_mul_le _ _ _ hden c1
  have n2 : (2 * (S.edge r - R.o) + S.p) / (2 * R.p) ≤ w.hi := by
    have := fdiv_mul_le (2 * (S.edge r - R.o) + S.p) (2 * R.p) hden
    exact le_of_mul_le_mul_pos _ _ _ hden (by omega)
  refine ⟨⟨n1, n2⟩, ?_⟩
  intro iw hiw
  unfold bilinWeights1 at hiw
  simp only [List.mem_cons, List.mem_nil_iff, or_false] at hiw
  have b1 : w.lo - 1 ≤ (2 * (S.edge r - R.o) + S.p - R.p) / (2 * R.p) := by
    apply le_fdiv_of_mul_le _ _ _ hden
    have : (w.lo - 1) * (2 * R.p) = w.lo * (2 * R.p) - 2 * R.p := by ring
    omega
  have b2 : (2 * (S.edge r - R.o) + S.p - R.p) / (2 * R.p) < w.hi := by
    have := fdiv_mul_le (2 * (S.edge r - R.o) + S.p - R.p) (2 * R.p) hden
    exact lt_of_mul_lt_mul_pos _ _ _ hden (by omega)
  rcases hiw with rfl | rfl <;> simp only <;> omega

/-- the rounded image of a window lies inside the expanded image of any window containing it -/
theorem round_subset_expand (P O : Axis) (hP : 0 < P.p) (hO : 0 < O.p) (wi wo : Win1)
    (hsub : wi.lo ≤ wo.lo ∧ wo.hi ≤ wi.hi) (x : Int)
    (hx : (roundTo P O wo).lo ≤ x ∧ x < (roundTo P O wo).hi) :
    (expandTo P O wi).lo ≤ x ∧ x < (expandTo P O wi).hi := by
  unfold roundTo at hx
  unfold expandTo
  simp only at *
  have m1 : toOther P O wi.lo ≤ toOther P O wo.lo := by
    unfold toOther Axis.edge
    have := Int.mul_le_mul_of_nonneg_right hsub.1 (le_of_lt hP)
    omega
  have m2 : toOther P O wo.hi ≤ toOther P O wi.hi := by
    unfold toOther Axis.edge
    have := Int.mul_le_mul_of_nonneg_right hsub.2 (le_of_lt hP)
    omega
  constructor
  · have := (rhe_bounds (toOther P O wo.lo) O.p hO).1
    have := Int.ediv_le_ediv hO m1
    omega
  · have h1 : rhe (toOther P O wo.hi) O.p ≤ cdiv (toOther P O wo.hi) O.p :=
      rhe_le_of_le_mul _ _ _ hO (cdiv_mul_ge _ _ hO)
    have := cdiv_mono _ _ O.p hO m2
    omega

/-! ### congruence of the up-sampling on its support -/

theorem resample2_congr (ups : Resampling) (hups : ups ≠ .average) (Sr Sc Dr Dc : Axis) (img1 img2 : ImgO)
    (jr jc lr hr lc hc : Int)
    (hnr : lr ≤ nearestIdx Sr Dr jr ∧ nearestIdx Sr Dr jr ≤ hr)
    (hnc : lc ≤ nearestIdx Sc Dc jc ∧ nearestIdx Sc Dc jc ≤ hc)
    (hbr : ∀ iw ∈ bilinWeights1 Sr Dr jr, lr ≤ iw.1 ∧ iw.1 ≤ hr)
    (hbc : ∀ iw ∈ bilinWeights1 Sc Dc jc, lc ≤ iw.1 ∧ iw.1 ≤ hc)
    (himg : ∀ a b, lr ≤ a ∧ a ≤ hr → lc ≤ b ∧ b ≤ hc → img1 a b = img2 a b) :
    resample2 ups Sr Sc Dr Dc img1 jr jc = resample2 ups Sr Sc Dr Dc img2 jr jc := by
  cases ups with
  | average => exact absurd rfl hups
  | nearest =>
    unfold resample2 nearest2
    exact himg _ _ hnr hnc
  | bilinear =>
    unfold resample2 bilinear2 nearest2
    simp only
    rw [himg _ _ hnr hnc]
    have : ((bilinWeights1 Sr Dr jr).flatMap fun iw => (bilinWeights1 Sc Dc jc).filterMap fun kv =>
        (img1 iw.1 kv.1).map fun x => (((iw.2 * kv.2 : Int) : Rat), x)) =
      ((bilinWeights1 Sr Dr jr).flatMap fun iw => (bilinWeights1 Sc Dc jc).filterMap fun kv =>
        (img2 iw.1 kv.1).map fun x => (((iw.2 * kv.2 : Int) : Rat), x)) := by
      apply List.flatMap_congr
      intro iw hiw
      apply List.filterMap_congr
      intro kv hkv
      rw [himg _ _ (hbr iw hiw) (hbc kv hkv)]
    rw [this]

/-! ### the fit reads the block only at the jointly valid window points -/

theorem winPts_congr_local (b1 b2 : Block) (hh : b1.h = b2.h) (hw : b1.w = b2.w) (kh kw r c : Nat)
    (H : ∀ i j, (i, j) ∈ winPos kh kw b2.h b2.w r c →
      b1.m i j = b2.m i j ∧ (b2.m i j = true → b1.src i j = b2.src i j ∧ b1.ref i j = b2.ref i j)) :
    b1.winPts kh kw r c = b2.winPts kh kw r c := by
  unfold Block.winPts
  rw [hh, hw]
  have hf : (List.filter (fun p => b1.m p.1 p.2) (winPos kh kw b2.h b2.w r c)) =
      (List.filter (fun p => b2.m p.1 p.2) (winPos kh kw b2.h b2.w r c)) := by
    apply List.filter_congr
    intro p hp
    exact (H p.1 p.2 hp).1
  rw [hf]
  apply List.map_congr_left
  intro p hp
  rw [List.mem_filter] at hp
  have := (H p.1 p.2 hp.1).2 hp.2
  rw [this.1, this.2]

theorem fitAt_congr_local (b1 b2 : Block) (hh : b1.h = b2.h) (hw : b1.w = b2.w) (model : Model) (kh kw : Nat)
    (fr : Bool) (th : Option ℚ) (n0 n1 : ℚ) (oF : Nat → Nat → Option ℚ) (r c : Nat)
    (hm : b1.m r c = b2.m r c)
    (H : ∀ i j, (i, j) ∈ winPos kh kw b2.h b2.w r c →
      b1.m i j = b2.m i j ∧ (b2.m i j = true → b1.src i j = b2.src i j ∧ b1.ref i j = b2.ref i j)) :
    fitAt b1 model kh kw fr th n0 n1 oF r c = fitAt b2 model kh kw fr th n0 n1 oF r c := by
  unfold fitAt
  rw [hm]
  by_cases hmm : b2.m r c = true
  · simp only [hmm, if_true]
    cases model with
    | gain => simp only; rw [sums_eq_ptsSums, sums_eq_ptsSums, winPts_congr_local b1 b2 hh hw kh kw r c H]
    | gainOffset => simp only; rw [sums_eq_ptsSums, sums_eq_ptsSums, winPts_congr_local b1 b2 hh hw kh kw r c H]
    | gainBlkOffset =>
      simp only
      have Hn : ∀ i j, (i, j) ∈ winPos kh kw (b2.normalised n0 n1).h (b2.normalised n0 n1).w r c →
          (b1.normalised n0 n1).m i j = (b2.normalised n0 n1).m i j ∧
            ((b2.normalised n0 n1).m i j = true →
              (b1.normalised n0 n1).src i j = (b2.normalised n0 n1).src i j ∧
                (b1.normalised n0 n1).ref i j = (b2.normalised n0 n1).ref i j) := by
        intro i j hij
        have h1 := H i j hij
        refine ⟨h1.1, ?_⟩
        intro hmij
        have h2 := h1.2 hmij
        simp only [Block.normalised]
        rw [h2.1, h2.2]; exact ⟨rfl, rfl⟩
      rw [sums_eq_ptsSums, sums_eq_ptsSums,
        winPts_congr_local (b1.normalised n0 n1) (b2.normalised n0 n1) hh hw kh kw r c Hn]
  · simp [hmm]

/-! ### the restricted pair against the whole pair -/

/-- the pair as a block sees it, with the source window the expansion of the reference window -/
abbrev ImagePair.restrictTo (p : ImagePair) (pinR pinC : Win1) : ImagePair :=
  p.restrict pinR pinC (expandTo p.Rr p.Sr pinR) (expandTo p.Rc p.Sc pinC)

/-- (1) at a reference pixel that is inside the block's reference window whenever it is inside the processing window,
    the down-sampled source agrees, and where that is valid so does the reference -/
theorem restrict_point_agree (p : ImagePair) (hSr : 0 < p.Sr.p) (hSc : 0 < p.Sc.p) (hRr : 0 < p.Rr.p)
    (hRc : 0 < p.Rc.p) (pinR pinC : Win1) (a b : Int)
    (h : ((refWin p.Sr p.Rr).lo ≤ a ∧ a < (refWin p.Sr p.Rr).hi) →
         ((refWin p.Sc p.Rc).lo ≤ b ∧ b < (refWin p.Sc p.Rc).hi) →
         (pinR.lo ≤ a ∧ a < pinR.hi) ∧ (pinC.lo ≤ b ∧ b < pinC.hi)) :
    (p.restrictTo pinR pinC).srcDs a b = p.srcDs a b ∧
      (p.srcDs a b ≠ none → (p.restrictTo pinR pinC).ref a b = p.ref a b) := by
  by_cases ha : (refWin p.Sr p.Rr).lo ≤ a ∧ a < (refWin p.Sr p.Rr).hi
  · by_cases hb : (refWin p.Sc p.Rc).lo ≤ b ∧ b < (refWin p.Sc p.Rc).hi
    · obtain ⟨hpa, hpb⟩ := h ha hb
      constructor
      · show avg2 p.Sr p.Sc p.Rr p.Rc (p.src.restrict (expandTo p.Rr p.Sr pinR) (expandTo p.Rc p.Sc pinC)) a b =
          avg2 p.Sr p.Sc p.Rr p.Rc p.src a b
        apply avg2_congr
        intro iw hiw kv hkv
        obtain ⟨_, _, r1, r2⟩ := mem_avgWeights1 _ _ _ _ hiw
        obtain ⟨_, _, c1, c2⟩ := mem_avgWeights1 _ _ _ _ hkv
        have hr := overlap_in_expand p.Sr p.Rr hSr hRr pinR a hpa iw.1 r1 r2
        have hc := overlap_in_expand p.Sc p.Rc hSc hRc pinC b hpb kv.1 c1 c2
        unfold ImgO.restrict
        rw [if_pos ⟨hr.1, hr.2, hc.1, hc.2⟩]
      · intro _
        show (p.ref.restrict pinR pinC) a b = p.ref a b
        unfold ImgO.restrict
        rw [if_pos ⟨hpa.1, hpa.2, hpb.1, hpb.2⟩]
    · have hnil := avgWeights1_outside p.Sc p.Rc hSc hRc b hb
      have e1 : (p.restrictTo pinR pinC).srcDs a b = none := avg2_outside_cols _ _ _ _ _ a b hnil
      have e2 : p.srcDs a b = none := avg2_outside_cols _ _ _ _ _ a b hnil
      exact ⟨by rw [e1, e2], fun hne => absurd e2 hne⟩
  · have hnil := avgWeights1_outside p.Sr p.Rr hSr hRr a ha
    have e1 : (p.restrictTo pinR pinC).srcDs a b = none := avg2_outside_rows _ _ _ _ _ a b hnil
    have e2 : p.srcDs a b = none := avg2_outside_rows _ _ _ _ _ a b hnil
    exact ⟨by rw [e1, e2], fun hne => absurd e2 hne⟩

/-- (2) the fitted parameters agree at a reference pixel whose kernel window, clipped to the processing window,
    lies inside the block's reference window -/
theorem restrict_params_agree (p : ImagePair) (hSr : 0 < p.Sr.p) (hSc : 0 < p.Sc.p) (hRr : 0 < p.Rr.p)
    (hRc : 0 < p.Rc.p) (pinR pinC : Win1) (model : Model) (kh kw : Nat) (n0 n1 : Rat) (i j : Int)
    (Hr : ∀ a : Int, i - ((kh / 2 : Nat) : Int) ≤ a ∧ a ≤ i + ((kh / 2 : Nat) : Int) →
      ((refWin p.Sr p.Rr).lo ≤ a ∧ a < (refWin p.Sr p.Rr).hi) → (pinR.lo ≤ a ∧ a < pinR.hi))
    (Hc : ∀ b : Int, j - ((kw / 2 : Nat) : Int) ≤ b ∧ b ≤ j + ((kw / 2 : Nat) : Int) →
      ((refWin p.Sc p.Rc).lo ≤ b ∧ b < (refWin p.Sc p.Rc).hi) → (pinC.lo ≤ b ∧ b < pinC.hi)) :
    (p.restrictTo pinR pinC).params model kh kw n0 n1 i j = p.params model kh kw n0 n1 i j := by
  -- point-level agreement of the two whole-grid blocks near (i, j)
  have P : ∀ a b : Nat, (i - ((kh / 2 : Nat) : Int) ≤ (a : Int) ∧ (a : Int) ≤ i + ((kh / 2 : Nat) : Int)) →
      (j - ((kw / 2 : Nat) : Int) ≤ (b : Int) ∧ (b : Int) ≤ j + ((kw / 2 : Nat) : Int)) →
      (p.restrictTo pinR pinC).block.m a b = p.block.m a b ∧
        (p.block.m a b = true → (p.restrictTo pinR pinC).block.src a b = p.block.src a b ∧
          (p.restrictTo pinR pinC).block.ref a b = p.block.ref a b) := by
    intro a b ha hb
    obtain ⟨h1, h2⟩ := restrict_point_agree p hSr hSc hRr hRc pinR pinC (a : Int) (b : Int)
      (fun ra rb => ⟨Hr _ ha ra, Hc _ hb rb⟩)
    unfold Block.m ImagePair.block
    simp only
    rw [h1]
    cases hs : p.srcDs (a : Int) (b : Int) with
    | none => simp
    | some x =>
      have h3 := h2 (by rw [hs]; simp)
      rw [h3]
      simp
  unfold ImagePair.params
  show (if 0 ≤ i ∧ i < p.Rr.n ∧ 0 ≤ j ∧ j < p.Rc.n then
      fitAt (p.restrictTo pinR pinC).block model kh kw false none n0 n1 (fun _ _ => none) i.toNat j.toNat else none) = _
  by_cases hin : 0 ≤ i ∧ i < p.Rr.n ∧ 0 ≤ j ∧ j < p.Rc.n
  · rw [if_pos hin, if_pos hin]
    apply fitAt_congr_local (p.restrictTo pinR pinC).block p.block rfl rfl
    · exact (P i.toNat j.toNat (by omega) (by omega)).1
    · intro a b hab
      rw [mem_winPos] at hab
      obtain ⟨⟨_, a1, a2⟩, ⟨_, b1, b2⟩⟩ := hab
      exact P a b (by omega) (by omega)
  · rw [if_neg hin, if_neg hin]

/-- the correction of one pixel is a function of the source value and the two up-sampled parameters there -/
theorem corrected_congr (p q : ImagePair) (hSr : q.Sr = p.Sr) (hSc : q.Sc = p.Sc) (hRr : q.Rr = p.Rr)
    (hRc : q.Rc = p.Rc) (model : Model) (kh kw : Nat) (n0 n1 : Rat) (ups : Resampling) (r c : Int)
    (hsrc : q.src r c = p.src r c)
    (hg : resample2 ups p.Rr p.Rc p.Sr p.Sc (q.gainImg model kh kw n0 n1) r c =
      resample2 ups p.Rr p.Rc p.Sr p.Sc (p.gainImg model kh kw n0 n1) r c)
    (ho : resample2 ups p.Rr p.Rc p.Sr p.Sc (q.offsetImg model kh kw n0 n1) r c =
      resample2 ups p.Rr p.Rc p.Sr p.Sc (p.offsetImg model kh kw n0 n1) r c) :
    q.corrected model kh kw n0 n1 ups r c = p.corrected model kh kw n0 n1 ups r c := by
  unfold ImagePair.corrected
  rw [hSr, hSc, hRr, hRc, hsrc, hg, ho]

/-- (3) block transparency for abstract windows: `pin ⊇ pout` along each axis, and the kernel window (clipped to the
    processing window) of every reference pixel within one pixel of `pout` lies in `pin` -/
theorem block_transparent_core (p : ImagePair) (hSr : 0 < p.Sr.p) (hSc : 0 < p.Sc.p) (hRr : 0 < p.Rr.p)
    (hRc : 0 < p.Rc.p) (model : Model) (kh kw : Nat) (n0 n1 : Rat) (ups : Resampling) (hups : ups ≠ .average)
    (pinR poutR pinC poutC : Win1)
    (hsubR : pinR.lo ≤ poutR.lo ∧ poutR.hi ≤ pinR.hi) (hsubC : pinC.lo ≤ poutC.lo ∧ poutC.hi ≤ pinC.hi)
    (HR : ∀ i a : Int, poutR.lo - 1 ≤ i ∧ i ≤ poutR.hi →
      i - ((kh / 2 : Nat) : Int) ≤ a ∧ a ≤ i + ((kh / 2 : Nat) : Int) →
      ((refWin p.Sr p.Rr).lo ≤ a ∧ a < (refWin p.Sr p.Rr).hi) → (pinR.lo ≤ a ∧ a < pinR.hi))
    (HC : ∀ j b : Int, poutC.lo - 1 ≤ j ∧ j ≤ poutC.hi →
      j - ((kw / 2 : Nat) : Int) ≤ b ∧ b ≤ j + ((kw / 2 : Nat) : Int) →
      ((refWin p.Sc p.Rc).lo ≤ b ∧ b < (refWin p.Sc p.Rc).hi) → (pinC.lo ≤ b ∧ b < pinC.hi))
    (r c : Int) (hr : (roundTo p.Rr p.Sr poutR).lo ≤ r ∧ r < (roundTo p.Rr p.Sr poutR).hi)
    (hc : (roundTo p.Rc p.Sc poutC).lo ≤ c ∧ c < (roundTo p.Rc p.Sc poutC).hi) :
    (p.restrictTo pinR pinC).corrected model kh kw n0 n1 ups r c = p.corrected model kh kw n0 n1 ups r c := by
  have hparams : ∀ i j : Int, poutR.lo - 1 ≤ i ∧ i ≤ poutR.hi → poutC.lo - 1 ≤ j ∧ j ≤ poutC.hi →
      (p.restrictTo pinR pinC).params model kh kw n0 n1 i j = p.params model kh kw n0 n1 i j :=
    fun i j hi hj => restrict_params_agree p hSr hSc hRr hRc pinR pinC model kh kw n0 n1 i j
      (fun a ha => HR i a hi ha) (fun b hb => HC j b hj hb)
  obtain ⟨hnr, hbr⟩ := support_near_window p.Sr p.Rr hSr hRr poutR r hr
  obtain ⟨hnc, hbc⟩ := support_near_window p.Sc p.Rc hSc hRc poutC c hc
  have hrin := round_subset_expand p.Rr p.Sr hRr hSr pinR poutR hsubR r hr
  have hcin := round_subset_expand p.Rc p.Sc hRc hSc pinC poutC hsubC c hc
  apply corrected_congr p (p.restrictTo pinR pinC) rfl rfl rfl rfl
  · show (p.src.restrict (expandTo p.Rr p.Sr pinR) (expandTo p.Rc p.Sc pinC)) r c = p.src r c
    unfold ImgO.restrict
    rw [if_pos ⟨hrin.1, hrin.2, hcin.1, hcin.2⟩]
  · apply resample2_congr ups hups _ _ _ _ _ _ r c (poutR.lo - 1) poutR.hi (poutC.lo - 1) poutC.hi
      ⟨by omega, hnr.2⟩ ⟨by omega, hnc.2⟩ hbr hbc
    intro a b ha hb
    unfold ImagePair.gainImg
    rw [hparams a b ha hb]
  · apply resample2_congr ups hups _ _ _ _ _ _ r c (poutR.lo - 1) poutR.hi (poutC.lo - 1) poutC.hi
      ⟨by omega, hnr.2⟩ ⟨by omega, hnc.2⟩ hbr hbc
    intro a b ha hb
    unfold ImagePair.offsetImg
    rw [hparams a b ha hb]

end Homonim
