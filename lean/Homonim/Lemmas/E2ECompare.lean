/-
  Helper lemmas for E2ECompare (partition invariance of the comparison sums):
    * index lists of windows: membership, emptiness, concatenation of adjacent windows;
    * `gridSums f wr wc` = `blockSums` of a row-major filtered grid of points: zero on an empty window and additive
      over a split of the row window and over a split of the column window (the latter needs commutativity);
    * accumulation: `accumulate` of an append / of a `flatMap` over `range`; accumulation of a window-additive function
      over the output windows of the blocks of one axis gives its value on the whole processing window;
    * a block of a zero-overlap run computes the points of its output window exactly as the whole-image pair does.
-/
import Homonim.Model.CompareImage
import Homonim.Lemmas.E2E
import Homonim.Lemmas.Geom
import Homonim.Props.C06
import Homonim.Props.C11
import Mathlib.Tactic.Ring
import Mathlib.Tactic.Linarith
import Mathlib.Data.List.Basic

namespace Homonim

/-! ### index lists -/

theorem mem_indices (w : Win1) (x : Int) (h : x ∈ w.indices) : w.lo ≤ x ∧ x < w.hi := by
  unfold Win1.indices at h
  simp only [List.mem_map, List.mem_range] at h
  obtain ⟨k, hk, rfl⟩ := h
  omega

theorem indices_empty (w : Win1) (h : w.hi ≤ w.lo) : w.indices = [] := by
  unfold Win1.indices
  have : (w.hi - w.lo).toNat = 0 := by omega
  rw [this]; rfl

/-- the index list of `[a, c)` is that of `[a, b)` followed by that of `[b, c)` -/
theorem indices_append (a b c : Int) (hab : a ≤ b) (hbc : b ≤ c) :
    (Win1.mk a c).indices = (Win1.mk a b).indices ++ (Win1.mk b c).indices := by
  unfold Win1.indices
  simp only
  have : (c - a).toNat = (b - a).toNat + (c - b).toNat := by omega
  rw [this, List.range_add, List.map_append, List.map_map]
  congr 1
  apply List.map_congr_left
  intro k _
  simp only [Function.comp]
  omega

/-! ### the commutative monoid of sums -/

theorem CSums.add_add_add_comm' (a b c d : CSums) : (a.add b).add (c.add d) = (a.add c).add (b.add d) := by
  unfold CSums.add; simp only [CSums.mk.injEq]; refine ⟨?_, ?_, ?_, ?_, ?_, ?_, ?_⟩ <;> ring

theorem blockSums_nil : blockSums [] = CSums.zero := rfl

theorem accumulate_nil : accumulate [] = CSums.zero := rfl

theorem foldl_add_init' (l : List CSums) (init : CSums) : l.foldl CSums.add init = init.add (accumulate l) := by
  unfold accumulate
  induction l generalizing init with
  | nil => simp [CSums.add_zero']
  | cons x xs ih =>
    simp only [List.foldl_cons]
    rw [ih (init.add x), ih (CSums.zero.add x), CSums.zero_add', CSums.add_assoc']

theorem accumulate_append (a b : List CSums) : accumulate (a ++ b) = (accumulate a).add (accumulate b) := by
  show (a ++ b).foldl CSums.add CSums.zero = _
  rw [List.foldl_append, foldl_add_init']
  rfl

theorem accumulate_singleton (x : CSums) : accumulate [x] = x := by
  show CSums.zero.add x = x
  exact CSums.zero_add' x

/-- accumulating a row-major list of lists = accumulating the accumulated rows -/
theorem accumulate_flatMap_range (K : Nat) (h : Nat → List CSums) :
    accumulate ((List.range K).flatMap h) = accumulate ((List.range K).map fun k => accumulate (h k)) := by
  induction K with
  | zero => rfl
  | succ K ih =>
    rw [List.range_succ, List.flatMap_append, List.map_append, accumulate_append, accumulate_append, ih]
    simp only [List.flatMap_cons, List.flatMap_nil, List.append_nil, List.map_cons, List.map_nil,
      accumulate_singleton]

/-! ### sums over a filtered grid of points -/

/-- row-major list of the points `f i j` that exist, over a window of rows and a window of columns -/
def gridPts (f : Int → Int → Option (Rat × Rat)) (wr wc : Win1) : List (Rat × Rat) :=
  wr.indices.flatMap fun i => wc.indices.filterMap (f i)

def gridSums (f : Int → Int → Option (Rat × Rat)) (wr wc : Win1) : CSums := blockSums (gridPts f wr wc)

theorem gridSums_empty_rows (f : Int → Int → Option (Rat × Rat)) (wr wc : Win1) (h : wr.hi ≤ wr.lo) :
    gridSums f wr wc = CSums.zero := by
  unfold gridSums gridPts
  rw [indices_empty wr h]
  rfl

theorem gridSums_empty_cols (f : Int → Int → Option (Rat × Rat)) (wr wc : Win1) (h : wc.hi ≤ wc.lo) :
    gridSums f wr wc = CSums.zero := by
  unfold gridSums gridPts
  rw [indices_empty wc h]
  have : (List.flatMap (fun i => List.filterMap (f i) ([] : List Int)) wr.indices) = [] := by simp
  rw [this]
  rfl

theorem gridSums_rows_add (f : Int → Int → Option (Rat × Rat)) (wc : Win1) (a b c : Int) (hab : a ≤ b)
    (hbc : b ≤ c) : gridSums f ⟨a, c⟩ wc = (gridSums f ⟨a, b⟩ wc).add (gridSums f ⟨b, c⟩ wc) := by
  unfold gridSums gridPts
  rw [indices_append a b c hab hbc, List.flatMap_append, blockSums_append]

/-- splitting the columns of every row: the sums reorder (commutativity) -/
theorem rowsSums_cols_append (f : Int → Int → Option (Rat × Rat)) (rows l1 l2 : List Int) :
    blockSums (rows.flatMap fun i => (l1 ++ l2).filterMap (f i)) =
      (blockSums (rows.flatMap fun i => l1.filterMap (f i))).add
        (blockSums (rows.flatMap fun i => l2.filterMap (f i))) := by
  induction rows with
  | nil => simp only [List.flatMap_nil, blockSums_nil, CSums.add_zero']
  | cons i rest ih =>
    simp only [List.flatMap_cons, blockSums_append]
    rw [ih, List.filterMap_append, blockSums_append, CSums.add_add_add_comm']

theorem gridSums_cols_add (f : Int → Int → Option (Rat × Rat)) (wr : Win1) (a b c : Int) (hab : a ≤ b)
    (hbc : b ≤ c) : gridSums f wr ⟨a, c⟩ = (gridSums f wr ⟨a, b⟩).add (gridSums f wr ⟨b, c⟩) := by
  unfold gridSums gridPts
  rw [indices_append a b c hab hbc]
  exact rowsSums_cols_append f wr.indices _ _

/-! ### accumulation over the tiles of one axis -/

/-- a window-additive function accumulated over the windows of a monotone boundary sequence -/
theorem acc_tiles_mono (H : Win1 → CSums) (hz : ∀ w : Win1, w.hi ≤ w.lo → H w = CSums.zero)
    (hadd : ∀ a b c : Int, a ≤ b → b ≤ c → H ⟨a, c⟩ = (H ⟨a, b⟩).add (H ⟨b, c⟩))
    (g : Nat → Int) (hg : ∀ k, g k ≤ g (k + 1)) (K : Nat) :
    accumulate ((List.range K).map fun k => H ⟨g k, g (k + 1)⟩) = H ⟨g 0, g K⟩ := by
  induction K with
  | zero => rw [hz ⟨g 0, g 0⟩ (le_refl _)]; rfl
  | succ K ih =>
    rw [List.range_succ, List.map_append, accumulate_append, ih]
    simp only [List.map_cons, List.map_nil, accumulate_singleton]
    rw [hadd (g 0) (g K) (g (K + 1)) (mono_le g hg 0 K (Nat.zero_le K)) (hg K)]

/-- a window-additive function accumulated over the output windows of the blocks of `[A, B)` (zero overlap) gives its
    value on `[A, B)` - also when the window is empty or `B < A` (then there is no block) -/
theorem acc_tiles (H : Win1 → CSums) (hz : ∀ w : Win1, w.hi ≤ w.lo → H w = CSums.zero)
    (hadd : ∀ a b c : Int, a ≤ b → b ≤ c → H ⟨a, c⟩ = (H ⟨a, b⟩).add (H ⟨b, c⟩))
    (A B s : Int) (hs : 0 < s) :
    accumulate ((List.range (nBlocks A B s)).map fun k => H (procOut A B s 0 k)) = H ⟨A, B⟩ := by
  by_cases hAB : B ≤ A
  · have hc : cdiv (B - A) s ≤ 0 := cdiv_le_of_le_mul _ _ _ hs (by omega)
    have hn : nBlocks A B s = 0 := by unfold nBlocks; omega
    rw [hn, hz ⟨A, B⟩ hAB]
    rfl
  · have hAB' : A < B := by omega
    have h1 := cdiv_mul_ge (B - A) s hs
    have h2 := cdiv_mul_lt (B - A) s hs
    have hc0 : 0 ≤ cdiv (B - A) s := by
      by_contra hneg
      have : cdiv (B - A) s * s ≤ (-1) * s := Int.mul_le_mul_of_nonneg_right (by omega) (le_of_lt hs)
      omega
    have hN : ((nBlocks A B s : Nat) : Int) = cdiv (B - A) s := by unfold nBlocks; omega
    let g : Nat → Int := fun k => min (A + (k : Int) * s) B
    have hg : ∀ k, g k ≤ g (k + 1) := by
      intro k
      show min (A + (k : Int) * s) B ≤ min (A + ((k + 1 : Nat) : Int) * s) B
      have : ((k + 1 : Nat) : Int) * s = (k : Int) * s + s := by push_cast; ring
      omega
    have hmap : ((List.range (nBlocks A B s)).map fun k => H (procOut A B s 0 k)) =
        ((List.range (nBlocks A B s)).map fun k => H ⟨g k, g (k + 1)⟩) := by
      apply List.map_congr_left
      intro k hk
      rw [List.mem_range] at hk
      rw [procOut_eq A B s 0 (le_of_lt hs) (le_refl _)]
      have hk' : (k : Int) + 1 ≤ cdiv (B - A) s := by omega
      have : (k : Int) * s ≤ (cdiv (B - A) s - 1) * s :=
        Int.mul_le_mul_of_nonneg_right (by omega) (le_of_lt hs)
      have e1 : A + (k : Int) * s = g k := by
        show A + (k : Int) * s = min (A + (k : Int) * s) B
        omega
      have e2 : min (A + ((k : Int) + 1) * s) B = g (k + 1) := by
        show min (A + ((k : Int) + 1) * s) B = min (A + ((k + 1 : Nat) : Int) * s) B
        push_cast; rfl
      rw [e1, e2]
    rw [hmap, acc_tiles_mono H hz hadd g hg]
    have g0 : g 0 = A := by
      show min (A + ((0 : Nat) : Int) * s) B = A
      simp only [Int.natCast_zero, Int.zero_mul]
      omega
    have gN : g (nBlocks A B s) = B := by
      show min (A + ((nBlocks A B s : Nat) : Int) * s) B = B
      rw [hN]; omega
    rw [g0, gN]

/-! ### what one block computes -/

/-- the comparison points are a filtered grid -/
theorem cmpPts_eq_grid (p : ImagePair) :
    ∃ f : Int → Int → Option (Rat × Rat), ∀ wr wc, p.cmpPts wr wc = gridPts f wr wc :=
  ⟨_, fun _ _ => rfl⟩

/-- over a window of reference pixels inside the block's reference window, the pair as the block sees it (source read
    through the expanded window) has the same jointly valid points as the whole pair -/
theorem restrict_cmpPts (p : ImagePair) (hSr : 0 < p.Sr.p) (hSc : 0 < p.Sc.p) (hRr : 0 < p.Rr.p)
    (hRc : 0 < p.Rc.p) (pinR pinC wr wc : Win1) (hr : pinR.lo ≤ wr.lo ∧ wr.hi ≤ pinR.hi)
    (hc : pinC.lo ≤ wc.lo ∧ wc.hi ≤ pinC.hi) :
    (p.restrictTo pinR pinC).cmpPts wr wc = p.cmpPts wr wc := by
  unfold ImagePair.cmpPts
  apply List.flatMap_congr
  intro i hi
  apply List.filterMap_congr
  intro j hj
  have hi' := mem_indices wr i hi
  have hj' := mem_indices wc j hj
  have hin : (pinR.lo ≤ i ∧ i < pinR.hi) ∧ (pinC.lo ≤ j ∧ j < pinC.hi) := ⟨by omega, by omega⟩
  obtain ⟨h1, _⟩ := restrict_point_agree p hSr hSc hRr hRc pinR pinC i j (fun _ _ => hin)
  have h2 : (p.restrictTo pinR pinC).ref i j = p.ref i j := by
    show (p.ref.restrict pinR pinC) i j = p.ref i j
    unfold ImgO.restrict
    rw [if_pos ⟨hin.1.1, hin.1.2, hin.2.1, hin.2.2⟩]
  rw [h1, h2]

/-- with zero overlap the input window of a block is its output window -/
theorem procIn_zero (A B s : Int) (k : Nat) : procIn A B s 0 k = procOut A B s 0 k := by
  unfold procIn procOut
  simp only [Win1.mk.injEq]
  constructor <;> omega

/-- the sums of block `(kr, kc)` are the sums of the whole pair's points over the block's output windows -/
theorem cmpSumsBlock_eq (p : ImagePair) (hSr : 0 < p.Sr.p) (hSc : 0 < p.Sc.p) (hRr : 0 < p.Rr.p)
    (hRc : 0 < p.Rc.p) (sr sc : Int) (kr kc : Nat) :
    p.cmpSumsBlock sr sc kr kc =
      blockSums (p.cmpPts (procOut (refWin p.Sr p.Rr).lo (refWin p.Sr p.Rr).hi sr 0 kr)
        (procOut (refWin p.Sc p.Rc).lo (refWin p.Sc p.Rc).hi sc 0 kc)) := by
  show blockSums ((p.restrictTo (procIn (refWin p.Sr p.Rr).lo (refWin p.Sr p.Rr).hi sr 0 kr)
      (procIn (refWin p.Sc p.Rc).lo (refWin p.Sc p.Rc).hi sc 0 kc)).cmpPts
      (procOut (refWin p.Sr p.Rr).lo (refWin p.Sr p.Rr).hi sr 0 kr)
      (procOut (refWin p.Sc p.Rc).lo (refWin p.Sc p.Rc).hi sc 0 kc)) = _
  rw [procIn_zero, procIn_zero]
  rw [restrict_cmpPts p hSr hSc hRr hRc _ _ _ _ ⟨le_refl _, le_refl _⟩ ⟨le_refl _, le_refl _⟩]

end Homonim
