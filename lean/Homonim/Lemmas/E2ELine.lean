/-
  Helper lemmas for E2ELine (whole-image versions of C02 and C07):
    * a normalised mean that exists has non-cancelling weights, so a mean of a constant is that constant; hence
      nearest / bilinear up-sampling of an image whose valid pixels all carry `k` gives `k` wherever it is valid;
    * the window points of the whole-image block lie on the line the two images satisfy, so the fitted parameters
      (gain: ratio of sums; gain-offset: OLS) are exactly `(a, 0)` / `(a, b)` wherever the fit exists;
    * scaling: `avg2`, `resample2`, the whole-image block, its parameters and the gain / offset images are homogeneous.
-/
import Homonim.Lemmas.E2EMask
import Homonim.Props.C02
import Homonim.Props.C07

namespace Homonim

/-- scaling an image by a constant (invalid stays invalid) -/
def ImgO.scale (k : Rat) (img : ImgO) : ImgO := fun i j => (img i j).map (k * ·)

/-! ### normalised means of a constant -/

/-- a normalised mean that exists has weights that do not cancel -/
theorem wmean_some_weights_ne (l : List (ℚ × ℚ)) (v : ℚ) (h : wmean l = some v) : (l.map fun p => p.1).sum ≠ 0 := by
  intro h0
  unfold wmean divO at h
  simp [h0] at h

/-- a normalised mean of a constant, if it exists, is that constant -/
theorem wmean_const_of_some (k : ℚ) (l : List (ℚ × ℚ)) (hk : ∀ p ∈ l, p.2 = k) (v : ℚ) (h : wmean l = some v) :
    v = k := by
  have h2 := resample_const k l hk (wmean_some_weights_ne l v h)
  rw [h] at h2
  exact Option.some.inj h2

/-- nearest / bilinear up-sampling of an image whose valid pixels all carry `k` gives `k` wherever it is valid -/
theorem resample2_const (ups : Resampling) (hups : ups ≠ .average) (Sr Sc Dr Dc : Axis) (img : ImgO) (k : ℚ)
    (hk : ∀ i j v, img i j = some v → v = k) (jr jc : Int) (g : ℚ)
    (h : resample2 ups Sr Sc Dr Dc img jr jc = some g) : g = k := by
  cases ups with
  | average => exact absurd rfl hups
  | nearest => exact hk _ _ _ h
  | bilinear =>
    change bilinear2 Sr Sc Dr Dc img jr jc = some g at h
    unfold bilinear2 at h
    split at h
    · cases h
    · change wmean (supp2 (bilinWeights1 Sr Dr jr) (bilinWeights1 Sc Dc jc) img) = some g at h
      apply wmean_const_of_some k _ _ g h
      intro q hq
      obtain ⟨iw, _, kv, _, x, hx, rfl⟩ := (mem_supp2 _ _ _ _).mp hq
      exact hk _ _ _ hx

/-! ### the whole-image block on a line -/

/-- the jointly valid points of every window of the whole-image block lie on the line the two images satisfy -/
theorem block_winPts_onLine (p : ImagePair) (a b : ℚ)
    (hline : ∀ i j x y, p.srcDs i j = some x → p.ref i j = some y → y = a * x + b) (kh kw r c : Nat) :
    OnLine a b (p.block.winPts kh kw r c) := by
  intro q hq
  unfold Block.winPts at hq
  simp only [List.mem_map, List.mem_filter] at hq
  obtain ⟨ab, ⟨_, hmab⟩, rfl⟩ := hq
  unfold Block.m ImagePair.block at hmab
  simp only [Bool.and_eq_true] at hmab
  obtain ⟨x, hx⟩ := Option.isSome_iff_exists.mp hmab.1
  obtain ⟨y, hy⟩ := Option.isSome_iff_exists.mp hmab.2
  show (p.ref (ab.1 : Int) (ab.2 : Int)).getD 0 = a * (p.srcDs (ab.1 : Int) (ab.2 : Int)).getD 0 + b
  rw [hx, hy]
  exact hline _ _ x y hx hy

/-- gain model: wherever the fit exists it is exactly `(a, 0)` -/
theorem params_gain_line (p : ImagePair) (a : ℚ)
    (hline : ∀ i j x y, p.srcDs i j = some x → p.ref i j = some y → y = a * x)
    (kh kw : Nat) (n0 n1 : ℚ) (i j : Int) (prm : Params) (h : p.params .gain kh kw n0 n1 i j = some prm) :
    prm.gain = a ∧ prm.offset = 0 := by
  unfold ImagePair.params at h
  split at h
  · unfold fitAt at h
    split at h
    · simp only at h
      rw [sums_eq_ptsSums] at h
      obtain ⟨hS, hg, ho⟩ := fitGainS_some _ _ _ h
      refine ⟨?_, ho⟩
      rw [hg]
      apply fit_recovers_line_gain a _ _ hS
      apply block_winPts_onLine p a 0
      intro i j x y hx hy
      rw [hline i j x y hx hy]; ring
    · cases h
  · cases h

/-- gain-offset model (no in-painting): wherever the fit exists it is exactly `(a, b)` -/
theorem params_gainOffset_line (p : ImagePair) (a b : ℚ)
    (hline : ∀ i j x y, p.srcDs i j = some x → p.ref i j = some y → y = a * x + b)
    (kh kw : Nat) (n0 n1 : ℚ) (i j : Int) (prm : Params) (h : p.params .gainOffset kh kw n0 n1 i j = some prm) :
    prm.gain = a ∧ prm.offset = b := by
  unfold ImagePair.params at h
  split at h
  · unfold fitAt at h
    split at h
    · simp only at h
      rw [sums_eq_ptsSums] at h
      unfold fitGainOffsetS at h
      simp only at h
      cases ho : ols (ptsSums (p.block.winPts kh kw i.toNat j.toNat)) with
      | none => simp [ho] at h
      | some go =>
        obtain ⟨g, o⟩ := go
        obtain ⟨hN, hD, hg, ho2⟩ := ols_some _ g o ho
        simp only [ho, Option.map_some, Option.some.injEq] at h
        subst h
        have hl := block_winPts_onLine p a b hline kh kw i.toNat j.toNat
        obtain ⟨e1, e2⟩ := fit_recovers_line_gain_offset a b _ hl hN hD
        have hga : g = a := by rw [hg]; exact e1
        refine ⟨hga, ?_⟩
        show o = b
        rw [ho2, hga, ← e2]
        unfold olsO
        rw [e1]
        rfl
    · cases h
  · cases h

/-- **constant parameters give the line**: if every existing parameter pair is `(a, b)`, every valid corrected pixel is
    `a·x + b` for its own source value -/
theorem corrected_of_const_params (p : ImagePair) (model : Model) (kh kw : Nat) (n0 n1 : ℚ) (ups : Resampling)
    (hups : ups ≠ .average) (a b : ℚ)
    (hp : ∀ i j prm, p.params model kh kw n0 n1 i j = some prm → prm.gain = a ∧ prm.offset = b)
    (r c : Int) (x v : ℚ) (hx : p.src r c = some x) (hv : p.corrected model kh kw n0 n1 ups r c = some v) :
    v = a * x + b := by
  unfold ImagePair.corrected at hv
  rw [hx] at hv
  simp only at hv
  split at hv
  · rename_i g o hg ho
    have hga : g = a := by
      apply resample2_const ups hups _ _ _ _ _ a _ _ _ g hg
      intro i j w hw
      unfold ImagePair.gainImg at hw
      obtain ⟨prm, hprm, rfl⟩ := Option.map_eq_some_iff.mp hw
      exact (hp i j prm hprm).1
    have hob : o = b := by
      apply resample2_const ups hups _ _ _ _ _ b _ _ _ o ho
      intro i j w hw
      unfold ImagePair.offsetImg at hw
      obtain ⟨prm, hprm, rfl⟩ := Option.map_eq_some_iff.mp hw
      exact (hp i j prm hprm).2
    rw [← Option.some.inj hv, hga, hob]
  · cases hv

/-! ### scaling -/

theorem supp2_scale (wr wc : List (Int × Int)) (img : ImgO) (k : ℚ) :
    supp2 wr wc (img.scale k) = (supp2 wr wc img).map fun q => (q.1, k * q.2) := by
  unfold supp2 ImgO.scale
  rw [List.map_flatMap]
  congr 1; funext iw
  rw [List.map_filterMap]
  congr 1; funext kv
  cases img iw.1 kv.1 <;> rfl

/-- `average` is homogeneous, with the same validity -/
theorem avg2_scale (Sr Sc Dr Dc : Axis) (img : ImgO) (k : ℚ) (a b : Int) :
    avg2 Sr Sc Dr Dc (img.scale k) a b = (avg2 Sr Sc Dr Dc img a b).map (k * ·) := by
  rw [avg2_eq_supp2, avg2_eq_supp2, supp2_scale, resample_linear]

/-- every resampling method is homogeneous, with the same validity -/
theorem resample2_scale (m : Resampling) (Sr Sc Dr Dc : Axis) (img : ImgO) (k : ℚ) (a b : Int) :
    resample2 m Sr Sc Dr Dc (img.scale k) a b = (resample2 m Sr Sc Dr Dc img a b).map (k * ·) := by
  cases m with
  | average => exact avg2_scale Sr Sc Dr Dc img k a b
  | nearest => rfl
  | bilinear =>
    show bilinear2 Sr Sc Dr Dc (img.scale k) a b = (bilinear2 Sr Sc Dr Dc img a b).map (k * ·)
    unfold bilinear2 nearest2
    cases hn : img (nearestIdx Sr Dr a) (nearestIdx Sc Dc b) with
    | none => simp [ImgO.scale, hn]
    | some y =>
      have hn' : (img.scale k) (nearestIdx Sr Dr a) (nearestIdx Sc Dc b) = some (k * y) := by
        simp [ImgO.scale, hn]
      simp only [hn']
      exact (congrArg wmean (supp2_scale _ _ img k)).trans (resample_linear k _)

/-- the pair with its source scaled by `s` and its reference by `t` -/
def ImagePair.scale (p : ImagePair) (s t : ℚ) : ImagePair := { p with src := p.src.scale s, ref := p.ref.scale t }

theorem srcDs_scale (p : ImagePair) (s t : ℚ) : (p.scale s t).srcDs = p.srcDs.scale s := by
  funext i j
  exact avg2_scale p.Sr p.Sc p.Rr p.Rc p.src s i j

theorem getD_map_mul (k : ℚ) (o : Option ℚ) : (o.map (k * ·)).getD 0 = k * o.getD 0 := by
  cases o <;> simp

theorem block_scale (p : ImagePair) (s t : ℚ) : (p.scale s t).block = p.block.scale s t := by
  unfold ImagePair.block
  rw [srcDs_scale]
  unfold Block.scale ImagePair.scale ImgO.scale
  simp only [Block.mk.injEq, true_and]
  refine ⟨?_, ?_, ?_, ?_⟩
  · funext i j; exact getD_map_mul s _
  · funext i j; exact getD_map_mul t _
  · funext i j; simp
  · funext i j; simp

/-- the gain and gain-offset models do not look at the block normalisation -/
theorem fitAt_norm_irrelevant (b : Block) (model : Model) (hm : model ≠ .gainBlkOffset) (kh kw : Nat) (fr : Bool)
    (th : Option ℚ) (n0 n1 n0' n1' : ℚ) (oF : Nat → Nat → Option ℚ) (r c : Nat) :
    fitAt b model kh kw fr th n0 n1 oF r c = fitAt b model kh kw fr th n0' n1' oF r c := by
  cases model with
  | gainBlkOffset => exact absurd rfl hm
  | gain => rfl
  | gainOffset => rfl

theorem params_scale (p : ImagePair) (s t : ℚ) (hs : 0 < s) (ht : 0 < t) (model : Model) (hm : model ≠ .gainBlkOffset)
    (kh kw : Nat) (n0 n1 : ℚ) (i j : Int) :
    (p.scale s t).params model kh kw n0 n1 i j = (p.params model kh kw n0 n1 i j).map (scaleParams s t) := by
  unfold ImagePair.params
  rw [block_scale]
  show (if 0 ≤ i ∧ i < p.Rr.n ∧ 0 ≤ j ∧ j < p.Rc.n then _ else none) = _
  by_cases hin : 0 ≤ i ∧ i < p.Rr.n ∧ 0 ≤ j ∧ j < p.Rc.n
  · rw [if_pos hin, if_pos hin]
    rw [fitAt_norm_irrelevant _ model hm kh kw false none n0 n1 (n0 * (t / s)) (n1 * t)]
    exact fitAt_scale p.block s t hs ht model kh kw false none n0 n1 (fun _ _ => none) i.toNat j.toNat
  · rw [if_neg hin, if_neg hin]; rfl

theorem gainImg_scale (p : ImagePair) (s t : ℚ) (hs : 0 < s) (ht : 0 < t) (model : Model) (hm : model ≠ .gainBlkOffset)
    (kh kw : Nat) (n0 n1 : ℚ) :
    (p.scale s t).gainImg model kh kw n0 n1 = (p.gainImg model kh kw n0 n1).scale (t / s) := by
  funext i j
  unfold ImagePair.gainImg ImgO.scale
  rw [params_scale p s t hs ht model hm]
  beta_reduce
  cases p.params model kh kw n0 n1 i j <;> rfl

theorem offsetImg_scale (p : ImagePair) (s t : ℚ) (hs : 0 < s) (ht : 0 < t) (model : Model)
    (hm : model ≠ .gainBlkOffset) (kh kw : Nat) (n0 n1 : ℚ) :
    (p.scale s t).offsetImg model kh kw n0 n1 = (p.offsetImg model kh kw n0 n1).scale t := by
  funext i j
  unfold ImagePair.offsetImg ImgO.scale
  rw [params_scale p s t hs ht model hm]
  beta_reduce
  cases p.params model kh kw n0 n1 i j <;> rfl

theorem corrected_scale_pair (p : ImagePair) (s t : ℚ) (hs : 0 < s) (ht : 0 < t) (model : Model)
    (hm : model ≠ .gainBlkOffset) (kh kw : Nat) (n0 n1 : ℚ) (ups : Resampling) (r c : Int) :
    (p.scale s t).corrected model kh kw n0 n1 ups r c = (p.corrected model kh kw n0 n1 ups r c).map (t * ·) := by
  unfold ImagePair.corrected
  rw [gainImg_scale p s t hs ht model hm, offsetImg_scale p s t hs ht model hm]
  show (match (p.src r c).map (s * ·) with
    | none => none
    | some x =>
      match resample2 ups p.Rr p.Rc p.Sr p.Sc ((p.gainImg model kh kw n0 n1).scale (t / s)) r c,
            resample2 ups p.Rr p.Rc p.Sr p.Sc ((p.offsetImg model kh kw n0 n1).scale t) r c with
      | some g, some o => some (g * x + o)
      | _, _ => none) = _
  rw [resample2_scale, resample2_scale]
  cases p.src r c with
  | none => rfl
  | some x =>
    cases resample2 ups p.Rr p.Rc p.Sr p.Sc (p.gainImg model kh kw n0 n1) r c with
    | none => rfl
    | some g =>
      cases resample2 ups p.Rr p.Rc p.Sr p.Sc (p.offsetImg model kh kw n0 n1) r c with
      | none => rfl
      | some o =>
        simp only [Option.map_some, Option.some.injEq]
        have hs' := ne_of_gt hs
        field_simp

end Homonim
