/-
  Helper lemmas for E2EMask (end-to-end mask fidelity of the whole-image fusion model):
    * normalised means with non-negative weights, one of them positive, exist;
    * 1-D geometry: a source pixel overlaps (positively) the reference pixel that contains its centre; the pixel
      containing the centre carries a positive weight (at least half the total) in the bilinear support;
    * the averaged source is positive wherever it is valid, and valid where a valid source pixel overlaps;
    * the gain fit succeeds at every jointly valid pixel of the whole-image block on positive data;
    * nearest / bilinear up-sampling is valid wherever the pixel containing the centre is.
-/
import Homonim.Lemmas.E2E
import Homonim.Props.C03

namespace Homonim

/-! ### sums and normalised means -/

theorem sum_pos_of_nonneg_of_exists (l : List ℚ) (h : ∀ x ∈ l, 0 ≤ x) (hp : ∃ x ∈ l, 0 < x) : 0 < l.sum := by
  obtain ⟨x, hx, hxp⟩ := hp
  induction l with
  | nil => cases hx
  | cons y ys ih =>
    simp only [List.sum_cons]
    rcases List.mem_cons.mp hx with rfl | hmem
    · have := sum_nonneg_of_nonneg ys (fun z hz => h z (List.mem_cons_of_mem _ hz))
      linarith
    · have := ih (fun z hz => h z (List.mem_cons_of_mem _ hz)) hmem
      have := h y List.mem_cons_self
      linarith

/-- a normalised mean with non-negative weights that do not all vanish exists -/
theorem wmean_isSome_of_nonneg (l : List (ℚ × ℚ)) (hw : ∀ p ∈ l, 0 ≤ p.1) (hpos : ∃ p ∈ l, 0 < p.1) :
    (wmean l).isSome = true := by
  have hsum : 0 < (l.map fun p => p.1).sum := by
    apply sum_pos_of_nonneg_of_exists
    · intro x hx; simp only [List.mem_map] at hx; obtain ⟨p, hp, rfl⟩ := hx; exact hw p hp
    · obtain ⟨p, hp, hpp⟩ := hpos
      exact ⟨p.1, List.mem_map.mpr ⟨p, hp, rfl⟩, hpp⟩
  unfold wmean divO
  simp [ne_of_gt hsum]

/-! ### the 2-D support list shared by `avg2` and `bilinear2` -/

/-- (weight, value) pairs over the valid pixels of a separable support -/
def supp2 (wr wc : List (Int × Int)) (img : ImgO) : List (Rat × Rat) :=
  wr.flatMap fun iw => wc.filterMap fun kv => (img iw.1 kv.1).map fun x => (((iw.2 * kv.2 : Int) : Rat), x)

theorem mem_supp2 (wr wc : List (Int × Int)) (img : ImgO) (q : Rat × Rat) :
    q ∈ supp2 wr wc img ↔
      ∃ iw ∈ wr, ∃ kv ∈ wc, ∃ x, img iw.1 kv.1 = some x ∧ q = (((iw.2 * kv.2 : Int) : Rat), x) := by
  unfold supp2
  simp only [List.mem_flatMap, List.mem_filterMap, Option.map_eq_some_iff]
  constructor
  · rintro ⟨iw, hiw, kv, hkv, x, hx, rfl⟩; exact ⟨iw, hiw, kv, hkv, x, hx, rfl⟩
  · rintro ⟨iw, hiw, kv, hkv, x, hx, rfl⟩; exact ⟨iw, hiw, kv, hkv, x, hx, rfl⟩

theorem avg2_eq_supp2 (Sr Sc Dr Dc : Axis) (img : ImgO) (a b : Int) :
    avg2 Sr Sc Dr Dc img a b = wmean (supp2 (avgWeights1 Sr Dr a) (avgWeights1 Sc Dc b) img) := rfl

/-! ### 1-D geometry -/

theorem avgWeights1_weight_pos (S D : Axis) (j : Int) (iw : Int × Int) (h : iw ∈ avgWeights1 S D j) : 0 < iw.2 := by
  unfold avgWeights1 at h
  simp only [List.mem_filterMap, List.mem_range] at h
  obtain ⟨i, _, hif⟩ := h
  split at hif
  · rename_i hw
    have := Option.some.inj hif
    subst this
    exact hw
  · cases hif

/-- a source pixel inside the image overlaps, with positive length, the reference pixel containing its centre -/
theorem nearest_mem_avgWeights1 (S R : Axis) (hS : 0 < S.p) (hR : 0 < R.p) (r : Int) (hr : 0 ≤ r ∧ r < S.n) :
    ∃ w, 0 < w ∧ (r, w) ∈ avgWeights1 S R (nearestIdx R S r) := by
  have hden : 0 < 2 * R.p := by omega
  have h1 := fdiv_mul_le (2 * (S.edge r - R.o) + S.p) (2 * R.p) hden
  have h2 := fdiv_mul_gt (2 * (S.edge r - R.o) + S.p) (2 * R.p) hden
  have hw : 0 < overlap1 (S.edge r) (S.edge (r + 1)) (R.edge (nearestIdx R S r)) (R.edge (nearestIdx R S r + 1)) := by
    unfold nearestIdx overlap1
    generalize (2 * (S.edge r - R.o) + S.p) / (2 * R.p) = q at h1 h2 ⊢
    unfold Axis.edge at *
    have e1 : q * (2 * R.p) = 2 * (q * R.p) := by ring
    have e2 : (q + 1) * (2 * R.p) = 2 * (q * R.p) + 2 * R.p := by ring
    have e3 : (q + 1) * R.p = q * R.p + R.p := by ring
    have e4 : (r + 1) * S.p = r * S.p + S.p := by ring
    rw [e1] at h1; rw [e2] at h2; rw [e3, e4]
    omega
  refine ⟨_, hw, ?_⟩
  unfold avgWeights1
  simp only [List.mem_filterMap, List.mem_range]
  refine ⟨r.toNat, by omega, ?_⟩
  have hrr : ((r.toNat : Nat) : Int) = r := by omega
  rw [hrr, if_pos hw]

/-- the pixel containing the centre is in the bilinear support, with a positive weight -/
theorem nearest_mem_bilinWeights1 (S D : Axis) (hS : 0 < S.p) (j : Int) :
    ∃ w, 0 < w ∧ (nearestIdx S D j, w) ∈ bilinWeights1 S D j := by
  have hden : 0 < 2 * S.p := by omega
  -- floor bounds of the nearest index `q` and of the first support index `i0`
  have q1 := fdiv_mul_le (2 * (D.edge j - S.o) + D.p) (2 * S.p) hden
  have q2 := fdiv_mul_gt (2 * (D.edge j - S.o) + D.p) (2 * S.p) hden
  have i1 := fdiv_mul_le (2 * (D.edge j - S.o) + D.p - S.p) (2 * S.p) hden
  have i2 := fdiv_mul_gt (2 * (D.edge j - S.o) + D.p - S.p) (2 * S.p) hden
  unfold bilinWeights1 nearestIdx
  simp only
  generalize (2 * (D.edge j - S.o) + D.p) / (2 * S.p) = q at q1 q2 ⊢
  generalize (2 * (D.edge j - S.o) + D.p - S.p) / (2 * S.p) = i0 at i1 i2 ⊢
  generalize 2 * (D.edge j - S.o) + D.p = m at *
  have e1 : (q + 1) * (2 * S.p) = q * (2 * S.p) + 2 * S.p := by ring
  have e2 : (i0 + 1) * (2 * S.p) = i0 * (2 * S.p) + 2 * S.p := by ring
  rw [e1] at q2; rw [e2] at i2
  -- `i0 ≤ q ≤ i0 + 1`
  have hlo : i0 ≤ q := by
    have : i0 * (2 * S.p) < (q + 1) * (2 * S.p) := by rw [e1]; omega
    have := lt_of_mul_lt_mul_pos _ _ _ hden this
    omega
  have hhi : q < i0 + 2 := by
    apply lt_of_mul_lt_mul_pos _ _ _ hden
    have : (i0 + 2) * (2 * S.p) = i0 * (2 * S.p) + 2 * S.p + 2 * S.p := by ring
    rw [this]; omega
  rcases (by omega : q = i0 ∨ q = i0 + 1) with h | h
  · subst h
    exact ⟨_, by omega, List.mem_cons_self⟩
  · subst h
    refine ⟨_, ?_, List.mem_cons_of_mem _ List.mem_cons_self⟩
    omega

/-! ### the averaged source on positive data -/

theorem avg2_pos (Sr Sc Dr Dc : Axis) (img : ImgO) (hpos : ∀ r c x, img r c = some x → 0 < x) (a b : Int) (v : Rat)
    (h : avg2 Sr Sc Dr Dc img a b = some v) : 0 < v := by
  rw [avg2_eq_supp2] at h
  have hne : supp2 (avgWeights1 Sr Dr a) (avgWeights1 Sc Dc b) img ≠ [] := by
    intro hnil; rw [hnil, wmean_nil] at h; cases h
  apply wmean_pos _ hne _ _ v h
  · intro q hq
    obtain ⟨iw, hiw, kv, hkv, x, _, rfl⟩ := (mem_supp2 _ _ _ _).mp hq
    have h1 := avgWeights1_weight_pos _ _ _ _ hiw
    have h2 := avgWeights1_weight_pos _ _ _ _ hkv
    simp only
    exact_mod_cast Int.mul_pos h1 h2
  · intro q hq
    obtain ⟨iw, _, kv, _, x, hx, rfl⟩ := (mem_supp2 _ _ _ _).mp hq
    exact hpos _ _ _ hx

theorem avg2_isSome (Sr Sc Dr Dc : Axis) (img : ImgO) (a b : Int)
    (r c wr wc : Int) (hwr : (r, wr) ∈ avgWeights1 Sr Dr a) (hwc : (c, wc) ∈ avgWeights1 Sc Dc b) (x : Rat)
    (hx : img r c = some x) : (avg2 Sr Sc Dr Dc img a b).isSome = true := by
  rw [avg2_eq_supp2]
  apply wmean_isSome_of_pos
  · intro hnil
    have : (((wr * wc : Int) : Rat), x) ∈ supp2 (avgWeights1 Sr Dr a) (avgWeights1 Sc Dc b) img :=
      (mem_supp2 _ _ _ _).mpr ⟨(r, wr), hwr, (c, wc), hwc, x, hx, rfl⟩
    rw [hnil] at this; cases this
  · intro q hq
    obtain ⟨iw, hiw, kv, hkv, x, _, rfl⟩ := (mem_supp2 _ _ _ _).mp hq
    have h1 := avgWeights1_weight_pos _ _ _ _ hiw
    have h2 := avgWeights1_weight_pos _ _ _ _ hkv
    simp only
    exact_mod_cast Int.mul_pos h1 h2

/-! ### the fit on the whole-image block -/

/-- on positive data, the gain fit succeeds at every jointly valid pixel of the whole-image block -/
theorem params_gain_isSome (p : ImagePair) (hposS : ∀ r c x, p.src r c = some x → 0 < x)
    (kh kw : Nat) (hkh : 0 < kh) (hkw : 0 < kw) (n0 n1 : Rat) (i j : Int)
    (hi : 0 ≤ i ∧ i < p.Rr.n) (hj : 0 ≤ j ∧ j < p.Rc.n)
    (hs : (p.srcDs i j).isSome = true) (href : (p.ref i j).isSome = true) :
    (p.params .gain kh kw n0 n1 i j).isSome = true := by
  have hin : 0 ≤ i ∧ i < p.Rr.n ∧ 0 ≤ j ∧ j < p.Rc.n := ⟨hi.1, hi.2, hj.1, hj.2⟩
  have hi' : ((i.toNat : Nat) : Int) = i := by omega
  have hj' : ((j.toNat : Nat) : Int) = j := by omega
  unfold ImagePair.params
  rw [if_pos hin]
  have hm : p.block.m i.toNat j.toNat = true := by
    unfold Block.m ImagePair.block
    simp only [hi', hj', hs, href, Bool.and_self]
  have hrh : i.toNat < p.block.h := by unfold ImagePair.block; simp only; omega
  have hcw : j.toNat < p.block.w := by unfold ImagePair.block; simp only; omega
  apply gain_exists_of_pos p.block kh kw false none n0 n1 _ _ _ hm
    (winPts_ne_nil p.block kh kw _ _ hrh hcw hkh hkw hm)
  intro q hq
  unfold Block.winPts at hq
  simp only [List.mem_map, List.mem_filter] at hq
  obtain ⟨ab, ⟨_, hmab⟩, rfl⟩ := hq
  simp only
  unfold Block.m ImagePair.block at hmab
  simp only [Bool.and_eq_true] at hmab
  obtain ⟨v, hv⟩ := Option.isSome_iff_exists.mp hmab.1
  show 0 < (p.srcDs (ab.1 : Int) (ab.2 : Int)).getD 0
  rw [hv]
  exact avg2_pos p.Sr p.Sc p.Rr p.Rc p.src hposS _ _ v hv

/-! ### validity of the up-sampling -/

theorem resample2_isSome (ups : Resampling) (hups : ups ≠ .average) (Sr Sc Dr Dc : Axis) (hSr : 0 < Sr.p)
    (hSc : 0 < Sc.p) (img : ImgO) (jr jc : Int)
    (h : (img (nearestIdx Sr Dr jr) (nearestIdx Sc Dc jc)).isSome = true) :
    (resample2 ups Sr Sc Dr Dc img jr jc).isSome = true := by
  cases ups with
  | average => exact absurd rfl hups
  | nearest => exact h
  | bilinear =>
    obtain ⟨v, hv⟩ := Option.isSome_iff_exists.mp h
    obtain ⟨wr, hwrp, hwr⟩ := nearest_mem_bilinWeights1 Sr Dr hSr jr
    obtain ⟨wc, hwcp, hwc⟩ := nearest_mem_bilinWeights1 Sc Dc hSc jc
    show (bilinear2 Sr Sc Dr Dc img jr jc).isSome = true
    unfold bilinear2 nearest2
    simp only [hv]
    show (wmean (supp2 (bilinWeights1 Sr Dr jr) (bilinWeights1 Sc Dc jc) img)).isSome = true
    apply wmean_isSome_of_nonneg
    · intro q hq
      obtain ⟨iw, hiw, kv, hkv, x, _, rfl⟩ := (mem_supp2 _ _ _ _).mp hq
      have h1 := (bilinear_weights_nonneg Sr Dr hSr jr).1 iw hiw
      have h2 := (bilinear_weights_nonneg Sc Dc hSc jc).1 kv hkv
      simp only
      exact_mod_cast Int.mul_nonneg h1 h2
    · refine ⟨(((wr * wc : Int) : Rat), v), (mem_supp2 _ _ _ _).mpr ⟨(_, wr), hwr, (_, wc), hwc, v, hv, rfl⟩, ?_⟩
      simp only
      exact_mod_cast Int.mul_pos hwrp hwcp

end Homonim
