/-
  Helper lemmas for E2EPartial (block invariance of partial masking on the reference grid):
    * membership in `Win1.indices`; monotonicity of `expandTo`; `List.all` congruence on the members;
    * the coverage test `coverRef` of a reference pixel inside the block's reference window is the same for the pair as the
      block sees it (every source pixel position that meets the reference pixel lies in the expanded source window);
    * `params` is `none` wherever the pixel is not jointly valid (in particular outside `refWin`, where no source pixel
      meets the reference pixel);
    * `ImagePair.FitTotal`: the fit succeeds at every jointly valid pixel.  Under it `keepIn` of the restricted pair agrees
      with the whole pair's at every reference pixel that lies in the block's reference window whenever it lies in the
      processing window - although the *values* of the parameters differ near the edge of the window;
    * the gain model on positive data is `FitTotal` (kernel at least 1 x 1), and for an empty kernel it never fits;
    * 1-D block geometry: the eroded window of a pixel of `pout`, clipped to the processing window, lies inside `pin`.
-/
import Homonim.Model.PartialMask
import Homonim.Lemmas.E2E
import Homonim.Lemmas.E2EMask

namespace Homonim

/-! ### lists and windows -/

theorem all_congr_mem {α : Type} (l : List α) (f g : α → Bool) (h : ∀ x ∈ l, f x = g x) : l.all f = l.all g := by
  induction l with
  | nil => rfl
  | cons y ys ih =>
    simp only [List.all_cons]
    rw [h y List.mem_cons_self, ih (fun x hx => h x (List.mem_cons_of_mem _ hx))]

theorem mem_indices_iff (w : Win1) (x : Int) : x ∈ w.indices ↔ w.lo ≤ x ∧ x < w.hi := by
  unfold Win1.indices
  simp only [List.mem_map, List.mem_range]
  constructor
  · rintro ⟨k, hk, rfl⟩; omega
  · intro h; exact ⟨(x - w.lo).toNat, by omega, by omega⟩

/-- `expandTo` is monotone in the window -/
theorem expand_subset_expand (P O : Axis) (hP : 0 < P.p) (hO : 0 < O.p) (wi wo : Win1)
    (hsub : wi.lo ≤ wo.lo ∧ wo.hi ≤ wi.hi) (x : Int)
    (hx : (expandTo P O wo).lo ≤ x ∧ x < (expandTo P O wo).hi) :
    (expandTo P O wi).lo ≤ x ∧ x < (expandTo P O wi).hi := by
  unfold expandTo at *
  simp only at *
  have m1 : toOther P O wi.lo ≤ toOther P O wo.lo := by
    unfold toOther Axis.edge
    have := Int.mul_le_mul_of_nonneg_right hsub.1 (le_of_lt hP)
    omega
  have m2 : toOther P O wo.hi ≤ toOther P O wi.hi := by
    unfold toOther Axis.edge
    have := Int.mul_le_mul_of_nonneg_right hsub.2 (le_of_lt hP)
    omega
  constructor
  · have := Int.ediv_le_ediv hO m1
    omega
  · have := cdiv_mono _ _ O.p hO m2
    omega

/-! ### the coverage test -/

/-- inside the block's reference window the coverage test sees the source unrestricted -/
theorem coverRef_restrict (p : ImagePair) (hSr : 0 < p.Sr.p) (hSc : 0 < p.Sc.p) (hRr : 0 < p.Rr.p)
    (hRc : 0 < p.Rc.p) (pinR pinC : Win1) (a b : Int) (ha : pinR.lo ≤ a ∧ a < pinR.hi)
    (hb : pinC.lo ≤ b ∧ b < pinC.hi) :
    (p.restrictTo pinR pinC).coverRef a b = p.coverRef a b := by
  show ((srcUnder p.Sr p.Rr a).indices.all fun x => (srcUnder p.Sc p.Rc b).indices.all fun y =>
      ((p.src.restrict (expandTo p.Rr p.Sr pinR) (expandTo p.Rc p.Sc pinC)) x y).isSome) =
    ((srcUnder p.Sr p.Rr a).indices.all fun x => (srcUnder p.Sc p.Rc b).indices.all fun y => (p.src x y).isSome)
  apply all_congr_mem
  intro x hx
  apply all_congr_mem
  intro y hy
  rw [mem_indices_iff] at hx hy
  have hx' := expand_subset_expand p.Rr p.Sr hRr hSr pinR ⟨a, a + 1⟩ (by simp only; omega) x hx
  have hy' := expand_subset_expand p.Rc p.Sc hRc hSc pinC ⟨b, b + 1⟩ (by simp only; omega) y hy
  unfold ImgO.restrict
  rw [if_pos ⟨hx'.1, hx'.2, hy'.1, hy'.2⟩]

/-! ### where the fit cannot succeed -/

/-- parameters exist only at jointly valid pixels of the reference image -/
theorem params_isSome_imp (q : ImagePair) (model : Model) (kh kw : Nat) (n0 n1 : Rat) (i j : Int)
    (h : (q.params model kh kw n0 n1 i j).isSome = true) :
    (0 ≤ i ∧ i < q.Rr.n ∧ 0 ≤ j ∧ j < q.Rc.n) ∧ (q.srcDs i j).isSome = true ∧ (q.ref i j).isSome = true := by
  unfold ImagePair.params at h
  by_cases hin : 0 ≤ i ∧ i < q.Rr.n ∧ 0 ≤ j ∧ j < q.Rc.n
  · rw [if_pos hin] at h
    refine ⟨hin, ?_⟩
    have hi' : ((i.toNat : Nat) : Int) = i := by omega
    have hj' : ((j.toNat : Nat) : Int) = j := by omega
    unfold fitAt at h
    by_cases hm : q.block.m i.toNat j.toNat = true
    · unfold Block.m ImagePair.block at hm
      simp only [hi', hj', Bool.and_eq_true] at hm
      exact hm
    · simp [hm] at h
  · rw [if_neg hin] at h
    cases h

theorem params_none_of_srcDs_none (q : ImagePair) (model : Model) (kh kw : Nat) (n0 n1 : Rat) (i j : Int)
    (h : q.srcDs i j = none) : q.params model kh kw n0 n1 i j = none := by
  cases hp : q.params model kh kw n0 n1 i j with
  | none => rfl
  | some v =>
    have := (params_isSome_imp q model kh kw n0 n1 i j (by rw [hp]; rfl)).2.1
    rw [h] at this
    cases this

/-- the averaged source is invalid outside `refWin` -/
theorem srcDs_none_outside (p : ImagePair) (hSr : 0 < p.Sr.p) (hSc : 0 < p.Sc.p) (hRr : 0 < p.Rr.p)
    (hRc : 0 < p.Rc.p) (a b : Int)
    (h : ¬ (((refWin p.Sr p.Rr).lo ≤ a ∧ a < (refWin p.Sr p.Rr).hi) ∧
      ((refWin p.Sc p.Rc).lo ≤ b ∧ b < (refWin p.Sc p.Rc).hi))) : p.srcDs a b = none := by
  by_cases ha : (refWin p.Sr p.Rr).lo ≤ a ∧ a < (refWin p.Sr p.Rr).hi
  · have hb : ¬ ((refWin p.Sc p.Rc).lo ≤ b ∧ b < (refWin p.Sc p.Rc).hi) := fun hb => h ⟨ha, hb⟩
    exact avg2_outside_cols _ _ _ _ _ a b (avgWeights1_outside p.Sc p.Rc hSc hRc b hb)
  · exact avg2_outside_rows _ _ _ _ _ a b (avgWeights1_outside p.Sr p.Rr hSr hRr a ha)

/-! ### the un-eroded mask -/

/-- the fit succeeds at every jointly valid pixel of the reference image (no division by zero) -/
def ImagePair.FitTotal (q : ImagePair) (model : Model) (kh kw : Nat) (n0 n1 : Rat) : Prop :=
  ∀ i j : Int, 0 ≤ i ∧ i < q.Rr.n → 0 ≤ j ∧ j < q.Rc.n → (q.srcDs i j).isSome = true → (q.ref i j).isSome = true →
    (q.params model kh kw n0 n1 i j).isSome = true

/-- `keepIn` agrees at every reference pixel that is inside the block's reference window whenever it is inside the
    processing window, provided the fit is total for the pair and for the pair as the block sees it -/
theorem keepIn_restrict (p : ImagePair) (hSr : 0 < p.Sr.p) (hSc : 0 < p.Sc.p) (hRr : 0 < p.Rr.p)
    (hRc : 0 < p.Rc.p) (pinR pinC : Win1) (model : Model) (kh kw : Nat) (n0 n1 : Rat)
    (hfp : p.FitTotal model kh kw n0 n1) (hfq : (p.restrictTo pinR pinC).FitTotal model kh kw n0 n1) (a b : Int)
    (hR : ((refWin p.Sr p.Rr).lo ≤ a ∧ a < (refWin p.Sr p.Rr).hi) → (pinR.lo ≤ a ∧ a < pinR.hi))
    (hC : ((refWin p.Sc p.Rc).lo ≤ b ∧ b < (refWin p.Sc p.Rc).hi) → (pinC.lo ≤ b ∧ b < pinC.hi)) :
    (p.restrictTo pinR pinC).keepIn model kh kw n0 n1 a b = p.keepIn model kh kw n0 n1 a b := by
  have hs := (restrict_point_agree p hSr hSc hRr hRc pinR pinC a b (fun ra rb => ⟨hR ra, hC rb⟩)).1
  by_cases hab : ((refWin p.Sr p.Rr).lo ≤ a ∧ a < (refWin p.Sr p.Rr).hi) ∧
      ((refWin p.Sc p.Rc).lo ≤ b ∧ b < (refWin p.Sc p.Rc).hi)
  · have hpa := hR hab.1
    have hpb := hC hab.2
    have hcov := coverRef_restrict p hSr hSc hRr hRc pinR pinC a b hpa hpb
    have href : (p.restrictTo pinR pinC).ref a b = p.ref a b := by
      show (p.ref.restrict pinR pinC) a b = p.ref a b
      unfold ImgO.restrict
      rw [if_pos ⟨hpa.1, hpa.2, hpb.1, hpb.2⟩]
    have hpar : ((p.restrictTo pinR pinC).params model kh kw n0 n1 a b).isSome =
        (p.params model kh kw n0 n1 a b).isSome := by
      apply Bool.eq_iff_iff.mpr
      constructor
      · intro h
        obtain ⟨hin, h1, h2⟩ := params_isSome_imp _ model kh kw n0 n1 a b h
        rw [hs] at h1; rw [href] at h2
        exact hfp a b ⟨hin.1, hin.2.1⟩ ⟨hin.2.2.1, hin.2.2.2⟩ h1 h2
      · intro h
        obtain ⟨hin, h1, h2⟩ := params_isSome_imp _ model kh kw n0 n1 a b h
        rw [← hs] at h1; rw [← href] at h2
        exact hfq a b ⟨hin.1, hin.2.1⟩ ⟨hin.2.2.1, hin.2.2.2⟩ h1 h2
    unfold ImagePair.keepIn
    rw [hcov, hpar]
  · have h1 : p.srcDs a b = none := srcDs_none_outside p hSr hSc hRr hRc a b hab
    have h2 : (p.restrictTo pinR pinC).srcDs a b = none := by rw [hs]; exact h1
    unfold ImagePair.keepIn
    rw [params_none_of_srcDs_none p model kh kw n0 n1 a b h1,
      params_none_of_srcDs_none _ model kh kw n0 n1 a b h2]
    simp

/-! ### the eroded mask -/

/-- the eroded mask reads the un-eroded one only within `k/2 + 1` of the pixel -/
theorem keepEroded_congr (p q : ImagePair) (model : Model) (kh kw : Nat) (n0 n1 : Rat) (i j : Int)
    (h : ∀ a b : Int, i - (((kh / 2 : Nat) : Int) + 1) ≤ a ∧ a ≤ i + (((kh / 2 : Nat) : Int) + 1) →
      j - (((kw / 2 : Nat) : Int) + 1) ≤ b ∧ b ≤ j + (((kw / 2 : Nat) : Int) + 1) →
      q.keepIn model kh kw n0 n1 a b = p.keepIn model kh kw n0 n1 a b) :
    q.keepEroded model kh kw n0 n1 i j = p.keepEroded model kh kw n0 n1 i j := by
  unfold ImagePair.keepEroded
  apply all_congr_mem
  intro di hdi
  apply all_congr_mem
  intro dj hdj
  rw [List.mem_range] at hdi hdj
  exact h _ _ (by omega) (by omega)

theorem keepEroded_false_of_params_none (q : ImagePair) (model : Model) (kh kw : Nat) (n0 n1 : Rat) (i j : Int)
    (h : ∀ a b, q.params model kh kw n0 n1 a b = none) : q.keepEroded model kh kw n0 n1 i j = false := by
  cases he : q.keepEroded model kh kw n0 n1 i j with
  | false => rfl
  | true =>
    unfold ImagePair.keepEroded at he
    rw [List.all_eq_true] at he
    have h0 := he 0 (List.mem_range.mpr (by omega))
    rw [List.all_eq_true] at h0
    have h1 := h0 0 (List.mem_range.mpr (by omega))
    unfold ImagePair.keepIn at h1
    rw [h] at h1
    simp at h1

/-! ### abstract windows -/

/-- block invariance of partial masking for abstract windows: `pin ⊇ pout` along each axis, every reference pixel within
    `k/2 + 1` of `pout` that lies in the processing window lies in `pin`, and the reference pixel under the centre of the
    source pixel lies in `pout` -/
theorem partial_mask_core (p : ImagePair) (hSr : 0 < p.Sr.p) (hSc : 0 < p.Sc.p) (hRr : 0 < p.Rr.p)
    (hRc : 0 < p.Rc.p) (model : Model) (kh kw : Nat) (n0 n1 : Rat) (pinR poutR pinC poutC : Win1)
    (hfp : p.FitTotal model kh kw n0 n1) (hfq : (p.restrictTo pinR pinC).FitTotal model kh kw n0 n1)
    (hsubR : pinR.lo ≤ poutR.lo ∧ poutR.hi ≤ pinR.hi) (hsubC : pinC.lo ≤ poutC.lo ∧ poutC.hi ≤ pinC.hi)
    (HR : ∀ a : Int, poutR.lo - (((kh / 2 : Nat) : Int) + 1) ≤ a ∧ a < poutR.hi + (((kh / 2 : Nat) : Int) + 1) →
      ((refWin p.Sr p.Rr).lo ≤ a ∧ a < (refWin p.Sr p.Rr).hi) → (pinR.lo ≤ a ∧ a < pinR.hi))
    (HC : ∀ b : Int, poutC.lo - (((kw / 2 : Nat) : Int) + 1) ≤ b ∧ b < poutC.hi + (((kw / 2 : Nat) : Int) + 1) →
      ((refWin p.Sc p.Rc).lo ≤ b ∧ b < (refWin p.Sc p.Rc).hi) → (pinC.lo ≤ b ∧ b < pinC.hi))
    (r c : Int) (hr : (roundTo p.Rr p.Sr poutR).lo ≤ r ∧ r < (roundTo p.Rr p.Sr poutR).hi)
    (hc : (roundTo p.Rc p.Sc poutC).lo ≤ c ∧ c < (roundTo p.Rc p.Sc poutC).hi)
    (hnr : poutR.lo ≤ nearestIdx p.Rr p.Sr r ∧ nearestIdx p.Rr p.Sr r < poutR.hi)
    (hnc : poutC.lo ≤ nearestIdx p.Rc p.Sc c ∧ nearestIdx p.Rc p.Sc c < poutC.hi) :
    (p.restrictTo pinR pinC).partialValid model kh kw n0 n1 r c = p.partialValid model kh kw n0 n1 r c := by
  have hrin := round_subset_expand p.Rr p.Sr hRr hSr pinR poutR hsubR r hr
  have hcin := round_subset_expand p.Rc p.Sc hRc hSc pinC poutC hsubC c hc
  have hsrc : (p.restrictTo pinR pinC).src r c = p.src r c := by
    show (p.src.restrict (expandTo p.Rr p.Sr pinR) (expandTo p.Rc p.Sc pinC)) r c = p.src r c
    unfold ImgO.restrict
    rw [if_pos ⟨hrin.1, hrin.2, hcin.1, hcin.2⟩]
  have hke : (p.restrictTo pinR pinC).keepEroded model kh kw n0 n1 (nearestIdx p.Rr p.Sr r) (nearestIdx p.Rc p.Sc c) =
      p.keepEroded model kh kw n0 n1 (nearestIdx p.Rr p.Sr r) (nearestIdx p.Rc p.Sc c) := by
    apply keepEroded_congr
    intro a b ha hb
    exact keepIn_restrict p hSr hSc hRr hRc pinR pinC model kh kw n0 n1 hfp hfq a b
      (HR a (by omega)) (HC b (by omega))
  show (((p.restrictTo pinR pinC).src r c).isSome &&
      (p.restrictTo pinR pinC).keepEroded model kh kw n0 n1 (nearestIdx p.Rr p.Sr r) (nearestIdx p.Rc p.Sc c)) = _
  rw [hsrc, hke]
  rfl

/-! ### 1-D block geometry -/

/-- the eroded window (radius `k/2 + 1`) of every pixel of a block's output window, clipped to the processing window
    `[A, B)`, lies inside the block's input window when the overlap is at least `k/2 + 1` -/
theorem eroded_window_inside_in_block (A B s v : Int) (k : Nat) (hk : ((k / 2 : Nat) : Int) + 1 ≤ v) (j : Nat)
    (a : Int) (ha : (procOut A B s v j).lo - (((k / 2 : Nat) : Int) + 1) ≤ a ∧
      a < (procOut A B s v j).hi + (((k / 2 : Nat) : Int) + 1)) (hAB : A ≤ a ∧ a < B) :
    (procIn A B s v j).lo ≤ a ∧ a < (procIn A B s v j).hi := by
  have hv : 0 ≤ v := by omega
  rw [in_contains_out_plus_overlap_eq A B s v hv j]
  simp only
  omega

/-! ### the gain model on positive data -/

theorem restrict_src_pos (p : ImagePair) (hposS : ∀ r c x, p.src r c = some x → 0 < x) (rinR rinC sinR sinC : Win1) :
    ∀ r c x, (p.restrict rinR rinC sinR sinC).src r c = some x → 0 < x := by
  intro r c x h
  change (p.src.restrict sinR sinC) r c = some x at h
  unfold ImgO.restrict at h
  split at h
  · exact hposS r c x h
  · cases h

theorem fitTotal_gain_of_pos (q : ImagePair) (hposS : ∀ r c x, q.src r c = some x → 0 < x) (kh kw : Nat)
    (hkh : 0 < kh) (hkw : 0 < kw) (n0 n1 : Rat) : q.FitTotal .gain kh kw n0 n1 :=
  fun i j hi hj hs href => params_gain_isSome q hposS kh kw hkh hkw n0 n1 i j hi hj hs href

theorem winPos_nil_of_zero (kh kw h w r c : Nat) (hk : kh = 0 ∨ kw = 0) : winPos kh kw h w r c = [] := by
  unfold winPos
  rcases hk with rfl | rfl
  · simp [axisWin]
  · simp [axisWin]

/-- an empty kernel never fits (the source sum over the window is zero) -/
theorem params_gain_none_of_zero (q : ImagePair) (kh kw : Nat) (hk : kh = 0 ∨ kw = 0) (n0 n1 : Rat) (i j : Int) :
    q.params .gain kh kw n0 n1 i j = none := by
  unfold ImagePair.params
  split
  · unfold fitAt
    split
    · simp only
      unfold fitGainS Block.sums boxSum
      simp only [winPos_nil_of_zero kh kw _ _ _ _ hk, List.map_nil, List.sum_nil]
      simp [divO]
    · rfl
  · rfl

end Homonim
