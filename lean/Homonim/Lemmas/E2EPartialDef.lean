/-
  Helper lemmas for E2EPartialDef (the partial mask of the whole-image model equals the property's definition):
    * 1-D geometry: the source pixel position containing the leading edge of a reference pixel lies in `srcUnder` and, when it
      is inside the source image, carries a positive `average` weight for that reference pixel;
    * a completely covered reference pixel has a valid averaged source (`srcDs`), provided the source lookup is `none`
      outside the source image;
    * gain model, positive source, kernel at least 1 x 1: `keepIn` is `fullySupported`-shaped (valid in the reference and
      completely covered);
    * an empty kernel never fits, for any model; the corner pixels of the eroded window are inside the reference image.
-/
import Homonim.Model.PartialMask
import Homonim.Lemmas.E2E
import Homonim.Lemmas.E2EMask
import Homonim.Lemmas.E2EPartial

namespace Homonim

/-! ### 1-D geometry -/

/-- the source pixel position that contains the leading edge of reference pixel `a` -/
def leadIdx (S R : Axis) (a : Int) : Int := (srcUnder S R a).lo

/-- it is one of the positions meeting the reference pixel -/
theorem leadIdx_mem_srcUnder (S R : Axis) (hS : 0 < S.p) (hR : 0 < R.p) (a : Int) :
    leadIdx S R a ∈ (srcUnder S R a).indices := by
  rw [mem_indices_iff]
  refine ⟨le_refl _, ?_⟩
  unfold leadIdx srcUnder expandTo toOther
  simp only
  unfold Axis.edge
  have h1 := fdiv_mul_le (R.o + a * R.p - S.o) S.p hS
  have h2 := cdiv_mul_ge (R.o + (a + 1) * R.p - S.o) S.p hS
  have e : (a + 1) * R.p = a * R.p + R.p := by ring
  apply lt_of_mul_lt_mul_pos _ _ _ hS
  omega

/-- inside the source image it overlaps the reference pixel with positive length -/
theorem leadIdx_mem_avgWeights1 (S R : Axis) (hS : 0 < S.p) (hR : 0 < R.p) (a : Int)
    (hin : 0 ≤ leadIdx S R a ∧ leadIdx S R a < S.n) :
    ∃ w, (leadIdx S R a, w) ∈ avgWeights1 S R a := by
  have h1 := fdiv_mul_le (R.edge a - S.o) S.p hS
  have h2 := fdiv_mul_gt (R.edge a - S.o) S.p hS
  have hx : leadIdx S R a = (R.edge a - S.o) / S.p := rfl
  have hw : 0 < overlap1 (S.edge (leadIdx S R a)) (S.edge (leadIdx S R a + 1)) (R.edge a) (R.edge (a + 1)) := by
    rw [hx]
    generalize (R.edge a - S.o) / S.p = q at h1 h2 ⊢
    unfold overlap1
    unfold Axis.edge at *
    have e : (a + 1) * R.p = a * R.p + R.p := by ring
    rw [e]
    omega
  refine ⟨overlap1 (S.edge (leadIdx S R a)) (S.edge (leadIdx S R a + 1)) (R.edge a) (R.edge (a + 1)), ?_⟩
  unfold avgWeights1
  simp only [List.mem_filterMap, List.mem_range]
  refine ⟨(leadIdx S R a).toNat, by omega, ?_⟩
  have hrr : (((leadIdx S R a).toNat : Nat) : Int) = leadIdx S R a := by omega
  rw [hrr, if_pos hw]

/-! ### a completely covered pixel has a valid averaged source -/

theorem srcDs_isSome_of_coverRef (p : ImagePair) (hSr : 0 < p.Sr.p) (hSc : 0 < p.Sc.p) (hRr : 0 < p.Rr.p)
    (hRc : 0 < p.Rc.p)
    (hsrc : ∀ r c, ¬ (0 ≤ r ∧ r < p.Sr.n ∧ 0 ≤ c ∧ c < p.Sc.n) → p.src r c = none)
    (a b : Int) (h : p.coverRef a b = true) : (p.srcDs a b).isSome = true := by
  unfold ImagePair.coverRef at h
  rw [List.all_eq_true] at h
  have h1 := h _ (leadIdx_mem_srcUnder p.Sr p.Rr hSr hRr a)
  rw [List.all_eq_true] at h1
  have h2 := h1 _ (leadIdx_mem_srcUnder p.Sc p.Rc hSc hRc b)
  obtain ⟨x, hx⟩ := Option.isSome_iff_exists.mp h2
  have hin : 0 ≤ leadIdx p.Sr p.Rr a ∧ leadIdx p.Sr p.Rr a < p.Sr.n ∧
      0 ≤ leadIdx p.Sc p.Rc b ∧ leadIdx p.Sc p.Rc b < p.Sc.n := by
    by_contra hc
    rw [hsrc _ _ hc] at hx
    cases hx
  obtain ⟨wr, hwr⟩ := leadIdx_mem_avgWeights1 p.Sr p.Rr hSr hRr a ⟨hin.1, hin.2.1⟩
  obtain ⟨wc, hwc⟩ := leadIdx_mem_avgWeights1 p.Sc p.Rc hSc hRc b ⟨hin.2.2.1, hin.2.2.2⟩
  exact avg2_isSome p.Sr p.Sc p.Rr p.Rc p.src a b _ _ wr wc hwr hwc x hx

/-! ### the un-eroded mask of the gain model on positive data -/

/-- gain model, positive source, kernel at least 1 x 1: a reference pixel is kept iff it is valid in the reference and
    completely covered by valid source pixels -/
theorem keepIn_gain_eq (p : ImagePair) (hSr : 0 < p.Sr.p) (hSc : 0 < p.Sc.p) (hRr : 0 < p.Rr.p) (hRc : 0 < p.Rc.p)
    (hposS : ∀ r c x, p.src r c = some x → 0 < x)
    (hsrc : ∀ r c, ¬ (0 ≤ r ∧ r < p.Sr.n ∧ 0 ≤ c ∧ c < p.Sc.n) → p.src r c = none)
    (href : ∀ i j, ¬ (0 ≤ i ∧ i < p.Rr.n ∧ 0 ≤ j ∧ j < p.Rc.n) → p.ref i j = none)
    (kh kw : Nat) (hkh : 0 < kh) (hkw : 0 < kw) (n0 n1 : Rat) (a b : Int) :
    p.keepIn .gain kh kw n0 n1 a b = ((p.ref a b).isSome && p.coverRef a b) := by
  unfold ImagePair.keepIn
  cases hcov : p.coverRef a b with
  | false => simp
  | true =>
    have hs := srcDs_isSome_of_coverRef p hSr hSc hRr hRc hsrc a b hcov
    rw [Bool.true_and, Bool.and_true]
    apply Bool.eq_iff_iff.mpr
    constructor
    · intro h
      exact (params_isSome_imp p .gain kh kw n0 n1 a b h).2.2
    · intro h
      have hin : 0 ≤ a ∧ a < p.Rr.n ∧ 0 ≤ b ∧ b < p.Rc.n := by
        by_contra hc
        rw [href _ _ hc] at h
        cases h
      exact params_gain_isSome p hposS kh kw hkh hkw n0 n1 a b ⟨hin.1, hin.2.1⟩ ⟨hin.2.2.1, hin.2.2.2⟩ hs h

/-! ### empty kernels; the corners of the eroded window -/

/-- an empty kernel never fits, whatever the model (every kernel sum is zero) -/
theorem params_none_of_zero (q : ImagePair) (model : Model) (kh kw : Nat) (hk : kh = 0 ∨ kw = 0) (n0 n1 : Rat)
    (i j : Int) : q.params model kh kw n0 n1 i j = none := by
  unfold ImagePair.params
  split
  · unfold fitAt
    split
    · cases model with
      | gain =>
        simp only
        unfold fitGainS Block.sums boxSum
        simp only [winPos_nil_of_zero kh kw _ _ _ _ hk, List.map_nil, List.sum_nil]
        simp [divO]
      | gainBlkOffset =>
        simp only
        unfold fitGainBlkOffsetS fitGainS Block.sums boxSum
        simp only [Block.normalised, winPos_nil_of_zero kh kw _ _ _ _ hk, List.map_nil, List.sum_nil]
        simp [divO]
      | gainOffset =>
        simp only
        unfold fitGainOffsetS ols olsGain Block.sums boxSum
        simp only [winPos_nil_of_zero kh kw _ _ _ _ hk, List.map_nil, List.sum_nil]
        simp [divO]
    · rfl
  · rfl

/-- a kept pixel lies inside the reference image -/
theorem keepIn_inside (q : ImagePair) (model : Model) (kh kw : Nat) (n0 n1 : Rat) (a b : Int)
    (h : q.keepIn model kh kw n0 n1 a b = true) : 0 ≤ a ∧ a < q.Rr.n ∧ 0 ≤ b ∧ b < q.Rc.n := by
  unfold ImagePair.keepIn at h
  rw [Bool.and_eq_true] at h
  exact (params_isSome_imp q model kh kw n0 n1 a b h.2).1

/-- the eroded mask holds only strictly inside the reference image -/
theorem keepEroded_strictly_inside (q : ImagePair) (model : Model) (kh kw : Nat) (n0 n1 : Rat) (i j : Int)
    (h : q.keepEroded model kh kw n0 n1 i j = true) : 0 < i ∧ i < q.Rr.n - 1 ∧ 0 < j ∧ j < q.Rc.n - 1 := by
  by_cases hk : kh = 0 ∨ kw = 0
  · rw [keepEroded_false_of_params_none q model kh kw n0 n1 i j (params_none_of_zero q model kh kw hk n0 n1)] at h
    cases h
  · unfold ImagePair.keepEroded at h
    rw [List.all_eq_true] at h
    have h0 := h 0 (List.mem_range.mpr (by omega))
    rw [List.all_eq_true] at h0
    have h00 := keepIn_inside q model kh kw n0 n1 _ _ (h0 0 (List.mem_range.mpr (by omega)))
    have h1 := h (kh + 1) (List.mem_range.mpr (by omega))
    rw [List.all_eq_true] at h1
    have h11 := keepIn_inside q model kh kw n0 n1 _ _ (h1 (kw + 1) (List.mem_range.mpr (by omega)))
    push_cast at h00 h11
    omega

end Homonim
