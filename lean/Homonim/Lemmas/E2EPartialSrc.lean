/-
  Helper lemmas for E2EPartialSrc (block invariance of partial masking on the source grid):
    * the source-grid partial mask as a function of the two images it reads (`partialValidSrcGen`, its un-eroded mask
      `keepInSrcGen`), of which the whole-run definition and the "On" pipeline are instances (by `rfl`);
    * it is `false` at every pixel outside the source image (the eroded window contains its centre, and there are no
      parameters outside the image);
    * congruence: the eroded mask reads the un-eroded one within `k/2 + 1` of the pixel; the un-eroded one reads the
      reference at the reference pixels that meet the source pixel and asks whether the fit succeeded;
    * the fit on the source-grid block reads the source inside the source image only;
    * the gain model on a positive source: the fit on the source-grid block succeeds exactly at the jointly valid pixels
      (kernel at least 1 x 1), and nowhere for an empty kernel;
    * the reference pixels that meet a source pixel of a window lie in the expansion of that window.
-/
import Homonim.Lemmas.E2ESrc
import Homonim.Lemmas.E2EPartial

namespace Homonim

/-! ### the pipeline as a function of the two images -/

/-- parameters at source pixel `(a, b)` from a source image and a reference image (`none` outside the source image) -/
def paramsSrcGen (Sr Sc Rr Rc : Axis) (model : Model) (kh kw : Nat) (n0 n1 : Rat) (m : Resampling) (srcI refI : ImgO)
    (a b : Int) : Option Params :=
  if 0 ≤ a ∧ a < Sr.n ∧ 0 ≤ b ∧ b < Sc.n then
    fitAt (srcGridBlock Sr Sc Rr Rc m srcI refI) model kh kw false none n0 n1 (fun _ _ => none) a.toNat b.toNat
  else none

/-- every reference pixel position meeting source pixel `(a, b)` is valid in `refI` -/
def coverSrcGen (Sr Sc Rr Rc : Axis) (refI : ImgO) (a b : Int) : Bool :=
  (refUnder Sr Rr a).indices.all fun x => (refUnder Sc Rc b).indices.all fun y => (refI x y).isSome

/-- the un-eroded mask -/
def keepInSrcGen (Sr Sc Rr Rc : Axis) (model : Model) (kh kw : Nat) (n0 n1 : Rat) (m : Resampling) (srcI refI : ImgO)
    (a b : Int) : Bool :=
  coverSrcGen Sr Sc Rr Rc refI a b && (paramsSrcGen Sr Sc Rr Rc model kh kw n0 n1 m srcI refI a b).isSome

/-- the source-grid partial mask on a source image `srcI` and a reference image `refI` -/
def partialValidSrcGen (Sr Sc Rr Rc : Axis) (model : Model) (kh kw : Nat) (n0 n1 : Rat) (m : Resampling)
    (srcI refI : ImgO) (r c : Int) : Bool :=
  (srcI r c).isSome &&
    (List.range (kh + 2)).all fun (di : Nat) => (List.range (kw + 2)).all fun (dj : Nat) =>
      keepInSrcGen Sr Sc Rr Rc model kh kw n0 n1 m srcI refI
        (r - (((kh + 2) / 2 : Nat) : Int) + di) (c - (((kw + 2) / 2 : Nat) : Int) + dj)

theorem partialValidSrcGrid_eq_gen (p : ImagePair) (model : Model) (kh kw : Nat) (n0 n1 : Rat) (m : Resampling)
    (r c : Int) :
    p.partialValidSrcGrid model kh kw n0 n1 m r c =
      partialValidSrcGen p.Sr p.Sc p.Rr p.Rc model kh kw n0 n1 m p.src p.refRead r c :=
  rfl

theorem partialValidSrcGridOn_eq_gen (p : ImagePair) (model : Model) (kh kw : Nat) (n0 n1 : Rat) (m : Resampling)
    (sinR sinC rinR rinC : Win1) (r c : Int) :
    p.partialValidSrcGridOn model kh kw n0 n1 m sinR sinC rinR rinC r c =
      partialValidSrcGen p.Sr p.Sc p.Rr p.Rc model kh kw n0 n1 m (p.src.restrict sinR sinC)
        (p.ref.restrict rinR rinC) r c :=
  rfl

/-! ### outside the source image -/

theorem keepInSrcGen_false_outside (Sr Sc Rr Rc : Axis) (model : Model) (kh kw : Nat) (n0 n1 : Rat) (m : Resampling)
    (srcI refI : ImgO) (a b : Int) (h : ¬ (0 ≤ a ∧ a < Sr.n ∧ 0 ≤ b ∧ b < Sc.n)) :
    keepInSrcGen Sr Sc Rr Rc model kh kw n0 n1 m srcI refI a b = false := by
  unfold keepInSrcGen paramsSrcGen
  rw [if_neg h]
  simp

/-- the mask is `false` outside the source image: the eroded window contains its centre -/
theorem partialValidSrcGen_false_outside (Sr Sc Rr Rc : Axis) (model : Model) (kh kw : Nat) (n0 n1 : Rat)
    (m : Resampling) (srcI refI : ImgO) (r c : Int) (h : ¬ (0 ≤ r ∧ r < Sr.n ∧ 0 ≤ c ∧ c < Sc.n)) :
    partialValidSrcGen Sr Sc Rr Rc model kh kw n0 n1 m srcI refI r c = false := by
  cases he : partialValidSrcGen Sr Sc Rr Rc model kh kw n0 n1 m srcI refI r c with
  | false => rfl
  | true =>
    unfold partialValidSrcGen at he
    rw [Bool.and_eq_true, List.all_eq_true] at he
    have h0 := he.2 ((kh + 2) / 2) (List.mem_range.mpr (by omega))
    rw [List.all_eq_true] at h0
    have h1 := h0 ((kw + 2) / 2) (List.mem_range.mpr (by omega))
    have e1 : r - (((kh + 2) / 2 : Nat) : Int) + (((kh + 2) / 2 : Nat) : Int) = r := by omega
    have e2 : c - (((kw + 2) / 2 : Nat) : Int) + (((kw + 2) / 2 : Nat) : Int) = c := by omega
    rw [e1, e2, keepInSrcGen_false_outside Sr Sc Rr Rc model kh kw n0 n1 m srcI refI r c h] at h1
    cases h1

/-! ### congruence -/

/-- the mask reads the source pixel itself and the un-eroded mask within `k/2 + 1` of the pixel -/
theorem partialValidSrcGen_congr (Sr Sc Rr Rc : Axis) (model : Model) (kh kw : Nat) (n0 n1 : Rat) (m : Resampling)
    (s1 f1 s2 f2 : ImgO) (r c : Int) (hs : (s1 r c).isSome = (s2 r c).isSome)
    (h : ∀ a b : Int, r - (((kh / 2 : Nat) : Int) + 1) ≤ a ∧ a ≤ r + (((kh / 2 : Nat) : Int) + 1) →
      c - (((kw / 2 : Nat) : Int) + 1) ≤ b ∧ b ≤ c + (((kw / 2 : Nat) : Int) + 1) →
      keepInSrcGen Sr Sc Rr Rc model kh kw n0 n1 m s1 f1 a b = keepInSrcGen Sr Sc Rr Rc model kh kw n0 n1 m s2 f2 a b) :
    partialValidSrcGen Sr Sc Rr Rc model kh kw n0 n1 m s1 f1 r c =
      partialValidSrcGen Sr Sc Rr Rc model kh kw n0 n1 m s2 f2 r c := by
  unfold partialValidSrcGen
  rw [hs]
  congr 1
  apply all_congr_mem
  intro di hdi
  apply all_congr_mem
  intro dj hdj
  rw [List.mem_range] at hdi hdj
  exact h _ _ (by omega) (by omega)

/-- the coverage test reads the reference at the reference pixels that meet the source pixel -/
theorem coverSrcGen_congr (Sr Sc Rr Rc : Axis) (f1 f2 : ImgO) (a b : Int)
    (h : ∀ x y : Int, (refUnder Sr Rr a).lo ≤ x ∧ x < (refUnder Sr Rr a).hi →
      (refUnder Sc Rc b).lo ≤ y ∧ y < (refUnder Sc Rc b).hi → f1 x y = f2 x y) :
    coverSrcGen Sr Sc Rr Rc f1 a b = coverSrcGen Sr Sc Rr Rc f2 a b := by
  unfold coverSrcGen
  apply all_congr_mem
  intro x hx
  apply all_congr_mem
  intro y hy
  rw [mem_indices_iff] at hx hy
  rw [h x y hx hy]

/-- the fit on the source-grid block reads the two images only on the kernel window of the pixel, clipped to the source
    image: the source directly, the reference through its resampling onto the source grid -/
theorem paramsSrcGen_congr (Sr Sc Rr Rc : Axis) (model : Model) (kh kw : Nat) (n0 n1 : Rat) (m : Resampling)
    (s1 f1 s2 f2 : ImgO) (r c : Int)
    (H : ∀ a b : Int, 0 ≤ a ∧ a < Sr.n → 0 ≤ b ∧ b < Sc.n →
      r - ((kh / 2 : Nat) : Int) ≤ a ∧ a ≤ r + ((kh / 2 : Nat) : Int) →
      c - ((kw / 2 : Nat) : Int) ≤ b ∧ b ≤ c + ((kw / 2 : Nat) : Int) →
      s1 a b = s2 a b ∧ resample2 m Rr Rc Sr Sc f1 a b = resample2 m Rr Rc Sr Sc f2 a b) :
    paramsSrcGen Sr Sc Rr Rc model kh kw n0 n1 m s1 f1 r c = paramsSrcGen Sr Sc Rr Rc model kh kw n0 n1 m s2 f2 r c := by
  unfold paramsSrcGen
  by_cases hin : 0 ≤ r ∧ r < Sr.n ∧ 0 ≤ c ∧ c < Sc.n
  · rw [if_pos hin, if_pos hin]
    have P : ∀ a b : Nat, ((a : Int) < Sr.n) → ((b : Int) < Sc.n) →
        (r - ((kh / 2 : Nat) : Int) ≤ (a : Int) ∧ (a : Int) ≤ r + ((kh / 2 : Nat) : Int)) →
        (c - ((kw / 2 : Nat) : Int) ≤ (b : Int) ∧ (b : Int) ≤ c + ((kw / 2 : Nat) : Int)) →
        (srcGridBlock Sr Sc Rr Rc m s1 f1).m a b = (srcGridBlock Sr Sc Rr Rc m s2 f2).m a b ∧
          ((srcGridBlock Sr Sc Rr Rc m s2 f2).m a b = true →
            (srcGridBlock Sr Sc Rr Rc m s1 f1).src a b = (srcGridBlock Sr Sc Rr Rc m s2 f2).src a b ∧
              (srcGridBlock Sr Sc Rr Rc m s1 f1).ref a b = (srcGridBlock Sr Sc Rr Rc m s2 f2).ref a b) := by
      intro a b han hbn ha hb
      obtain ⟨h1, h2⟩ := H (a : Int) (b : Int) ⟨by omega, han⟩ ⟨by omega, hbn⟩ ha hb
      unfold Block.m srcGridBlock
      simp only
      rw [h1, h2]
      exact ⟨rfl, fun _ => ⟨rfl, rfl⟩⟩
    apply fitAt_congr_local (srcGridBlock Sr Sc Rr Rc m s1 f1) (srcGridBlock Sr Sc Rr Rc m s2 f2) rfl rfl
    · exact (P r.toNat c.toNat (by omega) (by omega) (by omega) (by omega)).1
    · intro a b hab
      rw [mem_winPos] at hab
      obtain ⟨⟨a0, a1, a2⟩, ⟨b0, b1, b2⟩⟩ := hab
      have ha0 : a < Sr.n.toNat := a0
      have hb0 : b < Sc.n.toNat := b0
      exact P a b (by omega) (by omega) (by omega) (by omega)
  · rw [if_neg hin, if_neg hin]

/-! ### the gain model on a positive source -/

/-- an empty kernel never fits, on any block (the source sum over the window is zero) -/
theorem fitAt_gain_none_of_zero (b : Block) (kh kw : Nat) (hk : kh = 0 ∨ kw = 0) (fr : Bool) (th : Option Rat)
    (n0 n1 : Rat) (oF : Nat → Nat → Option Rat) (r c : Nat) : fitAt b .gain kh kw fr th n0 n1 oF r c = none := by
  unfold fitAt
  split
  · simp only
    unfold fitGainS Block.sums boxSum
    simp only [winPos_nil_of_zero kh kw _ _ _ _ hk, List.map_nil, List.sum_nil]
    simp [divO]
  · rfl

theorem paramsSrcGen_gain_none_of_zero (Sr Sc Rr Rc : Axis) (kh kw : Nat) (hk : kh = 0 ∨ kw = 0) (n0 n1 : Rat)
    (m : Resampling) (srcI refI : ImgO) (a b : Int) :
    paramsSrcGen Sr Sc Rr Rc .gain kh kw n0 n1 m srcI refI a b = none := by
  unfold paramsSrcGen
  split
  · exact fitAt_gain_none_of_zero _ kh kw hk _ _ _ _ _ _ _
  · rfl

/-- gain model, positive source, kernel at least 1 x 1: inside the source image the fit on the source-grid block succeeds
    exactly at the jointly valid pixels -/
theorem paramsSrcGen_gain_isSome (Sr Sc Rr Rc : Axis) (kh kw : Nat) (hkh : 0 < kh) (hkw : 0 < kw) (n0 n1 : Rat)
    (m : Resampling) (srcI refI : ImgO) (hpos : ∀ r c x, srcI r c = some x → 0 < x) (a b : Int)
    (hin : 0 ≤ a ∧ a < Sr.n ∧ 0 ≤ b ∧ b < Sc.n) :
    (paramsSrcGen Sr Sc Rr Rc .gain kh kw n0 n1 m srcI refI a b).isSome =
      ((srcI a b).isSome && (resample2 m Rr Rc Sr Sc refI a b).isSome) := by
  have ha' : ((a.toNat : Nat) : Int) = a := by omega
  have hb' : ((b.toNat : Nat) : Int) = b := by omega
  have hmeq : (srcGridBlock Sr Sc Rr Rc m srcI refI).m a.toNat b.toNat =
      ((srcI a b).isSome && (resample2 m Rr Rc Sr Sc refI a b).isSome) := by
    unfold Block.m srcGridBlock
    simp only [ha', hb']
  unfold paramsSrcGen
  rw [if_pos hin, ← hmeq]
  cases hm : (srcGridBlock Sr Sc Rr Rc m srcI refI).m a.toNat b.toNat with
  | false =>
    unfold fitAt
    simp [hm]
  | true =>
    have hrh : a.toNat < (srcGridBlock Sr Sc Rr Rc m srcI refI).h := by unfold srcGridBlock; simp only; omega
    have hcw : b.toNat < (srcGridBlock Sr Sc Rr Rc m srcI refI).w := by unfold srcGridBlock; simp only; omega
    apply gain_exists_of_pos _ kh kw false none n0 n1 _ _ _ hm (winPts_ne_nil _ kh kw _ _ hrh hcw hkh hkw hm)
    intro q hq
    unfold Block.winPts at hq
    simp only [List.mem_map, List.mem_filter] at hq
    obtain ⟨ab, ⟨_, hmab⟩, rfl⟩ := hq
    simp only
    unfold Block.m srcGridBlock at hmab
    simp only [Bool.and_eq_true] at hmab
    obtain ⟨v, hv⟩ := Option.isSome_iff_exists.mp hmab.1
    show 0 < (srcI (ab.1 : Int) (ab.2 : Int)).getD 0
    rw [hv]
    exact hpos _ _ v hv

theorem restrict_pos (img : ImgO) (hpos : ∀ r c x, img r c = some x → 0 < x) (wr wc : Win1) :
    ∀ r c x, (img.restrict wr wc) r c = some x → 0 < x := by
  intro r c x h
  unfold ImgO.restrict at h
  split at h
  · exact hpos r c x h
  · cases h

/-! ### geometry -/

/-- the reference pixels that meet a source pixel of the window lie in the expansion of the window -/
theorem refUnder_subset_expand (S R : Axis) (hS : 0 < S.p) (hR : 0 < R.p) (w : Win1) (a : Int)
    (ha : w.lo ≤ a ∧ a < w.hi) (x : Int) (hx : (refUnder S R a).lo ≤ x ∧ x < (refUnder S R a).hi) :
    (expandTo S R w).lo ≤ x ∧ x < (expandTo S R w).hi :=
  expand_subset_expand S R hS hR w ⟨a, a + 1⟩ (by simp only; omega) x hx

end Homonim
