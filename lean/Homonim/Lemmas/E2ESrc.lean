/-
  Helper lemmas for E2ESrc (end-to-end block transparency of source-grid processing):
    * 1-D geometry: the reference pixel that contains the centre of a source pixel overlaps that source pixel, so the
      `nearest` support (like the `average` support) of a source pixel of a window lies in the expanded window;
    * `resample2` (`average` / `nearest`) of a reference restricted to an expanded window is the unrestricted `resample2`
      at every source pixel of the window;
    * the source-grid pipeline as a function of the two images it reads (`srcGridGen`) and its congruence on the
      kernel window of the pixel.
-/
import Homonim.Lemmas.E2E

namespace Homonim

/-! ### 1-D geometry of the `nearest` support -/

/-- the reference pixel containing the centre of source pixel `j` overlaps source pixel `j` (strictly: no tie) -/
theorem nearest_overlaps (R S : Axis) (hR : 0 < R.p) (hS : 0 < S.p) (j : Int) :
    S.edge j < R.edge (nearestIdx R S j + 1) ∧ R.edge (nearestIdx R S j) < S.edge (j + 1) := by
  unfold nearestIdx
  have hden : 0 < 2 * R.p := by omega
  have h1 := fdiv_mul_le (2 * (S.edge j - R.o) + S.p) (2 * R.p) hden
  have h2 := fdiv_mul_gt (2 * (S.edge j - R.o) + S.p) (2 * R.p) hden
  generalize (2 * (S.edge j - R.o) + S.p) / (2 * R.p) = x at h1 h2
  have e1 : x * (2 * R.p) = 2 * (x * R.p) := by ring
  have e2 : (x + 1) * (2 * R.p) = 2 * ((x + 1) * R.p) := by ring
  have e3 : (j + 1) * S.p = j * S.p + S.p := by ring
  unfold Axis.edge at *
  constructor <;> omega

/-- the `nearest` support of a source pixel of the window lies in the expanded window -/
theorem nearest_in_expand (R S : Axis) (hR : 0 < R.p) (hS : 0 < S.p) (w : Win1) (j : Int)
    (hj : w.lo ≤ j ∧ j < w.hi) :
    (expandTo S R w).lo ≤ nearestIdx R S j ∧ nearestIdx R S j < (expandTo S R w).hi := by
  obtain ⟨h1, h2⟩ := nearest_overlaps R S hR hS j
  exact overlap_in_expand R S hR hS w j hj _ h1 h2

/-! ### `average` / `nearest` of a restricted reference -/

/-- at a source pixel of the window `(wr, wc)`, `average` and `nearest` read the reference only inside the expanded
    window: restricting the reference to it changes nothing.  (Not so for `bilinear`: its 2 x 2 support can reach a
    reference pixel that does not overlap the source pixel.) -/
theorem resample2_restrict_expand (m : Resampling) (hm : m ≠ .bilinear) (Sr Sc Rr Rc : Axis)
    (hSr : 0 < Sr.p) (hSc : 0 < Sc.p) (hRr : 0 < Rr.p) (hRc : 0 < Rc.p) (ref : ImgO) (wr wc : Win1) (jr jc : Int)
    (hjr : wr.lo ≤ jr ∧ jr < wr.hi) (hjc : wc.lo ≤ jc ∧ jc < wc.hi) :
    resample2 m Rr Rc Sr Sc (ref.restrict (expandTo Sr Rr wr) (expandTo Sc Rc wc)) jr jc =
      resample2 m Rr Rc Sr Sc ref jr jc := by
  cases m with
  | bilinear => exact absurd rfl hm
  | average =>
    unfold resample2
    simp only
    apply avg2_congr
    intro iw hiw kv hkv
    obtain ⟨_, _, r1, r2⟩ := mem_avgWeights1 _ _ _ _ hiw
    obtain ⟨_, _, c1, c2⟩ := mem_avgWeights1 _ _ _ _ hkv
    have hr := overlap_in_expand Rr Sr hRr hSr wr jr hjr iw.1 r1 r2
    have hc := overlap_in_expand Rc Sc hRc hSc wc jc hjc kv.1 c1 c2
    unfold ImgO.restrict
    rw [if_pos ⟨hr.1, hr.2, hc.1, hc.2⟩]
  | nearest =>
    unfold resample2 nearest2
    simp only
    have hr := nearest_in_expand Rr Sr hRr hSr wr jr hjr
    have hc := nearest_in_expand Rc Sc hRc hSc wc jc hjc
    unfold ImgO.restrict
    rw [if_pos ⟨hr.1, hr.2, hc.1, hc.2⟩]

/-! ### the source-grid pipeline as a function of the two images it reads -/

/-- the co-gridded block on the source grid built from a source image and a reference image (on the reference grid) -/
def srcGridBlock (Sr Sc Rr Rc : Axis) (m : Resampling) (srcI refI : ImgO) : Block :=
  { h := Sr.n.toNat, w := Sc.n.toNat
    src := fun i j => (srcI i j).getD 0, ref := fun i j => (resample2 m Rr Rc Sr Sc refI i j).getD 0
    sm := fun i j => (srcI i j).isSome, rm := fun i j => (resample2 m Rr Rc Sr Sc refI i j).isSome }

/-- the source-grid pipeline on a source image `srcI` and a reference image `refI` -/
def srcGridGen (Sr Sc Rr Rc : Axis) (model : Model) (kh kw : Nat) (n0 n1 : Rat) (m : Resampling) (srcI refI : ImgO)
    (r c : Int) : Option Rat :=
  if 0 ≤ r ∧ r < Sr.n ∧ 0 ≤ c ∧ c < Sc.n then
    match srcI r c,
      fitAt (srcGridBlock Sr Sc Rr Rc m srcI refI) model kh kw false none n0 n1 (fun _ _ => none) r.toNat c.toNat with
    | some x, some prm => some (prm.gain * x + prm.offset)
    | _, _ => none
  else none

theorem correctedSrcGrid_eq_gen (p : ImagePair) (model : Model) (kh kw : Nat) (n0 n1 : Rat) (m : Resampling)
    (r c : Int) :
    p.correctedSrcGrid model kh kw n0 n1 m r c = srcGridGen p.Sr p.Sc p.Rr p.Rc model kh kw n0 n1 m p.src p.refRead r c :=
  rfl

theorem correctedSrcGridOn_eq_gen (p : ImagePair) (model : Model) (kh kw : Nat) (n0 n1 : Rat) (m : Resampling)
    (sinR sinC rinR rinC : Win1) (r c : Int) :
    p.correctedSrcGridOn model kh kw n0 n1 m sinR sinC rinR rinC r c =
      srcGridGen p.Sr p.Sc p.Rr p.Rc model kh kw n0 n1 m (p.src.restrict sinR sinC) (p.ref.restrict rinR rinC) r c :=
  rfl

/-- the pipeline reads the two images only on the kernel window of the pixel, clipped to the source image: the source
    directly, the reference through its resampling onto the source grid -/
theorem srcGridGen_congr (Sr Sc Rr Rc : Axis) (model : Model) (kh kw : Nat) (n0 n1 : Rat) (m : Resampling)
    (s1 f1 s2 f2 : ImgO) (r c : Int)
    (H : ∀ a b : Int, 0 ≤ a ∧ a < Sr.n → 0 ≤ b ∧ b < Sc.n →
      r - ((kh / 2 : Nat) : Int) ≤ a ∧ a ≤ r + ((kh / 2 : Nat) : Int) →
      c - ((kw / 2 : Nat) : Int) ≤ b ∧ b ≤ c + ((kw / 2 : Nat) : Int) →
      s1 a b = s2 a b ∧ resample2 m Rr Rc Sr Sc f1 a b = resample2 m Rr Rc Sr Sc f2 a b) :
    srcGridGen Sr Sc Rr Rc model kh kw n0 n1 m s1 f1 r c = srcGridGen Sr Sc Rr Rc model kh kw n0 n1 m s2 f2 r c := by
  unfold srcGridGen
  by_cases hin : 0 ≤ r ∧ r < Sr.n ∧ 0 ≤ c ∧ c < Sc.n
  · rw [if_pos hin, if_pos hin]
    have P : ∀ a b : Nat, ((a : Int) < Sr.n) → ((b : Int) < Sc.n) →
        (r - ((kh / 2 : Nat) : Int) ≤ (a : Int) ∧ (a : Int) ≤ r + ((kh / 2 : Nat) : Int)) →
        (c - ((kw / 2 : Nat) : Int) ≤ (b : Int) ∧ (b : Int) ≤ c + ((kw / 2 : Nat) : Int)) →
        (srcGridBlock Sr Sc Rr Rc m s1 f1).m a b = (srcGridBlock Sr Sc Rr Rc m s2 f2).m a b ∧
          ((srcGridBlock Sr Sc Rr Rc m s2 f2).m a b = true →
            (srcGridBlock Sr Sc Rr Rc m s1 f1).src a b = (srcGridBlock Sr Sc Rr Rc m s2 f2).src a b ∧
              (srcGridBlock Sr Sc Rr Rc m s1 f1).ref a b = (srcGridBlock Sr Sc Rr Rc m s2 f2).ref a b) := by
      intro a b han hbn ha hb
      obtain ⟨h1, h2⟩ := H (a : Int) (b : Int) ⟨by omega, han⟩ ⟨by omega, hbn⟩ ha hb
      unfold Block.m srcGridBlock
      simp only
      rw [h1, h2]
      exact ⟨rfl, fun _ => ⟨rfl, rfl⟩⟩
    have hfit : fitAt (srcGridBlock Sr Sc Rr Rc m s1 f1) model kh kw false none n0 n1 (fun _ _ => none) r.toNat c.toNat =
        fitAt (srcGridBlock Sr Sc Rr Rc m s2 f2) model kh kw false none n0 n1 (fun _ _ => none) r.toNat c.toNat := by
      apply fitAt_congr_local (srcGridBlock Sr Sc Rr Rc m s1 f1) (srcGridBlock Sr Sc Rr Rc m s2 f2) rfl rfl
      · exact (P r.toNat c.toNat (by omega) (by omega) (by omega) (by omega)).1
      · intro a b hab
        rw [mem_winPos] at hab
        obtain ⟨⟨a0, a1, a2⟩, ⟨b0, b1, b2⟩⟩ := hab
        have ha0 : a < Sr.n.toNat := a0
        have hb0 : b < Sc.n.toNat := b0
        exact P a b (by omega) (by omega) (by omega) (by omega)
    rw [hfit, (H r c ⟨hin.1, hin.2.1⟩ ⟨hin.2.2.1, hin.2.2.2⟩ (by omega) (by omega)).1]
  · rw [if_neg hin, if_neg hin]

/-- the input window of a block lies inside the processing window -/
theorem procIn_subset (A B s v : Int) (k : Nat) (x : Int)
    (hx : (procIn A B s v k).lo ≤ x ∧ x < (procIn A B s v k).hi) : A ≤ x ∧ x < B := by
  unfold procIn at hx
  simp only at hx
  omega

/-! ### `bilinear` of a restricted reference (true only when the reference pixel is at most 3 source pixels long) -/

/-- membership in an expanded window is overlap with the ground extent of the window -/
theorem mem_expandTo_iff (S R : Axis) (hR : 0 < R.p) (w : Win1) (x : Int) :
    ((expandTo S R w).lo ≤ x ∧ x < (expandTo S R w).hi) ↔ (S.edge w.lo < R.edge (x + 1) ∧ R.edge x < S.edge w.hi) := by
  unfold expandTo toOther cdiv
  simp only
  have h1 : (S.edge w.lo - R.o) / R.p ≤ x ↔ S.edge w.lo - R.o < (x + 1) * R.p := by
    rw [← Int.ediv_lt_iff_lt_mul hR]; omega
  have h2 : x < -(-(S.edge w.hi - R.o) / R.p) ↔ -(S.edge w.hi - R.o) < (-x) * R.p := by
    rw [← Int.ediv_lt_iff_lt_mul hR]; omega
  have e : (-x) * R.p = -(x * R.p) := by ring
  rw [h1, h2, e]
  unfold Axis.edge
  constructor <;> rintro ⟨a, b⟩ <;> constructor <;> omega

/-- 1-D: for a source pixel `a` of the window `w ⊆ W` that is one pixel away from every edge of `w` that is not an edge of
    `W`, each pixel of the bilinear support either has weight 0 or is in the expansion of `w` iff it is in that of `W` -/
theorem bilin_support_restrict (S R : Axis) (hS : 0 < S.p) (hR : 0 < R.p) (hratio : R.p ≤ 3 * S.p) (w W : Win1)
    (hsub : W.lo ≤ w.lo ∧ w.hi ≤ W.hi) (a : Int) (ha : w.lo ≤ a ∧ a < w.hi)
    (hlo : w.lo + 1 ≤ a ∨ w.lo = W.lo) (hhi : a + 1 < w.hi ∨ w.hi = W.hi) :
    ∀ iw ∈ bilinWeights1 R S a, iw.2 = 0 ∨
      (((expandTo S R w).lo ≤ iw.1 ∧ iw.1 < (expandTo S R w).hi) ↔
        ((expandTo S R W).lo ≤ iw.1 ∧ iw.1 < (expandTo S R W).hi)) := by
  intro iw hiw
  unfold bilinWeights1 at hiw
  simp only [List.mem_cons, List.mem_nil_iff, or_false] at hiw
  have hden : 0 < 2 * R.p := by omega
  have h1 := fdiv_mul_le (2 * (S.edge a - R.o) + S.p - R.p) (2 * R.p) hden
  have h2 := fdiv_mul_gt (2 * (S.edge a - R.o) + S.p - R.p) (2 * R.p) hden
  generalize (2 * (S.edge a - R.o) + S.p - R.p) / (2 * R.p) = x at h1 h2 hiw
  have e1 : x * (2 * R.p) = 2 * (x * R.p) := by ring
  have e2 : (x + 1) * (2 * R.p) = 2 * (x * R.p) + 2 * R.p := by ring
  have e3 : (x + 1) * R.p = x * R.p + R.p := by ring
  have e4 : (x + 1 + 1) * R.p = x * R.p + 2 * R.p := by ring
  have m1 : W.lo * S.p ≤ w.lo * S.p := Int.mul_le_mul_of_nonneg_right hsub.1 (le_of_lt hS)
  have m2 : w.hi * S.p ≤ W.hi * S.p := Int.mul_le_mul_of_nonneg_right hsub.2 (le_of_lt hS)
  have m3 : w.lo * S.p ≤ a * S.p := Int.mul_le_mul_of_nonneg_right ha.1 (le_of_lt hS)
  have m4 : (a + 1) * S.p ≤ w.hi * S.p := Int.mul_le_mul_of_nonneg_right (by omega) (le_of_lt hS)
  have e5 : (a + 1) * S.p = a * S.p + S.p := by ring
  have m5 : w.lo + 1 ≤ a → w.lo * S.p + S.p ≤ a * S.p := by
    intro h
    have := Int.mul_le_mul_of_nonneg_right h (le_of_lt hS)
    have e : (w.lo + 1) * S.p = w.lo * S.p + S.p := by ring
    omega
  have m6 : a + 1 < w.hi → a * S.p + 2 * S.p ≤ w.hi * S.p := by
    intro h
    have : (a + 2) * S.p ≤ w.hi * S.p := Int.mul_le_mul_of_nonneg_right (by omega) (le_of_lt hS)
    have e : (a + 2) * S.p = a * S.p + 2 * S.p := by ring
    omega
  rcases hiw with rfl | rfl
  · right
    rw [mem_expandTo_iff S R hR w, mem_expandTo_iff S R hR W]
    simp only
    unfold Axis.edge at *
    rcases hlo with hlo | hlo
    · have := m5 hlo
      constructor <;> rintro ⟨_, _⟩ <;> constructor <;> omega
    · rw [hlo]
      constructor <;> rintro ⟨_, _⟩ <;> constructor <;> omega
  · simp only
    by_cases ht : 2 * (S.edge a - R.o) + S.p - R.p - x * (2 * R.p) = 0
    · left; exact ht
    · right
      rw [mem_expandTo_iff S R hR w, mem_expandTo_iff S R hR W]
      unfold Axis.edge at *
      rcases hhi with hhi | hhi
      · have := m6 hhi
        constructor <;> rintro ⟨_, _⟩ <;> constructor <;> omega
      · rw [hhi]
        constructor <;> rintro ⟨_, _⟩ <;> constructor <;> omega

/-- sum over the valid pixels of a separable support = sum over the whole support with 0 at the invalid pixels -/
theorem sum_filterMap_img (cols : List (Int × Int)) (f : Int → Option Rat) (w : Int) (g : Rat × Rat → Rat) :
    ((cols.filterMap fun kv => (f kv.1).map fun x => (((w * kv.2 : Int) : Rat), x)).map g).sum =
      (cols.map fun kv => match f kv.1 with
        | some x => g (((w * kv.2 : Int) : Rat), x)
        | none => 0).sum := by
  induction cols with
  | nil => simp
  | cons kv cols ih =>
    cases h : f kv.1 with
    | none => simp only [List.filterMap_cons, h, Option.map_none, List.map_cons, List.sum_cons, ih, zero_add]
    | some x => simp only [List.filterMap_cons, h, Option.map_some, List.map_cons, List.sum_cons, ih]

theorem sum_flatMap_filterMap_img (rows cols : List (Int × Int)) (img : ImgO) (g : Rat × Rat → Rat) :
    ((rows.flatMap fun iw => cols.filterMap fun kv =>
        (img iw.1 kv.1).map fun x => (((iw.2 * kv.2 : Int) : Rat), x)).map g).sum =
      (rows.map fun iw => (cols.map fun kv => match img iw.1 kv.1 with
        | some x => g (((iw.2 * kv.2 : Int) : Rat), x)
        | none => 0).sum).sum := by
  induction rows with
  | nil => simp
  | cons iw rows ih =>
    simp only [List.flatMap_cons, List.map_append, List.sum_append, List.map_cons, List.sum_cons, ih]
    rw [sum_filterMap_img cols (img iw.1) iw.2 g]

/-- the weighted mean over a separable support does not see the image where the weight is 0 -/
theorem sepmean_congr (rows cols : List (Int × Int)) (img1 img2 : ImgO)
    (h : ∀ iw ∈ rows, ∀ kv ∈ cols, img1 iw.1 kv.1 = img2 iw.1 kv.1 ∨ iw.2 * kv.2 = 0) :
    wmean (rows.flatMap fun iw => cols.filterMap fun kv =>
        (img1 iw.1 kv.1).map fun x => (((iw.2 * kv.2 : Int) : Rat), x)) =
      wmean (rows.flatMap fun iw => cols.filterMap fun kv =>
        (img2 iw.1 kv.1).map fun x => (((iw.2 * kv.2 : Int) : Rat), x)) := by
  unfold wmean
  rw [sum_flatMap_filterMap_img rows cols img1, sum_flatMap_filterMap_img rows cols img2,
    sum_flatMap_filterMap_img rows cols img1, sum_flatMap_filterMap_img rows cols img2]
  have key : ∀ g : Rat × Rat → Rat, (∀ x, g (0, x) = 0) →
      (rows.map fun iw => (cols.map fun kv => match img1 iw.1 kv.1 with
        | some x => g (((iw.2 * kv.2 : Int) : Rat), x)
        | none => 0).sum) =
      (rows.map fun iw => (cols.map fun kv => match img2 iw.1 kv.1 with
        | some x => g (((iw.2 * kv.2 : Int) : Rat), x)
        | none => 0).sum) := by
    intro g hg
    apply List.map_congr_left
    intro iw hiw
    congr 1
    apply List.map_congr_left
    intro kv hkv
    rcases h iw hiw kv hkv with e | e
    · rw [e]
    · rw [e]
      cases img1 iw.1 kv.1 <;> cases img2 iw.1 kv.1 <;> simp [hg]
  rw [key (fun p => p.1 * p.2) (by intro x; simp), key (fun p => p.1) (by intro x; simp)]

/-- at a source pixel of the window `(wr, wc) ⊆ (Wr, Wc)` that is one pixel away from the window's inner edges, `bilinear`
    gives the same on the reference restricted to the expansion of either window, provided a reference pixel is at most
    3 source pixels long along each axis -/
theorem bilinear2_restrict_agree (Sr Sc Rr Rc : Axis) (hSr : 0 < Sr.p) (hSc : 0 < Sc.p) (hRr : 0 < Rr.p) (hRc : 0 < Rc.p)
    (hratr : Rr.p ≤ 3 * Sr.p) (hratc : Rc.p ≤ 3 * Sc.p) (ref : ImgO) (wr wc Wr Wc : Win1)
    (hsubr : Wr.lo ≤ wr.lo ∧ wr.hi ≤ Wr.hi) (hsubc : Wc.lo ≤ wc.lo ∧ wc.hi ≤ Wc.hi) (jr jc : Int)
    (hjr : wr.lo ≤ jr ∧ jr < wr.hi) (hjc : wc.lo ≤ jc ∧ jc < wc.hi)
    (hlor : wr.lo + 1 ≤ jr ∨ wr.lo = Wr.lo) (hhir : jr + 1 < wr.hi ∨ wr.hi = Wr.hi)
    (hloc : wc.lo + 1 ≤ jc ∨ wc.lo = Wc.lo) (hhic : jc + 1 < wc.hi ∨ wc.hi = Wc.hi) :
    bilinear2 Rr Rc Sr Sc (ref.restrict (expandTo Sr Rr wr) (expandTo Sc Rc wc)) jr jc =
      bilinear2 Rr Rc Sr Sc (ref.restrict (expandTo Sr Rr Wr) (expandTo Sc Rc Wc)) jr jc := by
  have n1 := resample2_restrict_expand .nearest (by decide) Sr Sc Rr Rc hSr hSc hRr hRc ref wr wc jr jc hjr hjc
  have n2 := resample2_restrict_expand .nearest (by decide) Sr Sc Rr Rc hSr hSc hRr hRc ref Wr Wc jr jc
    ⟨by omega, by omega⟩ ⟨by omega, by omega⟩
  unfold resample2 at n1 n2
  simp only at n1 n2
  unfold bilinear2
  rw [n1, n2]
  cases nearest2 Rr Rc Sr Sc ref jr jc with
  | none => rfl
  | some v =>
    simp only
    apply sepmean_congr
    intro iw hiw kv hkv
    rcases bilin_support_restrict Sr Rr hSr hRr hratr wr Wr hsubr jr hjr hlor hhir iw hiw with h0 | hr
    · right; rw [h0]; ring
    rcases bilin_support_restrict Sc Rc hSc hRc hratc wc Wc hsubc jc hjc hloc hhic kv hkv with h0 | hc
    · right; rw [h0]; ring
    left
    unfold ImgO.restrict
    by_cases hcond : (expandTo Sr Rr wr).lo ≤ iw.1 ∧ iw.1 < (expandTo Sr Rr wr).hi ∧
        (expandTo Sc Rc wc).lo ≤ kv.1 ∧ kv.1 < (expandTo Sc Rc wc).hi
    · have h1 := hr.1 ⟨hcond.1, hcond.2.1⟩
      have h2 := hc.1 ⟨hcond.2.2.1, hcond.2.2.2⟩
      rw [if_pos hcond, if_pos ⟨h1.1, h1.2, h2.1, h2.2⟩]
    · rw [if_neg hcond, if_neg]
      rintro ⟨a1, a2, a3, a4⟩
      have h1 := hr.2 ⟨a1, a2⟩
      have h2 := hc.2 ⟨a3, a4⟩
      exact hcond ⟨h1.1, h1.2, h2.1, h2.2⟩

/-- the kernel window of a pixel of the output window stays at least one pixel away from those edges of the input window
    that are not edges of the processing window -/
theorem kernel_window_strictly_inside (A B s v : Int) (k : Nat) (hk : ((k / 2 : Nat) : Int) + 1 ≤ v) (j : Nat)
    (p : Int) (hp : (procOut A B s v j).lo ≤ p ∧ p < (procOut A B s v j).hi)
    (i : Int) (hi : p - ((k / 2 : Nat) : Int) ≤ i ∧ i ≤ p + ((k / 2 : Nat) : Int)) :
    ((procIn A B s v j).lo + 1 ≤ i ∨ (procIn A B s v j).lo = A) ∧
      (i + 1 < (procIn A B s v j).hi ∨ (procIn A B s v j).hi = B) := by
  have hv : 0 ≤ v := by omega
  rw [in_contains_out_plus_overlap_eq A B s v hv j]
  simp only
  omega

end Homonim
