/-
  Lemmas for Props/E2EWide.lean (4 x 4 up-sampling kernels).
-/
import Homonim.Model.Cubic
import Homonim.Lemmas.E2E
import Homonim.Lemmas.E2EMask
import Homonim.Lemmas.E2ELine
import Homonim.Props.E2E
import Mathlib.Tactic.Ring
import Mathlib.Tactic.Linarith
import Mathlib.Tactic.Positivity
namespace Homonim

/-! ### the two kernels -/

theorem cubicKernel_of_abs (x a : Rat) (ha : a = x ∨ a = -x) (h0 : 0 ≤ a) :
    cubicKernel x = if a ≤ 1 then 3 / 2 * a * a * a - 5 / 2 * a * a + 1
      else if a < 2 then -1 / 2 * a * a * a + 5 / 2 * a * a - 4 * a + 2 else 0 := by
  unfold cubicKernel
  have : (if x < 0 then -x else x) = a := by
    rcases ha with rfl | rfl
    · split_ifs with h
      · linarith
      · rfl
    · split_ifs with h
      · rfl
      · linarith
  simp only [this]

theorem bsplineKernel_of_abs (x a : Rat) (ha : a = x ∨ a = -x) (h0 : 0 ≤ a) :
    bsplineKernel x = if a ≤ 1 then 2 / 3 - a * a + a * a * a / 2
      else if a < 2 then (2 - a) * (2 - a) * (2 - a) / 6 else 0 := by
  unfold bsplineKernel
  have : (if x < 0 then -x else x) = a := by
    rcases ha with rfl | rfl
    · split_ifs with h
      · linarith
      · rfl
    · split_ifs with h
      · rfl
      · linarith
  simp only [this]

theorem cubicKernel_sum_one (f : Rat) (h0 : 0 ≤ f) (h1 : f < 1) :
    cubicKernel (-1 - f) + cubicKernel (0 - f) + cubicKernel (1 - f) + cubicKernel (2 - f) = 1 := by
  rw [cubicKernel_of_abs (-1 - f) (1 + f) (Or.inr (by ring)) (by linarith),
    cubicKernel_of_abs (0 - f) f (Or.inr (by ring)) h0,
    cubicKernel_of_abs (1 - f) (1 - f) (Or.inl rfl) (by linarith),
    cubicKernel_of_abs (2 - f) (2 - f) (Or.inl rfl) (by linarith)]
  rw [if_pos (by linarith : f ≤ 1), if_pos (by linarith : 1 - f ≤ 1)]
  by_cases hf : f = 0
  · subst hf; norm_num
  · have hf' : 0 < f := lt_of_le_of_ne h0 (Ne.symm hf)
    rw [if_neg (by linarith : ¬ (1 + f ≤ 1)), if_pos (by linarith : 1 + f < 2),
      if_neg (by linarith : ¬ (2 - f ≤ 1)), if_pos (by linarith : 2 - f < 2)]
    ring

theorem bsplineKernel_sum_one (f : Rat) (h0 : 0 ≤ f) (h1 : f < 1) :
    bsplineKernel (-1 - f) + bsplineKernel (0 - f) + bsplineKernel (1 - f) + bsplineKernel (2 - f) = 1 := by
  rw [bsplineKernel_of_abs (-1 - f) (1 + f) (Or.inr (by ring)) (by linarith),
    bsplineKernel_of_abs (0 - f) f (Or.inr (by ring)) h0,
    bsplineKernel_of_abs (1 - f) (1 - f) (Or.inl rfl) (by linarith),
    bsplineKernel_of_abs (2 - f) (2 - f) (Or.inl rfl) (by linarith)]
  rw [if_pos (by linarith : f ≤ 1), if_pos (by linarith : 1 - f ≤ 1)]
  by_cases hf : f = 0
  · subst hf; norm_num
  · have hf' : 0 < f := lt_of_le_of_ne h0 (Ne.symm hf)
    rw [if_neg (by linarith : ¬ (1 + f ≤ 1)), if_pos (by linarith : 1 + f < 2),
      if_neg (by linarith : ¬ (2 - f ≤ 1)), if_pos (by linarith : 2 - f < 2)]
    ring

theorem bsplineKernel_nonneg (x : Rat) : 0 ≤ bsplineKernel x := by
  unfold bsplineKernel
  simp only
  have ha : 0 ≤ (if x < 0 then -x else x) := by split_ifs <;> linarith
  generalize (if x < 0 then -x else x) = a at ha
  split_ifs with h1 h2
  · have e : 2 / 3 - a * a + a * a * a / 2 = 1 / 6 + (1 - a) * (1 + a * (1 - a)) / 2 := by ring
    rw [e]
    have : 0 ≤ 1 - a := by linarith
    positivity
  · have : 0 ≤ 2 - a := by linarith
    positivity
  · exact le_refl 0

/-- strictly positive inside the support -/
theorem bsplineKernel_pos (x : Rat) (hx1 : -2 < x) (hx2 : x < 2) : 0 < bsplineKernel x := by
  unfold bsplineKernel
  simp only
  have ha : 0 ≤ (if x < 0 then -x else x) := by split_ifs <;> linarith
  have hb : (if x < 0 then -x else x) < 2 := by split_ifs <;> linarith
  generalize (if x < 0 then -x else x) = a at ha hb
  split_ifs with h1
  · have e : 2 / 3 - a * a + a * a * a / 2 = 1 / 6 + (1 - a) * (1 + a * (1 - a)) / 2 := by ring
    rw [e]
    have : 0 ≤ 1 - a := by linarith
    positivity
  · have : 0 < 2 - a := by linarith
    positivity


/-! ### the 1-D support -/

/-- first index of the bilinear support = second index of the 4-support -/
def wideI0 (S D : Axis) (j : Int) : Int := (2 * (D.edge j - S.o) + D.p - S.p) / (2 * S.p)

/-- sub-pixel position of the destination centre -/
def wideF (S D : Axis) (j : Int) : Rat :=
  ((2 * (D.edge j - S.o) + D.p - S.p - wideI0 S D j * (2 * S.p) : Int) : Rat) / ((2 * S.p : Int) : Rat)

theorem wideWeights1_eq (k : Rat → Rat) (S D : Axis) (j : Int) :
    wideWeights1 k S D j =
      [(wideI0 S D j - 1, k (-1 - wideF S D j)), (wideI0 S D j, k (0 - wideF S D j)),
       (wideI0 S D j + 1, k (1 - wideF S D j)), (wideI0 S D j + 2, k (2 - wideF S D j))] := rfl

theorem wideF_range (S D : Axis) (hS : 0 < S.p) (j : Int) : 0 ≤ wideF S D j ∧ wideF S D j < 1 := by
  unfold wideF wideI0
  have hden : 0 < 2 * S.p := by omega
  have h1 := fdiv_mul_le (2 * (D.edge j - S.o) + D.p - S.p) (2 * S.p) hden
  have h2 := fdiv_mul_gt (2 * (D.edge j - S.o) + D.p - S.p) (2 * S.p) hden
  generalize (2 * (D.edge j - S.o) + D.p - S.p) / (2 * S.p) = q at h1 h2 ⊢
  generalize 2 * (D.edge j - S.o) + D.p - S.p = m at h1 h2 ⊢
  generalize 2 * S.p = d at hden h1 h2 ⊢
  have e : (q + 1) * d = q * d + d := by ring
  rw [e] at h2
  have hd : (0 : Rat) < ((d : Int) : Rat) := by exact_mod_cast hden
  constructor
  · apply div_nonneg
    · have : 0 ≤ m - q * d := by omega
      exact_mod_cast this
    · exact le_of_lt hd
  · rw [div_lt_one hd]
    have : m - q * d < d := by omega
    exact_mod_cast this

theorem mem_wideWeights1_fst (k : Rat → Rat) (S D : Axis) (j : Int) (iw : Int × Rat) (h : iw ∈ wideWeights1 k S D j) :
    wideI0 S D j - 1 ≤ iw.1 ∧ iw.1 ≤ wideI0 S D j + 2 := by
  rw [wideWeights1_eq] at h
  simp only [List.mem_cons, List.mem_nil_iff, or_false] at h
  rcases h with rfl | rfl | rfl | rfl <;> simp only <;> omega

theorem mem_bilinWeights1_fst (S D : Axis) (j : Int) (iw : Int × Int) (h : iw ∈ bilinWeights1 S D j) :
    iw.1 = wideI0 S D j ∨ iw.1 = wideI0 S D j + 1 := by
  unfold bilinWeights1 at h
  simp only [List.mem_cons, List.mem_nil_iff, or_false] at h
  rcases h with rfl | rfl
  · exact Or.inl rfl
  · exact Or.inr rfl

/-- the pixel containing the centre is the second or the third pixel of the 4-support -/
theorem nearestIdx_cases (S D : Axis) (hS : 0 < S.p) (j : Int) :
    nearestIdx S D j = wideI0 S D j ∨ nearestIdx S D j = wideI0 S D j + 1 := by
  obtain ⟨w, _, hmem⟩ := nearest_mem_bilinWeights1 S D hS j
  exact mem_bilinWeights1_fst S D j _ hmem

theorem nearest_mem_wideWeights1 (k : Rat → Rat) (S D : Axis) (hS : 0 < S.p) (j : Int) :
    ∃ w, (nearestIdx S D j, w) ∈ wideWeights1 k S D j := by
  rw [wideWeights1_eq]
  rcases nearestIdx_cases S D hS j with h | h <;> rw [h]
  · exact ⟨_, List.mem_cons_of_mem _ List.mem_cons_self⟩
  · exact ⟨_, List.mem_cons_of_mem _ (List.mem_cons_of_mem _ List.mem_cons_self)⟩

theorem bspline_weight_nonneg (S D : Axis) (j : Int) (iw : Int × Rat) (h : iw ∈ wideWeights1 bsplineKernel S D j) :
    0 ≤ iw.2 := by
  rw [wideWeights1_eq] at h
  simp only [List.mem_cons, List.mem_nil_iff, or_false] at h
  rcases h with rfl | rfl | rfl | rfl <;> exact bsplineKernel_nonneg _

theorem nearest_mem_wideWeights1_bspline (S D : Axis) (hS : 0 < S.p) (j : Int) :
    ∃ w, 0 < w ∧ (nearestIdx S D j, w) ∈ wideWeights1 bsplineKernel S D j := by
  rw [wideWeights1_eq]
  obtain ⟨f0, f1⟩ := wideF_range S D hS j
  rcases nearestIdx_cases S D hS j with h | h <;> rw [h]
  · exact ⟨_, bsplineKernel_pos _ (by linarith) (by linarith), List.mem_cons_of_mem _ List.mem_cons_self⟩
  · exact ⟨_, bsplineKernel_pos _ (by linarith) (by linarith),
      List.mem_cons_of_mem _ (List.mem_cons_of_mem _ List.mem_cons_self)⟩

/-! ### the 2-D support list with rational weights -/

def suppQ (wr wc : List (Int × Rat)) (img : ImgO) : List (Rat × Rat) :=
  wr.flatMap fun iw => wc.filterMap fun kv => (img iw.1 kv.1).map fun x => (iw.2 * kv.2, x)

theorem mem_suppQ (wr wc : List (Int × Rat)) (img : ImgO) (q : Rat × Rat) :
    q ∈ suppQ wr wc img ↔
      ∃ iw ∈ wr, ∃ kv ∈ wc, ∃ x, img iw.1 kv.1 = some x ∧ q = (iw.2 * kv.2, x) := by
  unfold suppQ
  simp only [List.mem_flatMap, List.mem_filterMap, Option.map_eq_some_iff]
  constructor
  · rintro ⟨iw, hiw, kv, hkv, x, hx, rfl⟩; exact ⟨iw, hiw, kv, hkv, x, hx, rfl⟩
  · rintro ⟨iw, hiw, kv, hkv, x, hx, rfl⟩; exact ⟨iw, hiw, kv, hkv, x, hx, rfl⟩

theorem suppQ_congr (wr wc : List (Int × Rat)) (img1 img2 : ImgO)
    (h : ∀ iw ∈ wr, ∀ kv ∈ wc, img1 iw.1 kv.1 = img2 iw.1 kv.1) : suppQ wr wc img1 = suppQ wr wc img2 := by
  unfold suppQ
  apply List.flatMap_congr
  intro iw hiw
  apply List.filterMap_congr
  intro kv hkv
  rw [h iw hiw kv hkv]

theorem cubicSpline2_eq (Sr Sc Dr Dc : Axis) (img : ImgO) (jr jc : Int) :
    cubicSpline2 Sr Sc Dr Dc img jr jc =
      match nearest2 Sr Sc Dr Dc img jr jc with
      | none => none
      | some _ => wmean (suppQ (wideWeights1 bsplineKernel Sr Dr jr) (wideWeights1 bsplineKernel Sc Dc jc) img) := rfl

/-! ### validity -/

theorem bilinear2_isSome (Sr Sc Dr Dc : Axis) (hSr : 0 < Sr.p) (hSc : 0 < Sc.p) (img : ImgO) (jr jc : Int) :
    (bilinear2 Sr Sc Dr Dc img jr jc).isSome = (nearest2 Sr Sc Dr Dc img jr jc).isSome := by
  cases hn : nearest2 Sr Sc Dr Dc img jr jc with
  | none => unfold bilinear2; rw [hn]
  | some v =>
    have := resample2_isSome .bilinear (by decide) Sr Sc Dr Dc hSr hSc img jr jc (by
      unfold nearest2 at hn; rw [hn]; rfl)
    exact this

theorem resampleWide_isSome (m : Wide) (Sr Sc Dr Dc : Axis) (hSr : 0 < Sr.p) (hSc : 0 < Sc.p) (img : ImgO) (jr jc : Int) :
    (resampleWide m Sr Sc Dr Dc img jr jc).isSome = (nearest2 Sr Sc Dr Dc img jr jc).isSome := by
  cases m with
  | cubic =>
    show (cubic2 Sr Sc Dr Dc img jr jc).isSome = _
    unfold cubic2
    simp only
    split_ifs with hall
    · simp only [List.all_eq_true] at hall
      obtain ⟨wr, hwr⟩ := nearest_mem_wideWeights1 cubicKernel Sr Dr hSr jr
      obtain ⟨wc, hwc⟩ := nearest_mem_wideWeights1 cubicKernel Sc Dc hSc jc
      have := hall _ hwr _ hwc
      unfold nearest2
      rw [this]; rfl
    · exact bilinear2_isSome Sr Sc Dr Dc hSr hSc img jr jc
  | cubicSpline =>
    show (cubicSpline2 Sr Sc Dr Dc img jr jc).isSome = _
    rw [cubicSpline2_eq]
    cases hn : nearest2 Sr Sc Dr Dc img jr jc with
    | none => rfl
    | some v =>
      obtain ⟨wr, hwrp, hwr⟩ := nearest_mem_wideWeights1_bspline Sr Dr hSr jr
      obtain ⟨wc, hwcp, hwc⟩ := nearest_mem_wideWeights1_bspline Sc Dc hSc jc
      show (wmean _).isSome = true
      apply wmean_isSome_of_nonneg
      · intro q hq
        obtain ⟨iw, hiw, kv, hkv, x, _, rfl⟩ := (mem_suppQ _ _ _ _).mp hq
        exact mul_nonneg (bspline_weight_nonneg _ _ _ _ hiw) (bspline_weight_nonneg _ _ _ _ hkv)
      · exact ⟨(wr * wc, v), (mem_suppQ _ _ _ _).mpr ⟨(_, wr), hwr, (_, wc), hwc, v, hn, rfl⟩, mul_pos hwrp hwcp⟩


/-! ### congruence on the support -/

theorem all2_congr {α β : Type} (wr : List α) (wc : List β) (f g : α → β → Bool)
    (h : ∀ a ∈ wr, ∀ b ∈ wc, f a b = g a b) :
    (wr.all fun a => wc.all fun b => f a b) = (wr.all fun a => wc.all fun b => g a b) := by
  apply Bool.eq_iff_iff.mpr
  simp only [List.all_eq_true]
  constructor
  · intro H a ha b hb; rw [← h a ha b hb]; exact H a ha b hb
  · intro H a ha b hb; rw [h a ha b hb]; exact H a ha b hb

/-- the 4 x 4 kernels read the image only on the 4 x 4 support -/
theorem resampleWide_congr (m : Wide) (Sr Sc Dr Dc : Axis) (hSr : 0 < Sr.p) (hSc : 0 < Sc.p) (img1 img2 : ImgO)
    (jr jc : Int)
    (himg : ∀ a b, wideI0 Sr Dr jr - 1 ≤ a ∧ a ≤ wideI0 Sr Dr jr + 2 →
      wideI0 Sc Dc jc - 1 ≤ b ∧ b ≤ wideI0 Sc Dc jc + 2 → img1 a b = img2 a b) :
    resampleWide m Sr Sc Dr Dc img1 jr jc = resampleWide m Sr Sc Dr Dc img2 jr jc := by
  have hnr : wideI0 Sr Dr jr - 1 ≤ nearestIdx Sr Dr jr ∧ nearestIdx Sr Dr jr ≤ wideI0 Sr Dr jr + 2 := by
    rcases nearestIdx_cases Sr Dr hSr jr with h | h <;> omega
  have hnc : wideI0 Sc Dc jc - 1 ≤ nearestIdx Sc Dc jc ∧ nearestIdx Sc Dc jc ≤ wideI0 Sc Dc jc + 2 := by
    rcases nearestIdx_cases Sc Dc hSc jc with h | h <;> omega
  have hsup : ∀ (k : Rat → Rat), ∀ iw ∈ wideWeights1 k Sr Dr jr, ∀ kv ∈ wideWeights1 k Sc Dc jc,
      img1 iw.1 kv.1 = img2 iw.1 kv.1 :=
    fun k iw hiw kv hkv => himg _ _ (mem_wideWeights1_fst _ _ _ _ _ hiw) (mem_wideWeights1_fst _ _ _ _ _ hkv)
  cases m with
  | cubic =>
    show cubic2 Sr Sc Dr Dc img1 jr jc = cubic2 Sr Sc Dr Dc img2 jr jc
    have hc : ((wideWeights1 cubicKernel Sr Dr jr).all fun iw => (wideWeights1 cubicKernel Sc Dc jc).all fun kv =>
          (img1 iw.1 kv.1).isSome) =
        ((wideWeights1 cubicKernel Sr Dr jr).all fun iw => (wideWeights1 cubicKernel Sc Dc jc).all fun kv =>
          (img2 iw.1 kv.1).isSome) :=
      all2_congr (wideWeights1 cubicKernel Sr Dr jr) (wideWeights1 cubicKernel Sc Dc jc)
        (fun iw kv => (img1 iw.1 kv.1).isSome) (fun iw kv => (img2 iw.1 kv.1).isSome)
        (fun iw hiw kv hkv => by rw [hsup cubicKernel iw hiw kv hkv])
    have hsum : ((wideWeights1 cubicKernel Sr Dr jr).flatMap fun iw => (wideWeights1 cubicKernel Sc Dc jc).map fun kv =>
          iw.2 * kv.2 * (img1 iw.1 kv.1).getD 0) =
        ((wideWeights1 cubicKernel Sr Dr jr).flatMap fun iw => (wideWeights1 cubicKernel Sc Dc jc).map fun kv =>
          iw.2 * kv.2 * (img2 iw.1 kv.1).getD 0) := by
      apply List.flatMap_congr
      intro iw hiw
      apply List.map_congr_left
      intro kv hkv
      rw [hsup cubicKernel iw hiw kv hkv]
    have hbil : bilinear2 Sr Sc Dr Dc img1 jr jc = bilinear2 Sr Sc Dr Dc img2 jr jc :=
      resample2_congr .bilinear (by decide) Sr Sc Dr Dc img1 img2 jr jc _ _ _ _ hnr hnc
        (fun iw hiw => by rcases mem_bilinWeights1_fst _ _ _ _ hiw with h | h <;> omega)
        (fun iw hiw => by rcases mem_bilinWeights1_fst _ _ _ _ hiw with h | h <;> omega) himg
    unfold cubic2
    simp only
    rw [hc, hsum, hbil]
  | cubicSpline =>
    show cubicSpline2 Sr Sc Dr Dc img1 jr jc = cubicSpline2 Sr Sc Dr Dc img2 jr jc
    rw [cubicSpline2_eq, cubicSpline2_eq]
    unfold nearest2
    rw [himg _ _ hnr hnc, suppQ_congr _ _ img1 img2 (hsup bsplineKernel)]

/-! ### the parameters outside the processing window -/

theorem fitAt_of_not_m (b : Block) (model : Model) (kh kw : Nat) (fr : Bool) (th : Option ℚ) (n0 n1 : ℚ)
    (oF : Nat → Nat → Option ℚ) (r c : Nat) (hm : b.m r c = false) :
    fitAt b model kh kw fr th n0 n1 oF r c = none := by
  unfold fitAt
  simp [hm]

theorem params_none_outside_rows (p : ImagePair) (hSr : 0 < p.Sr.p) (hRr : 0 < p.Rr.p) (model : Model) (kh kw : Nat)
    (n0 n1 : Rat) (i j : Int) (hi : ¬ ((refWin p.Sr p.Rr).lo ≤ i ∧ i < (refWin p.Sr p.Rr).hi)) :
    p.params model kh kw n0 n1 i j = none := by
  unfold ImagePair.params
  split_ifs with hin
  · have hi' : ((i.toNat : Nat) : Int) = i := by omega
    apply fitAt_of_not_m
    unfold Block.m ImagePair.block
    simp only
    rw [hi']
    have : p.srcDs i (j.toNat : Int) = none :=
      avg2_outside_rows _ _ _ _ _ _ _ (avgWeights1_outside p.Sr p.Rr hSr hRr i hi)
    rw [this]; rfl
  · rfl

theorem params_none_outside_cols (p : ImagePair) (hSc : 0 < p.Sc.p) (hRc : 0 < p.Rc.p) (model : Model) (kh kw : Nat)
    (n0 n1 : Rat) (i j : Int) (hj : ¬ ((refWin p.Sc p.Rc).lo ≤ j ∧ j < (refWin p.Sc p.Rc).hi)) :
    p.params model kh kw n0 n1 i j = none := by
  unfold ImagePair.params
  split_ifs with hin
  · have hj' : ((j.toNat : Nat) : Int) = j := by omega
    apply fitAt_of_not_m
    unfold Block.m ImagePair.block
    simp only
    rw [hj']
    have : p.srcDs (i.toNat : Int) j = none :=
      avg2_outside_cols _ _ _ _ _ _ _ (avgWeights1_outside p.Sc p.Rc hSc hRc j hj)
    rw [this]; rfl
  · rfl

/-! ### block transparency -/

theorem correctedWide_congr (p q : ImagePair) (hSr : q.Sr = p.Sr) (hSc : q.Sc = p.Sc) (hRr : q.Rr = p.Rr)
    (hRc : q.Rc = p.Rc) (model : Model) (kh kw : Nat) (n0 n1 : Rat) (ups : Wide) (r c : Int)
    (hsrc : q.src r c = p.src r c)
    (hg : resampleWide ups p.Rr p.Rc p.Sr p.Sc (q.gainImg model kh kw n0 n1) r c =
      resampleWide ups p.Rr p.Rc p.Sr p.Sc (p.gainImg model kh kw n0 n1) r c)
    (ho : resampleWide ups p.Rr p.Rc p.Sr p.Sc (q.offsetImg model kh kw n0 n1) r c =
      resampleWide ups p.Rr p.Rc p.Sr p.Sc (p.offsetImg model kh kw n0 n1) r c) :
    q.correctedWide model kh kw n0 n1 ups r c = p.correctedWide model kh kw n0 n1 ups r c := by
  unfold ImagePair.correctedWide
  rw [hSr, hSc, hRr, hRc, hsrc, hg, ho]

/-- block transparency for abstract windows, away from the seams (cf. `block_transparent_core`) -/
theorem block_transparent_wide_core (p : ImagePair) (hSr : 0 < p.Sr.p) (hSc : 0 < p.Sc.p) (hRr : 0 < p.Rr.p)
    (hRc : 0 < p.Rc.p) (model : Model) (kh kw : Nat) (n0 n1 : Rat) (ups : Wide)
    (pinR poutR pinC poutC : Win1)
    (hsubR : pinR.lo ≤ poutR.lo ∧ poutR.hi ≤ pinR.hi) (hsubC : pinC.lo ≤ poutC.lo ∧ poutC.hi ≤ pinC.hi)
    (HR : ∀ i a : Int, poutR.lo - 1 ≤ i ∧ i ≤ poutR.hi →
      i - ((kh / 2 : Nat) : Int) ≤ a ∧ a ≤ i + ((kh / 2 : Nat) : Int) →
      ((refWin p.Sr p.Rr).lo ≤ a ∧ a < (refWin p.Sr p.Rr).hi) → (pinR.lo ≤ a ∧ a < pinR.hi))
    (HC : ∀ j b : Int, poutC.lo - 1 ≤ j ∧ j ≤ poutC.hi →
      j - ((kw / 2 : Nat) : Int) ≤ b ∧ b ≤ j + ((kw / 2 : Nat) : Int) →
      ((refWin p.Sc p.Rc).lo ≤ b ∧ b < (refWin p.Sc p.Rc).hi) → (pinC.lo ≤ b ∧ b < pinC.hi))
    (r c : Int) (hr : (roundTo p.Rr p.Sr poutR).lo ≤ r ∧ r < (roundTo p.Rr p.Sr poutR).hi)
    (hc : (roundTo p.Rc p.Sc poutC).lo ≤ c ∧ c < (roundTo p.Rc p.Sc poutC).hi)
    (hir : (poutR.lo = (refWin p.Sr p.Rr).lo ∨ poutR.lo + 1 ≤ nearestIdx p.Rr p.Sr r) ∧
           (poutR.hi = (refWin p.Sr p.Rr).hi ∨ nearestIdx p.Rr p.Sr r + 2 ≤ poutR.hi))
    (hic : (poutC.lo = (refWin p.Sc p.Rc).lo ∨ poutC.lo + 1 ≤ nearestIdx p.Rc p.Sc c) ∧
           (poutC.hi = (refWin p.Sc p.Rc).hi ∨ nearestIdx p.Rc p.Sc c + 2 ≤ poutC.hi)) :
    (p.restrictTo pinR pinC).correctedWide model kh kw n0 n1 ups r c = p.correctedWide model kh kw n0 n1 ups r c := by
  -- parameters agree at every reference pixel near the output window, and at every one outside the processing window
  have hparams : ∀ i j : Int,
      ((poutR.lo - 1 ≤ i ∧ i ≤ poutR.hi) ∨ ¬ ((refWin p.Sr p.Rr).lo ≤ i ∧ i < (refWin p.Sr p.Rr).hi)) →
      ((poutC.lo - 1 ≤ j ∧ j ≤ poutC.hi) ∨ ¬ ((refWin p.Sc p.Rc).lo ≤ j ∧ j < (refWin p.Sc p.Rc).hi)) →
      (p.restrictTo pinR pinC).params model kh kw n0 n1 i j = p.params model kh kw n0 n1 i j := by
    intro i j hi hj
    by_cases hiR : (refWin p.Sr p.Rr).lo ≤ i ∧ i < (refWin p.Sr p.Rr).hi
    · by_cases hjR : (refWin p.Sc p.Rc).lo ≤ j ∧ j < (refWin p.Sc p.Rc).hi
      · have hi' := hi.resolve_right (not_not_intro hiR)
        have hj' := hj.resolve_right (not_not_intro hjR)
        exact restrict_params_agree p hSr hSc hRr hRc pinR pinC model kh kw n0 n1 i j
          (fun a ha => HR i a hi' ha) (fun b hb => HC j b hj' hb)
      · rw [params_none_outside_cols p hSc hRc model kh kw n0 n1 i j hjR]
        exact params_none_outside_cols (p.restrictTo pinR pinC) hSc hRc model kh kw n0 n1 i j hjR
    · rw [params_none_outside_rows p hSr hRr model kh kw n0 n1 i j hiR]
      exact params_none_outside_rows (p.restrictTo pinR pinC) hSr hRr model kh kw n0 n1 i j hiR
  obtain ⟨hnr, _⟩ := support_near_window p.Sr p.Rr hSr hRr poutR r hr
  obtain ⟨hnc, _⟩ := support_near_window p.Sc p.Rc hSc hRc poutC c hc
  have hrin := round_subset_expand p.Rr p.Sr hRr hSr pinR poutR hsubR r hr
  have hcin := round_subset_expand p.Rc p.Sc hRc hSc pinC poutC hsubC c hc
  have hgr : ∀ a : Int, wideI0 p.Rr p.Sr r - 1 ≤ a ∧ a ≤ wideI0 p.Rr p.Sr r + 2 →
      ((poutR.lo - 1 ≤ a ∧ a ≤ poutR.hi) ∨ ¬ ((refWin p.Sr p.Rr).lo ≤ a ∧ a < (refWin p.Sr p.Rr).hi)) := by
    intro a ha
    rcases nearestIdx_cases p.Rr p.Sr hRr r with h | h <;> omega
  have hgc : ∀ b : Int, wideI0 p.Rc p.Sc c - 1 ≤ b ∧ b ≤ wideI0 p.Rc p.Sc c + 2 →
      ((poutC.lo - 1 ≤ b ∧ b ≤ poutC.hi) ∨ ¬ ((refWin p.Sc p.Rc).lo ≤ b ∧ b < (refWin p.Sc p.Rc).hi)) := by
    intro b hb
    rcases nearestIdx_cases p.Rc p.Sc hRc c with h | h <;> omega
  apply correctedWide_congr p (p.restrictTo pinR pinC) rfl rfl rfl rfl
  · show (p.src.restrict (expandTo p.Rr p.Sr pinR) (expandTo p.Rc p.Sc pinC)) r c = p.src r c
    unfold ImgO.restrict
    rw [if_pos ⟨hrin.1, hrin.2, hcin.1, hcin.2⟩]
  · apply resampleWide_congr ups _ _ _ _ hRr hRc
    intro a b ha hb
    unfold ImagePair.gainImg
    rw [hparams a b (hgr a ha) (hgc b hb)]
  · apply resampleWide_congr ups _ _ _ _ hRr hRc
    intro a b ha hb
    unfold ImagePair.offsetImg
    rw [hparams a b (hgr a ha) (hgc b hb)]

theorem block_transparent_wide_aux (p : ImagePair) (hSr : 0 < p.Sr.p) (hSc : 0 < p.Sc.p) (hRr : 0 < p.Rr.p) (hRc : 0 < p.Rc.p)
    (model : Model) (kh kw : Nat) (n0 n1 : Rat) (ups : Wide)
    (sr sc vr vc : Int) (hvr : ((kh / 2 : Nat) : Int) + 1 ≤ vr) (hvc : ((kw / 2 : Nat) : Int) + 1 ≤ vc)
    (kr kc : Nat)
    (r c : Int) (hr : (p.blockRows sr vr kr).oout.lo ≤ r ∧ r < (p.blockRows sr vr kr).oout.hi)
    (hc : (p.blockCols sc vc kc).oout.lo ≤ c ∧ c < (p.blockCols sc vc kc).oout.hi)
    (hir : ((p.blockRows sr vr kr).pout.lo = (refWin p.Sr p.Rr).lo ∨ (p.blockRows sr vr kr).pout.lo + 1 ≤ nearestIdx p.Rr p.Sr r) ∧
           ((p.blockRows sr vr kr).pout.hi = (refWin p.Sr p.Rr).hi ∨ nearestIdx p.Rr p.Sr r + 2 ≤ (p.blockRows sr vr kr).pout.hi))
    (hic : ((p.blockCols sc vc kc).pout.lo = (refWin p.Sc p.Rc).lo ∨ (p.blockCols sc vc kc).pout.lo + 1 ≤ nearestIdx p.Rc p.Sc c) ∧
           ((p.blockCols sc vc kc).pout.hi = (refWin p.Sc p.Rc).hi ∨ nearestIdx p.Rc p.Sc c + 2 ≤ (p.blockCols sc vc kc).pout.hi)) :
    p.correctedWideByBlock model kh kw n0 n1 ups sr sc vr vc kr kc r c = p.correctedWide model kh kw n0 n1 ups r c := by
  have hvr0 : 0 ≤ vr := by omega
  have hvc0 : 0 ≤ vc := by omega
  exact block_transparent_wide_core p hSr hSc hRr hRc model kh kw n0 n1 ups
    (procIn (refWin p.Sr p.Rr).lo (refWin p.Sr p.Rr).hi sr vr kr)
    (procOut (refWin p.Sr p.Rr).lo (refWin p.Sr p.Rr).hi sr vr kr)
    (procIn (refWin p.Sc p.Rc).lo (refWin p.Sc p.Rc).hi sc vc kc)
    (procOut (refWin p.Sc p.Rc).lo (refWin p.Sc p.Rc).hi sc vc kc)
    (in_contains_out_plus_overlap_aux _ _ sr vr hvr0 kr)
    (in_contains_out_plus_overlap_aux _ _ sc vc hvc0 kc)
    (fun i a hi ha hab => kernel_window_inside_in_block _ _ sr vr kh hvr kr i hi a ha hab)
    (fun j b hj hb hab => kernel_window_inside_in_block _ _ sc vc kw hvc kc j hj b hb hab)
    r c hr hc hir hic

/-- a pair, and a source row, for the seam counterexample: a 16 x 4 source (constant 1) on an 8 x 2 reference of twice the
    pixel size whose value grows with the row; with 4-row blocks and overlap 2, block 0 outputs reference rows 0..3 and reads
    rows 0..5, so the gain of reference row 5 (3 x 3 kernel: rows 4..6) is fitted by the block from rows 4, 5 only; source
    row 7 (centre in reference row 3, the last of the output window) has the B-spline support rows 2..5 -/
def wideSeamPair : ImagePair :=
  { Sr := ⟨0, 1, 16⟩, Sc := ⟨0, 1, 4⟩, Rr := ⟨0, 2, 8⟩, Rc := ⟨0, 2, 2⟩
    src := fun r c => if 0 ≤ r ∧ r < 16 ∧ 0 ≤ c ∧ c < 4 then some 1 else none
    ref := fun i j => if 0 ≤ i ∧ i < 8 ∧ 0 ≤ j ∧ j < 2 then some (i + 1) else none }
def wideSeamRow : Int := 7

/-- the witness violates exactly the seam hypothesis of `block_transparent_wide`: every other hypothesis holds (positive pixel
    sizes, overlap 2 ≥ 3/2 + 1, the pixel is in block (0, 0)'s output window, `hic`, the first half of `hir`), the reference
    row containing the centre of source row 7 is row 3 = the last row of the block's output window `[0, 4)`, and another
    block follows (the processing window is `[0, 8)`) -/
theorem wideSeam_hypotheses :
    0 < wideSeamPair.Sr.p ∧ 0 < wideSeamPair.Sc.p ∧ 0 < wideSeamPair.Rr.p ∧ 0 < wideSeamPair.Rc.p ∧
    ((3 / 2 : Nat) : Int) + 1 ≤ 2 ∧
    ((wideSeamPair.blockRows 4 2 0).oout.lo ≤ wideSeamRow ∧ wideSeamRow < (wideSeamPair.blockRows 4 2 0).oout.hi) ∧
    ((wideSeamPair.blockCols 8 2 0).oout.lo ≤ 2 ∧ 2 < (wideSeamPair.blockCols 8 2 0).oout.hi) ∧
    (wideSeamPair.blockRows 4 2 0).pout.lo = (refWin wideSeamPair.Sr wideSeamPair.Rr).lo ∧
    (wideSeamPair.blockCols 8 2 0).pout.lo = (refWin wideSeamPair.Sc wideSeamPair.Rc).lo ∧
    (wideSeamPair.blockCols 8 2 0).pout.hi = (refWin wideSeamPair.Sc wideSeamPair.Rc).hi ∧
    nearestIdx wideSeamPair.Rr wideSeamPair.Sr wideSeamRow + 1 = (wideSeamPair.blockRows 4 2 0).pout.hi ∧
    (wideSeamPair.blockRows 4 2 0).pout.hi < (refWin wideSeamPair.Sr wideSeamPair.Rr).hi ∧
    1 < nBlocks (refWin wideSeamPair.Sr wideSeamPair.Rr).lo (refWin wideSeamPair.Sr wideSeamPair.Rr).hi 4 := by
  decide

/-! ### the mask -/

theorem correctedWide_isSome_eq_nearest (p : ImagePair) (hRr : 0 < p.Rr.p) (hRc : 0 < p.Rc.p)
    (model : Model) (kh kw : Nat) (n0 n1 : Rat) (ups : Wide) (r c : Int) :
    (p.correctedWide model kh kw n0 n1 ups r c).isSome = (p.corrected model kh kw n0 n1 .nearest r c).isSome := by
  have hg := resampleWide_isSome ups p.Rr p.Rc p.Sr p.Sc hRr hRc (p.gainImg model kh kw n0 n1) r c
  have ho := resampleWide_isSome ups p.Rr p.Rc p.Sr p.Sc hRr hRc (p.offsetImg model kh kw n0 n1) r c
  unfold ImagePair.correctedWide ImagePair.corrected
  cases p.src r c with
  | none => rfl
  | some x =>
    simp only
    show _ = (match nearest2 p.Rr p.Rc p.Sr p.Sc (p.gainImg model kh kw n0 n1) r c,
        nearest2 p.Rr p.Rc p.Sr p.Sc (p.offsetImg model kh kw n0 n1) r c with
      | some g, some o => some (g * x + o)
      | _, _ => none).isSome
    revert hg ho
    generalize resampleWide ups p.Rr p.Rc p.Sr p.Sc (p.gainImg model kh kw n0 n1) r c = a
    generalize resampleWide ups p.Rr p.Rc p.Sr p.Sc (p.offsetImg model kh kw n0 n1) r c = b
    generalize nearest2 p.Rr p.Rc p.Sr p.Sc (p.gainImg model kh kw n0 n1) r c = a'
    generalize nearest2 p.Rr p.Rc p.Sr p.Sc (p.offsetImg model kh kw n0 n1) r c = b'
    intro hg ho
    cases a <;> cases b <;> cases a' <;> cases b' <;> simp_all

theorem block_mask_eq_whole_wide_aux (p : ImagePair) (hSr : 0 < p.Sr.p) (hSc : 0 < p.Sc.p) (hRr : 0 < p.Rr.p) (hRc : 0 < p.Rc.p)
    (model : Model) (kh kw : Nat) (n0 n1 : Rat) (ups : Wide)
    (sr sc vr vc : Int) (hvr : ((kh / 2 : Nat) : Int) + 1 ≤ vr) (hvc : ((kw / 2 : Nat) : Int) + 1 ≤ vc) (kr kc : Nat)
    (r c : Int) (hr : (p.blockRows sr vr kr).oout.lo ≤ r ∧ r < (p.blockRows sr vr kr).oout.hi)
    (hc : (p.blockCols sc vc kc).oout.lo ≤ c ∧ c < (p.blockCols sc vc kc).oout.hi) :
    (p.correctedWideByBlock model kh kw n0 n1 ups sr sc vr vc kr kc r c).isSome
      = (p.correctedWide model kh kw n0 n1 ups r c).isSome := by
  have h := block_transparent p hSr hSc hRr hRc model kh kw n0 n1 .nearest (by decide) sr sc vr vc hvr hvc kr kc r c hr hc
  unfold ImagePair.correctedByBlock at h
  unfold ImagePair.correctedWideByBlock
  simp only at h ⊢
  rw [correctedWide_isSome_eq_nearest p hRr hRc, ← h]
  exact correctedWide_isSome_eq_nearest (p.restrict (p.blockRows sr vr kr).pin (p.blockCols sc vc kc).pin
    (p.blockRows sr vr kr).oin (p.blockCols sc vc kc).oin) hRr hRc model kh kw n0 n1 ups r c

/-! ### constant parameters stay constant -/

theorem sum_map_weights_mul (a k : ℚ) (l : List (Int × ℚ)) :
    (l.map fun kv => a * kv.2 * k).sum = a * (l.map fun kv => kv.2).sum * k := by
  induction l with
  | nil => simp
  | cons y ys ih => simp only [List.map_cons, List.sum_cons, ih]; ring

theorem sum_flatMap_weights_mul (k : ℚ) (wr wc : List (Int × ℚ)) :
    (wr.flatMap fun iw => wc.map fun kv => iw.2 * kv.2 * k).sum =
      (wr.map fun iw => iw.2).sum * (wc.map fun kv => kv.2).sum * k := by
  induction wr with
  | nil => simp
  | cons y ys ih =>
    simp only [List.flatMap_cons, List.sum_append, List.map_cons, List.sum_cons, ih, sum_map_weights_mul]
    ring

theorem cubic_weights1_sum (S D : Axis) (hS : 0 < S.p) (j : Int) :
    ((wideWeights1 cubicKernel S D j).map fun iw => iw.2).sum = 1 := by
  obtain ⟨f0, f1⟩ := wideF_range S D hS j
  rw [wideWeights1_eq]
  simp only [List.map_cons, List.map_nil, List.sum_cons, List.sum_nil]
  linarith [cubicKernel_sum_one (wideF S D j) f0 f1]

theorem resampleWide_const (m : Wide) (Sr Sc Dr Dc : Axis) (hSr : 0 < Sr.p) (hSc : 0 < Sc.p) (img : ImgO) (k : ℚ)
    (hk : ∀ i j v, img i j = some v → v = k) (jr jc : Int) (g : ℚ)
    (h : resampleWide m Sr Sc Dr Dc img jr jc = some g) : g = k := by
  cases m with
  | cubic =>
    change cubic2 Sr Sc Dr Dc img jr jc = some g at h
    unfold cubic2 at h
    simp only at h
    split_ifs at h with hall
    · simp only [List.all_eq_true] at hall
      have hl : ((wideWeights1 cubicKernel Sr Dr jr).flatMap fun iw => (wideWeights1 cubicKernel Sc Dc jc).map fun kv =>
            iw.2 * kv.2 * (img iw.1 kv.1).getD 0) =
          ((wideWeights1 cubicKernel Sr Dr jr).flatMap fun iw => (wideWeights1 cubicKernel Sc Dc jc).map fun kv =>
            iw.2 * kv.2 * k) := by
        apply List.flatMap_congr
        intro iw hiw
        apply List.map_congr_left
        intro kv hkv
        obtain ⟨v, hv⟩ := Option.isSome_iff_exists.mp (hall iw hiw kv hkv)
        rw [hv, hk _ _ v hv]; rfl
      rw [hl, sum_flatMap_weights_mul, cubic_weights1_sum Sr Dr hSr, cubic_weights1_sum Sc Dc hSc] at h
      rw [← Option.some.inj h]; ring
    · exact resample2_const .bilinear (by decide) Sr Sc Dr Dc img k hk jr jc g h
  | cubicSpline =>
    change cubicSpline2 Sr Sc Dr Dc img jr jc = some g at h
    rw [cubicSpline2_eq] at h
    split at h
    · cases h
    · apply wmean_const_of_some k _ _ g h
      intro q hq
      obtain ⟨iw, _, kv, _, x, hx, rfl⟩ := (mem_suppQ _ _ _ _).mp hq
      exact hk _ _ _ hx

theorem correctedWide_of_const_params (p : ImagePair) (hRr : 0 < p.Rr.p) (hRc : 0 < p.Rc.p) (model : Model) (kh kw : Nat)
    (n0 n1 : ℚ) (ups : Wide) (a b : ℚ)
    (hp : ∀ i j prm, p.params model kh kw n0 n1 i j = some prm → prm.gain = a ∧ prm.offset = b)
    (r c : Int) (x v : ℚ) (hx : p.src r c = some x) (hv : p.correctedWide model kh kw n0 n1 ups r c = some v) :
    v = a * x + b := by
  unfold ImagePair.correctedWide at hv
  rw [hx] at hv
  simp only at hv
  split at hv
  · rename_i g o hg ho
    have hga : g = a := by
      apply resampleWide_const ups _ _ _ _ hRr hRc _ a _ _ _ g hg
      intro i j w hw
      unfold ImagePair.gainImg at hw
      obtain ⟨prm, hprm, rfl⟩ := Option.map_eq_some_iff.mp hw
      exact (hp i j prm hprm).1
    have hob : o = b := by
      apply resampleWide_const ups _ _ _ _ hRr hRc _ b _ _ _ o ho
      intro i j w hw
      unfold ImagePair.offsetImg at hw
      obtain ⟨prm, hprm, rfl⟩ := Option.map_eq_some_iff.mp hw
      exact (hp i j prm hprm).2
    rw [← Option.some.inj hv, hga, hob]
  · cases hv

theorem correctedWide_gain_line (p : ImagePair) (hRr : 0 < p.Rr.p) (hRc : 0 < p.Rc.p)
    (a : Rat) (kh kw : Nat) (n0 n1 : Rat) (ups : Wide)
    (hline : ∀ i j x y, p.srcDs i j = some x → p.ref i j = some y → y = a * x)
    (r c : Int) (x v : Rat) (hx : p.src r c = some x) (hv : p.correctedWide .gain kh kw n0 n1 ups r c = some v) :
    v = a * x := by
  have := correctedWide_of_const_params p hRr hRc .gain kh kw n0 n1 ups a 0
    (fun i j prm h => params_gain_line p a hline kh kw n0 n1 i j prm h) r c x v hx hv
  rw [this]; ring

theorem correctedWide_gainOffset_line (p : ImagePair) (hRr : 0 < p.Rr.p) (hRc : 0 < p.Rc.p)
    (a b : Rat) (kh kw : Nat) (n0 n1 : Rat) (ups : Wide)
    (hline : ∀ i j x y, p.srcDs i j = some x → p.ref i j = some y → y = a * x + b)
    (r c : Int) (x v : Rat) (hx : p.src r c = some x) (hv : p.correctedWide .gainOffset kh kw n0 n1 ups r c = some v) :
    v = a * x + b :=
  correctedWide_of_const_params p hRr hRc .gainOffset kh kw n0 n1 ups a b
    (fun i j prm h => params_gainOffset_line p a b hline kh kw n0 n1 i j prm h) r c x v hx hv

/-! ### scaling -/

theorem suppQ_scale (wr wc : List (Int × ℚ)) (img : ImgO) (k : ℚ) :
    suppQ wr wc (img.scale k) = (suppQ wr wc img).map fun q => (q.1, k * q.2) := by
  unfold suppQ ImgO.scale
  rw [List.map_flatMap]
  congr 1; funext iw
  rw [List.map_filterMap]
  congr 1; funext kv
  cases img iw.1 kv.1 <;> rfl

theorem sum_map_scale (k : ℚ) (f : (Int × ℚ) → (Int × ℚ) → ℚ) (y : Int × ℚ) (wc : List (Int × ℚ)) :
    (wc.map fun kv => y.2 * kv.2 * (k * f y kv)).sum = k * (wc.map fun kv => y.2 * kv.2 * f y kv).sum := by
  induction wc with
  | nil => simp
  | cons z zs ih => simp only [List.map_cons, List.sum_cons, ih]; ring

theorem sum_flatMap_scale (k : ℚ) (f : (Int × ℚ) → (Int × ℚ) → ℚ) (wr wc : List (Int × ℚ)) :
    (wr.flatMap fun iw => wc.map fun kv => iw.2 * kv.2 * (k * f iw kv)).sum =
      k * (wr.flatMap fun iw => wc.map fun kv => iw.2 * kv.2 * f iw kv).sum := by
  induction wr with
  | nil => simp
  | cons y ys ih =>
    simp only [List.flatMap_cons, List.sum_append, ih, sum_map_scale]
    ring

theorem resampleWide_scale (m : Wide) (Sr Sc Dr Dc : Axis) (img : ImgO) (k : ℚ) (a b : Int) :
    resampleWide m Sr Sc Dr Dc (img.scale k) a b = (resampleWide m Sr Sc Dr Dc img a b).map (k * ·) := by
  cases m with
  | cubic =>
    show cubic2 Sr Sc Dr Dc (img.scale k) a b = (cubic2 Sr Sc Dr Dc img a b).map (k * ·)
    have hc : ∀ i j, ((img.scale k) i j).isSome = (img i j).isSome := by
      intro i j; simp [ImgO.scale]
    have hd : ∀ i j, ((img.scale k) i j).getD 0 = k * (img i j).getD 0 := by
      intro i j; exact getD_map_mul k _
    have hb : bilinear2 Sr Sc Dr Dc (img.scale k) a b = (bilinear2 Sr Sc Dr Dc img a b).map (k * ·) :=
      resample2_scale .bilinear Sr Sc Dr Dc img k a b
    unfold cubic2
    simp only [hc, hd, hb]
    split_ifs
    · rw [sum_flatMap_scale k (fun iw kv => (img iw.1 kv.1).getD 0)]; rfl
    · rfl
  | cubicSpline =>
    show cubicSpline2 Sr Sc Dr Dc (img.scale k) a b = (cubicSpline2 Sr Sc Dr Dc img a b).map (k * ·)
    rw [cubicSpline2_eq, cubicSpline2_eq]
    unfold nearest2
    cases hn : img (nearestIdx Sr Dr a) (nearestIdx Sc Dc b) with
    | none => simp [ImgO.scale, hn]
    | some y =>
      have hn' : (img.scale k) (nearestIdx Sr Dr a) (nearestIdx Sc Dc b) = some (k * y) := by
        simp [ImgO.scale, hn]
      simp only [hn']
      exact (congrArg wmean (suppQ_scale _ _ img k)).trans (resample_linear k _)

theorem correctedWide_scale_pair (p : ImagePair) (s t : Rat) (hs : 0 < s) (ht : 0 < t) (model : Model) (hm : model ≠ .gainBlkOffset)
    (kh kw : Nat) (n0 n1 : Rat) (ups : Wide) (r c : Int) :
    ({ p with src := p.src.scale s, ref := p.ref.scale t } : ImagePair).correctedWide model kh kw n0 n1 ups r c
      = (p.correctedWide model kh kw n0 n1 ups r c).map (t * ·) := by
  show (p.scale s t).correctedWide model kh kw n0 n1 ups r c = _
  unfold ImagePair.correctedWide
  rw [gainImg_scale p s t hs ht model hm, offsetImg_scale p s t hs ht model hm]
  show (match (p.src r c).map (s * ·) with
    | none => none
    | some x =>
      match resampleWide ups p.Rr p.Rc p.Sr p.Sc ((p.gainImg model kh kw n0 n1).scale (t / s)) r c,
            resampleWide ups p.Rr p.Rc p.Sr p.Sc ((p.offsetImg model kh kw n0 n1).scale t) r c with
      | some g, some o => some (g * x + o)
      | _, _ => none) = _
  rw [resampleWide_scale, resampleWide_scale]
  cases p.src r c with
  | none => rfl
  | some x =>
    cases resampleWide ups p.Rr p.Rc p.Sr p.Sc (p.gainImg model kh kw n0 n1) r c with
    | none => rfl
    | some g =>
      cases resampleWide ups p.Rr p.Rc p.Sr p.Sc (p.offsetImg model kh kw n0 n1) r c with
      | none => rfl
      | some o =>
        simp only [Option.map_some, Option.some.injEq]
        have hs' := ne_of_gt hs
        field_simp

end Homonim
