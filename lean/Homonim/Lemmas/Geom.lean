/-
  Helper lemmas about floor / ceil / round-half-even division and monotone tilings.
-/
import Homonim.Model.Geom
import Homonim.Model.Blocks
import Mathlib.Tactic.Linarith
import Mathlib.Tactic.Ring
import Mathlib.Algebra.Order.Ring.Int

namespace Homonim

theorem cdiv_mul_ge (a d : Int) (hd : 0 < d) : a ≤ cdiv a d * d := by
  unfold cdiv
  have h := Int.ediv_mul_le (-a) (Int.ne_of_gt hd)
  linarith

theorem cdiv_mul_lt (a d : Int) (hd : 0 < d) : (cdiv a d - 1) * d < a := by
  unfold cdiv
  have h := Int.lt_ediv_add_one_mul_self (-a) hd
  linarith

theorem fdiv_mul_le (a d : Int) (hd : 0 < d) : a / d * d ≤ a := Int.ediv_mul_le a (Int.ne_of_gt hd)

theorem fdiv_mul_gt (a d : Int) (hd : 0 < d) : a < (a / d + 1) * d := Int.lt_ediv_add_one_mul_self a hd

theorem cdiv_le_of_le_mul (a d k : Int) (hd : 0 < d) (h : a ≤ k * d) : cdiv a d ≤ k := by
  have := cdiv_mul_lt a d hd
  by_contra hc
  have hk : k ≤ cdiv a d - 1 := by omega
  have : k * d ≤ (cdiv a d - 1) * d := Int.mul_le_mul_of_nonneg_right hk (le_of_lt hd)
  linarith

theorem le_fdiv_of_mul_le (a d k : Int) (hd : 0 < d) (h : k * d ≤ a) : k ≤ a / d :=
  (Int.le_ediv_iff_mul_le hd).mpr h

theorem cdiv_mono (a b d : Int) (hd : 0 < d) (h : a ≤ b) : cdiv a d ≤ cdiv b d := by
  apply cdiv_le_of_le_mul _ _ _ hd
  have := cdiv_mul_ge b d hd
  linarith

theorem fdiv_le_cdiv (a d : Int) (hd : 0 < d) : a / d ≤ cdiv a d := by
  have h1 := fdiv_mul_le a d hd
  have h2 := cdiv_mul_ge a d hd
  by_contra hc
  have : cdiv a d + 1 ≤ a / d := by omega
  have : (cdiv a d + 1) * d ≤ a / d * d := Int.mul_le_mul_of_nonneg_right this (le_of_lt hd)
  nlinarith

theorem rhe_bounds (n d : Int) (hd : 0 < d) : n / d ≤ rhe n d ∧ rhe n d ≤ n / d + 1 := by
  unfold rhe; simp only; split_ifs <;> omega

theorem rhe_mono (n m d : Int) (hd : 0 < d) (h : n ≤ m) : rhe n d ≤ rhe m d := by
  have hq : n / d ≤ m / d := Int.ediv_le_ediv hd h
  rcases Int.lt_or_eq_of_le hq with hlt | heq
  · have := (rhe_bounds n d hd).2
    have := (rhe_bounds m d hd).1
    omega
  · have hn := Int.emod_add_mul_ediv n d
    have hm := Int.emod_add_mul_ediv m d
    have hr : n % d ≤ m % d := by
      have : d * (n / d) = d * (m / d) := by rw [heq]
      omega
    unfold rhe; simp only; rw [heq]
    split_ifs <;> omega

/-- rounding an exact multiple is exact -/
theorem rhe_mul (k d : Int) (hd : 0 < d) : rhe (k * d) d = k := by
  unfold rhe
  have h1 : k * d / d = k := Int.mul_ediv_cancel k (Int.ne_of_gt hd)
  have h2 : k * d % d = 0 := Int.mul_emod_left k d
  simp only [h1, h2]
  split_ifs <;> omega

/-- rounding never moves past a whole pixel boundary: `a ≤ k*d → rhe a d ≤ k` -/
theorem rhe_le_of_le_mul (a d k : Int) (hd : 0 < d) (h : a ≤ k * d) : rhe a d ≤ k := by
  have := rhe_mono a (k * d) d hd h
  rw [rhe_mul k d hd] at this
  exact this

theorem le_rhe_of_mul_le (a d k : Int) (hd : 0 < d) (h : k * d ≤ a) : k ≤ rhe a d := by
  have := rhe_mono (k * d) a d hd h
  rw [rhe_mul k d hd] at this
  exact this

/-- windows `[g k, g (k+1))` of a monotone integer sequence tile `[g 0, g K)` -/
theorem tile_of_mono (g : Nat → Int) (hg : ∀ k, g k ≤ g (k + 1)) (K : Nat) (x : Int) (h0 : g 0 ≤ x)
    (hK : x < g K) : ∃ k, k < K ∧ g k ≤ x ∧ x < g (k + 1) := by
  induction K with
  | zero => omega
  | succ K ih =>
    by_cases hx : x < g K
    · obtain ⟨k, hk, h1, h2⟩ := ih hx; exact ⟨k, by omega, h1, h2⟩
    · exact ⟨K, by omega, by omega, hK⟩

theorem mono_le (g : Nat → Int) (hg : ∀ k, g k ≤ g (k + 1)) (i j : Nat) (h : i ≤ j) : g i ≤ g j := by
  induction j with
  | zero => have : i = 0 := by omega
            subst this; exact le_refl _
  | succ j ih =>
    by_cases hij : i = j + 1
    · subst hij; exact le_refl _
    · exact le_trans (ih (by omega)) (hg j)

/-- the windows of a monotone sequence are pairwise disjoint -/
theorem tile_unique (g : Nat → Int) (hg : ∀ k, g k ≤ g (k + 1)) (i j : Nat) (x : Int)
    (hi : g i ≤ x ∧ x < g (i + 1)) (hj : g j ≤ x ∧ x < g (j + 1)) : i = j := by
  by_contra hne
  rcases Nat.lt_or_gt_of_ne hne with h | h
  · have := mono_le g hg (i + 1) j (by omega); omega
  · have := mono_le g hg (j + 1) i (by omega); omega

end Homonim

namespace Homonim
/-- the processing input window contains the processing output window -/
theorem in_contains_out_plus_overlap_aux (A B s v : Int) (hv : 0 ≤ v) (k : Nat) :
    (procIn A B s v k).lo ≤ (procOut A B s v k).lo ∧ (procOut A B s v k).hi ≤ (procIn A B s v k).hi := by
  unfold procIn procOut blockUl
  simp only
  omega
end Homonim

namespace Homonim
theorem in_contains_out_plus_overlap_eq (A B s v : Int) (hv : 0 ≤ v) (k : Nat) :
    procIn A B s v k = ⟨max ((procOut A B s v k).lo - v) A, min ((procOut A B s v k).hi + v) B⟩ := by
  unfold procIn procOut blockUl
  simp only [Win1.mk.injEq]
  constructor <;> omega
end Homonim
