/-
  Helper lemmas for the kernel model: window membership, zero-filled box sums as sums over the jointly valid window
  points, and the algebra of the six sums (RSS expansion, normal equations, minimality).
-/
import Homonim.Model.Kernel
import Mathlib.Tactic.Ring
import Mathlib.Tactic.Linarith
import Mathlib.Tactic.FieldSimp
import Mathlib.Tactic.Positivity
import Mathlib.Algebra.BigOperators.Group.List.Basic
import Mathlib.Algebra.Order.Field.Basic
import Mathlib.Data.Rat.Defs

namespace Homonim

/-- (src, ref) values over the jointly valid pixels of one window -/
abbrev Pts := List (ℚ × ℚ)

def sN (p : Pts) : ℚ := (p.map fun _ => (1 : ℚ)).sum
def sS (p : Pts) : ℚ := (p.map fun x => x.1).sum
def sR (p : Pts) : ℚ := (p.map fun x => x.2).sum
def sSS (p : Pts) : ℚ := (p.map fun x => x.1 * x.1).sum
def sRR (p : Pts) : ℚ := (p.map fun x => x.2 * x.2).sum
def sSR (p : Pts) : ℚ := (p.map fun x => x.1 * x.2).sum

/-- residual sum of squares of the line `g·x + o` over the points -/
def rss (p : Pts) (g o : ℚ) : ℚ := (p.map fun x => (x.2 - (g * x.1 + o)) ^ 2).sum

/-- total sum of squares of the reference values about their mean -/
def tss (p : Pts) : ℚ := (p.map fun x => (x.2 - sR p / sN p) ^ 2).sum

/-- the six sums of a point list -/
def ptsSums (p : Pts) : Sums := ⟨sN p, sS p, sR p, sSS p, sRR p, sSR p⟩

/-- the jointly valid points of the `kh × kw` window centred on `(r, c)` -/
def Block.winPts (b : Block) (kh kw r c : Nat) : Pts :=
  ((winPos kh kw b.h b.w r c).filter fun p => b.m p.1 p.2).map fun p => (b.src p.1 p.2, b.ref p.1 p.2)

/-! ### window membership -/

theorem mem_axisWin (k n c i : Nat) :
    i ∈ axisWin k n c ↔ i < n ∧ c ≤ i + k / 2 ∧ i + k / 2 < c + k := by
  unfold axisWin
  simp only [List.mem_filterMap, List.mem_range]
  constructor
  · rintro ⟨d, hd, hif⟩
    split at hif
    · rename_i h
      have := Option.some.inj hif
      omega
    · cases hif
  · rintro ⟨h1, h2, h3⟩
    refine ⟨i + k / 2 - c, by omega, ?_⟩
    rw [if_pos (by omega)]
    congr 1
    omega

theorem mem_winPos (kh kw h w r c i j : Nat) :
    (i, j) ∈ winPos kh kw h w r c ↔
      (i < h ∧ r ≤ i + kh / 2 ∧ i + kh / 2 < r + kh) ∧ (j < w ∧ c ≤ j + kw / 2 ∧ j + kw / 2 < c + kw) := by
  unfold winPos
  simp only [List.mem_flatMap, List.mem_map, Prod.mk.injEq]
  constructor
  · rintro ⟨a, ha, b, hb, rfl, rfl⟩
    exact ⟨(mem_axisWin _ _ _ _).1 ha, (mem_axisWin _ _ _ _).1 hb⟩
  · rintro ⟨hi, hj⟩
    exact ⟨i, (mem_axisWin _ _ _ _).2 hi, j, (mem_axisWin _ _ _ _).2 hj, rfl, rfl⟩

/-- for an odd kernel the window is symmetric about the centre: `|i - r| ≤ kh/2`, `|j - c| ≤ kw/2` -/
theorem mem_winPos_odd (kh kw h w r c i j : Nat) (hkh : kh % 2 = 1) (hkw : kw % 2 = 1) :
    (i, j) ∈ winPos kh kw h w r c ↔
      i < h ∧ j < w ∧ (r ≤ i + kh / 2 ∧ i ≤ r + kh / 2) ∧ (c ≤ j + kw / 2 ∧ j ≤ c + kw / 2) := by
  rw [mem_winPos]
  constructor
  · rintro ⟨⟨a, b, c'⟩, ⟨d, e, f⟩⟩; refine ⟨a, d, ⟨b, by omega⟩, ⟨e, by omega⟩⟩
  · rintro ⟨a, d, ⟨b, c'⟩, ⟨e, f⟩⟩; exact ⟨⟨a, b, by omega⟩, ⟨d, e, by omega⟩⟩

/-! ### zero-filled box sums are sums over the valid points -/

theorem sum_ite_eq_filter {α : Type} (l : List α) (m : α → Bool) (f : α → ℚ) :
    (l.map fun p => if m p then f p else 0).sum = ((l.filter m).map f).sum := by
  induction l with
  | nil => simp
  | cons x xs ih =>
    simp only [List.map_cons, List.sum_cons, List.filter_cons]
    by_cases hm : m x = true
    · simp [hm, ih]
    · simp [hm, ih]

theorem sum_ite_mul_eq_filter {α : Type} (l : List α) (m : α → Bool) (f g : α → ℚ) :
    (l.map fun p => (if m p then f p else 0) * (if m p then g p else 0)).sum =
      ((l.filter m).map fun p => f p * g p).sum := by
  rw [← sum_ite_eq_filter l m (fun p => f p * g p)]
  congr 1
  apply List.map_congr_left
  intro p _
  by_cases hm : m p = true <;> simp [hm]

theorem sums_eq_ptsSums (b : Block) (kh kw r c : Nat) :
    b.sums kh kw r c = ptsSums (b.winPts kh kw r c) := by
  unfold Block.sums ptsSums Block.winPts boxSum sN sS sR sSS sRR sSR Block.srcZ Block.refZ
  simp only [List.map_map, Function.comp_def]
  congr 1
  · exact sum_ite_eq_filter _ (fun (p : Nat × Nat) => b.m p.1 p.2) (fun _ => 1)
  · exact sum_ite_eq_filter _ (fun (p : Nat × Nat) => b.m p.1 p.2) (fun p => b.src p.1 p.2)
  · exact sum_ite_eq_filter _ (fun (p : Nat × Nat) => b.m p.1 p.2) (fun p => b.ref p.1 p.2)
  · exact sum_ite_mul_eq_filter _ (fun (p : Nat × Nat) => b.m p.1 p.2) (fun p => b.src p.1 p.2)
      (fun p => b.src p.1 p.2)
  · exact sum_ite_mul_eq_filter _ (fun (p : Nat × Nat) => b.m p.1 p.2) (fun p => b.ref p.1 p.2)
      (fun p => b.ref p.1 p.2)
  · exact sum_ite_mul_eq_filter _ (fun (p : Nat × Nat) => b.m p.1 p.2) (fun p => b.src p.1 p.2)
      (fun p => b.ref p.1 p.2)

/-! ### algebra of the sums -/

theorem rss_expand (p : Pts) (g o : ℚ) :
    rss p g o = g ^ 2 * sSS p + 2 * (g * o) * sS p - 2 * g * sSR p - 2 * o * sR p + sRR p + sN p * o ^ 2 := by
  induction p with
  | nil => simp [rss, sN, sS, sR, sSS, sRR, sSR]
  | cons x xs ih =>
    simp only [rss, sN, sS, sR, sSS, sRR, sSR, List.map_cons, List.sum_cons] at ih ⊢
    rw [ih]; ring

/-- `N · TSS = N · ΣR² - (ΣR)²` -/
theorem tss_expand (p : Pts) (hN : sN p ≠ 0) : sN p * tss p = sN p * sRR p - sR p ^ 2 := by
  have key : ∀ (q : Pts) (mu : ℚ),
      (q.map fun x => (x.2 - mu) ^ 2).sum = sRR q - 2 * mu * sR q + sN q * mu ^ 2 := by
    intro q mu
    induction q with
    | nil => simp [sN, sR, sRR]
    | cons x xs ih =>
      simp only [sN, sR, sRR, List.map_cons, List.sum_cons] at ih ⊢
      rw [ih]; ring
  unfold tss
  rw [key p (sR p / sN p)]
  field_simp
  ring

theorem rss_diff (p : Pts) (g o g' o' : ℚ) :
    rss p g' o' - rss p g o =
      (p.map fun x => ((g' - g) * x.1 + (o' - o)) ^ 2).sum
      - 2 * (g' - g) * (sSR p - g * sSS p - o * sS p) - 2 * (o' - o) * (sR p - g * sS p - sN p * o) := by
  induction p with
  | nil => simp [rss, sN, sS, sR, sSS, sSR]
  | cons x xs ih =>
    simp only [rss, sN, sS, sR, sSS, sSR, List.map_cons, List.sum_cons] at ih ⊢
    linarith [ih]

theorem sum_sq_nonneg (p : Pts) (a b : ℚ) : 0 ≤ (p.map fun x => (a * x.1 + b) ^ 2).sum := by
  induction p with
  | nil => simp
  | cons x xs ih => simp only [List.map_cons, List.sum_cons]; positivity

/-- scaling the points: sums are homogeneous -/
def scalePts (a c : ℚ) (p : Pts) : Pts := p.map fun x => (a * x.1, c * x.2)

theorem sums_scale (a c : ℚ) (p : Pts) :
    sN (scalePts a c p) = sN p ∧ sS (scalePts a c p) = a * sS p ∧ sR (scalePts a c p) = c * sR p ∧
    sSS (scalePts a c p) = a ^ 2 * sSS p ∧ sRR (scalePts a c p) = c ^ 2 * sRR p ∧
    sSR (scalePts a c p) = a * c * sSR p := by
  induction p with
  | nil => simp [scalePts, sN, sS, sR, sSS, sRR, sSR]
  | cons x xs ih =>
    obtain ⟨h1, h2, h3, h4, h5, h6⟩ := ih
    simp only [scalePts, sN, sS, sR, sSS, sRR, sSR, List.map_cons, List.sum_cons, List.map_map] at *
    refine ⟨?_, ?_, ?_, ?_, ?_, ?_⟩
    · rw [h1]
    · rw [h2]; ring
    · rw [h3]; ring
    · rw [h4]; ring
    · rw [h5]; ring
    · rw [h6]; ring

/-! ### what a successful fit returns -/

theorem fitGainS_some (s : Sums) (fr : Bool) (p : Params) (h : fitGainS s fr = some p) :
    s.S ≠ 0 ∧ p.gain = s.R / s.S ∧ p.offset = 0 := by
  unfold fitGainS divO at h
  by_cases hS : s.S = 0
  · simp [hS] at h
  · simp only [hS, if_false, Option.map_some, Option.some.injEq] at h
    subst h
    exact ⟨hS, rfl, rfl⟩

theorem inpainted_some (s : Sums) (oF : Option ℚ) (q : Option ℚ) (p : Params) (h : inpainted s oF q = some p) :
    s.S ≠ 0 ∧ p.gain = (s.R - s.N * p.offset) / s.S := by
  unfold inpainted divO at h
  cases oF with
  | none => simp at h
  | some cc =>
    by_cases hS : s.S = 0
    · simp [hS] at h
    · simp only [Option.bind_some, hS, if_false, Option.map_some, Option.some.injEq] at h
      subst h
      exact ⟨hS, rfl⟩

theorem ols_some (s : Sums) (g o : ℚ) (h : ols s = some (g, o)) :
    s.N ≠ 0 ∧ s.N * s.SS - s.S * s.S ≠ 0 ∧ g = (s.N * s.SR - s.S * s.R) / (s.N * s.SS - s.S * s.S) ∧
      o = (s.R - g * s.S) / s.N := by
  unfold ols olsGain olsOffset divO at h
  by_cases hD : s.N * s.SS - s.S * s.S = 0
  · simp [hD] at h
  · by_cases hN : s.N = 0
    · simp [hD, hN] at h
    · simp only [hD, hN, if_false, Option.bind_some, Option.map_some, Option.some.injEq, Prod.mk.injEq] at h
      obtain ⟨h1, h2⟩ := h
      subst h1
      exact ⟨hN, hD, rfl, h2.symm⟩

theorem fitGainOffsetS_some (s : Sums) (fr : Bool) (th : Option ℚ) (oF : Option ℚ) (p : Params)
    (h : fitGainOffsetS s fr th oF = some p) :
    (s.N ≠ 0 ∧ p.offset = (s.R - p.gain * s.S) / s.N) ∨ (s.S ≠ 0 ∧ p.gain = (s.R - s.N * p.offset) / s.S) := by
  unfold fitGainOffsetS at h
  cases th with
  | none =>
    simp only at h
    cases ho : ols s with
    | none => simp [ho] at h
    | some go =>
      obtain ⟨g, o⟩ := go
      obtain ⟨hN, _, _, h2⟩ := ols_some s g o ho
      simp only [ho, Option.map_some, Option.some.injEq] at h
      subst h
      exact Or.inl ⟨hN, h2⟩
  | some t =>
    simp only at h
    cases ho : ols s with
    | none =>
      simp only [ho] at h
      exact Or.inr (inpainted_some s oF none p h)
    | some go =>
      obtain ⟨g, o⟩ := go
      obtain ⟨hN, _, _, h2⟩ := ols_some s g o ho
      simp only [ho] at h
      split at h
      · simp only [Option.some.injEq] at h
        subst h
        exact Or.inl ⟨hN, h2⟩
      · exact Or.inr (inpainted_some s oF _ p h)
end Homonim
