/-
  Locality of the kernel fit: a sub-block that contains a pixel's kernel window yields the same window points.
-/
import Homonim.Lemmas.Kernel
import Homonim.Model.Blocks
namespace Homonim

/-- the sub-block `[r0, r0+h) × [c0, c0+w)` of a block, in its own local coordinates -/
def Block.crop (b : Block) (r0 c0 h w : Nat) : Block :=
  { h := h, w := w
    src := fun i j => b.src (i + r0) (j + c0), ref := fun i j => b.ref (i + r0) (j + c0)
    sm := fun i j => b.sm (i + r0) (j + c0), rm := fun i j => b.rm (i + r0) (j + c0) }

theorem axisWin_crop (k n a m c : Nat) (hc : a ≤ c)
    (hin : ∀ i, i ∈ axisWin k n c → a ≤ i ∧ i < a + m) (hsub : a + m ≤ n) :
    (axisWin k m (c - a)).map (· + a) = axisWin k n c := by
  unfold axisWin
  rw [List.map_filterMap]
  apply List.filterMap_congr
  intro d hd
  rw [List.mem_range] at hd
  simp only
  by_cases h1 : 0 ≤ (c : Int) - ((k / 2 : Nat) : Int) + (d : Int) ∧ (c : Int) - ((k / 2 : Nat) : Int) + (d : Int) < n
  · -- in the global window: then inside the crop
    have hmem : ((c : Int) - ((k / 2 : Nat) : Int) + (d : Int)).toNat ∈ axisWin k n c := by
      unfold axisWin
      simp only [List.mem_filterMap, List.mem_range]
      exact ⟨d, hd, by rw [if_pos h1]⟩
    obtain ⟨g1, g2⟩ := hin _ hmem
    rw [if_pos h1]
    have h2 : 0 ≤ ((c - a : Nat) : Int) - ((k / 2 : Nat) : Int) + (d : Int) ∧
        ((c - a : Nat) : Int) - ((k / 2 : Nat) : Int) + (d : Int) < m := by omega
    rw [if_pos h2]
    simp only [Option.map_some, Option.some.injEq]
    omega
  · rw [if_neg h1]
    have h2 : ¬ (0 ≤ ((c - a : Nat) : Int) - ((k / 2 : Nat) : Int) + (d : Int) ∧
        ((c - a : Nat) : Int) - ((k / 2 : Nat) : Int) + (d : Int) < m) := by omega
    rw [if_neg h2]
    rfl
theorem winPos_crop (kh kw H W r0 c0 h w r c : Nat) (hr : r0 ≤ r) (hc : c0 ≤ c)
    (hrin : ∀ i, i ∈ axisWin kh H r → r0 ≤ i ∧ i < r0 + h) (hcin : ∀ j, j ∈ axisWin kw W c → c0 ≤ j ∧ j < c0 + w)
    (hrs : r0 + h ≤ H) (hcs : c0 + w ≤ W) :
    (winPos kh kw h w (r - r0) (c - c0)).map (fun p => (p.1 + r0, p.2 + c0)) = winPos kh kw H W r c := by
  unfold winPos
  rw [← axisWin_crop kh H r0 h r hr hrin hrs, ← axisWin_crop kw W c0 w c hc hcin hcs]
  simp only [List.map_flatMap, List.flatMap_map, List.map_map, Function.comp_def]

theorem winPts_crop (b : Block) (kh kw r0 c0 h w r c : Nat) (hr : r0 ≤ r) (hc : c0 ≤ c)
    (hrin : ∀ i, i ∈ axisWin kh b.h r → r0 ≤ i ∧ i < r0 + h) (hcin : ∀ j, j ∈ axisWin kw b.w c → c0 ≤ j ∧ j < c0 + w)
    (hrs : r0 + h ≤ b.h) (hcs : c0 + w ≤ b.w) :
    (b.crop r0 c0 h w).winPts kh kw (r - r0) (c - c0) = b.winPts kh kw r c := by
  unfold Block.winPts
  rw [← winPos_crop kh kw b.h b.w r0 c0 h w r c hr hc hrin hcin hrs hcs]
  simp only [Block.crop, Block.m, List.filter_map, List.map_map, Function.comp_def]
end Homonim
