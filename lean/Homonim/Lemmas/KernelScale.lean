import Homonim.Lemmas.Kernel
namespace Homonim

def scaleSums (a c : ℚ) (s : Sums) : Sums := ⟨s.N, a * s.S, c * s.R, a ^ 2 * s.SS, c ^ 2 * s.RR, a * c * s.SR⟩
def scaleParams (a c : ℚ) (p : Params) : Params := ⟨c / a * p.gain, c * p.offset, p.r2⟩
def Block.scale (b : Block) (a c : ℚ) : Block := { b with src := fun i j => a * b.src i j, ref := fun i j => c * b.ref i j }

theorem divO_scale (u v x y : ℚ) (hv : v ≠ 0) : divO (u * x) (v * y) = (divO x y).map (fun q => u / v * q) := by
  unfold divO
  by_cases hy : y = 0
  · simp [hy]
  · have : v * y ≠ 0 := mul_ne_zero hv hy
    simp only [hy, this, if_false, Option.map_some, Option.some.injEq]
    field_simp

theorem r2Gain_scale (a c : ℚ) (ha : a ≠ 0) (hc : c ≠ 0) (s : Sums) (g : ℚ) :
    r2Gain (scaleSums a c s) (c / a * g) = r2Gain s g := by
  unfold r2Gain scaleSums
  simp only
  have h1 : (c / a * g * (c / a * g) * (a ^ 2 * s.SS) - 2 * (c / a * g) * (a * c * s.SR) + c ^ 2 * s.RR) * s.N
      = c ^ 2 * ((g * g * s.SS - 2 * g * s.SR + s.RR) * s.N) := by field_simp
  have h2 : s.N * (c ^ 2 * s.RR) - c * s.R * (c * s.R) = c ^ 2 * (s.N * s.RR - s.R * s.R) := by ring
  rw [h1, h2, divO_scale _ _ _ _ (pow_ne_zero 2 hc)]
  cases divO ((g * g * s.SS - 2 * g * s.SR + s.RR) * s.N) (s.N * s.RR - s.R * s.R) with
  | none => rfl
  | some q => simp [div_self (pow_ne_zero 2 hc)]

theorem r2GainOffset_scale (a c : ℚ) (ha : a ≠ 0) (hc : c ≠ 0) (s : Sums) (g o : ℚ) :
    r2GainOffset (scaleSums a c s) (c / a * g) (c * o) = r2GainOffset s g o := by
  unfold r2GainOffset scaleSums
  simp only
  have h1 : (c / a * g * (c / a * g) * (a ^ 2 * s.SS) + 2 * (c / a * g * (c * o)) * (a * s.S) -
      2 * (c / a * g) * (a * c * s.SR) - 2 * (c * o) * (c * s.R) + c ^ 2 * s.RR + s.N * (c * o * (c * o))) * s.N
      = c ^ 2 * ((g * g * s.SS + 2 * (g * o) * s.S - 2 * g * s.SR - 2 * o * s.R + s.RR + s.N * (o * o)) * s.N) := by
    field_simp
  have h2 : s.N * (c ^ 2 * s.RR) - c * s.R * (c * s.R) = c ^ 2 * (s.N * s.RR - s.R * s.R) := by ring
  rw [h1, h2, divO_scale _ _ _ _ (pow_ne_zero 2 hc)]
  cases divO ((g * g * s.SS + 2 * (g * o) * s.S - 2 * g * s.SR - 2 * o * s.R + s.RR + s.N * (o * o)) * s.N)
      (s.N * s.RR - s.R * s.R) with
  | none => rfl
  | some q => simp [div_self (pow_ne_zero 2 hc)]

theorem fitGainS_scale (a c : ℚ) (ha : a ≠ 0) (hc : c ≠ 0) (s : Sums) (fr : Bool) :
    fitGainS (scaleSums a c s) fr = (fitGainS s fr).map (scaleParams a c) := by
  unfold fitGainS
  have : divO (scaleSums a c s).R (scaleSums a c s).S = (divO s.R s.S).map (fun q => c / a * q) := by
    simp only [scaleSums]; exact divO_scale c a s.R s.S ha
  rw [this]
  cases divO s.R s.S with
  | none => rfl
  | some g =>
    simp only [Option.map_some, scaleParams, Option.some.injEq, Params.mk.injEq, mul_zero, true_and]
    cases fr
    · simp
    · simp only [if_true]; exact r2Gain_scale a c ha hc s g
theorem ols_scale (a c : ℚ) (ha : a ≠ 0) (hc : c ≠ 0) (s : Sums) :
    ols (scaleSums a c s) = (ols s).map (fun go => (c / a * go.1, c * go.2)) := by
  unfold ols olsGain olsOffset
  have hg : divO ((scaleSums a c s).N * (scaleSums a c s).SR - (scaleSums a c s).S * (scaleSums a c s).R)
      ((scaleSums a c s).N * (scaleSums a c s).SS - (scaleSums a c s).S * (scaleSums a c s).S)
      = (divO (s.N * s.SR - s.S * s.R) (s.N * s.SS - s.S * s.S)).map (fun q => c / a * q) := by
    simp only [scaleSums]
    have h1 : s.N * (a * c * s.SR) - a * s.S * (c * s.R) = (a * c) * (s.N * s.SR - s.S * s.R) := by ring
    have h2 : s.N * (a ^ 2 * s.SS) - a * s.S * (a * s.S) = a ^ 2 * (s.N * s.SS - s.S * s.S) := by ring
    rw [h1, h2, divO_scale _ _ _ _ (pow_ne_zero 2 ha)]
    congr 1
    funext q
    field_simp
  rw [hg]
  cases divO (s.N * s.SR - s.S * s.R) (s.N * s.SS - s.S * s.S) with
  | none => rfl
  | some g =>
    simp only [Option.map_some, Option.bind_some]
    have ho : divO ((scaleSums a c s).R - c / a * g * (scaleSums a c s).S) (scaleSums a c s).N
        = (divO (s.R - g * s.S) s.N).map (fun q => c * q) := by
      simp only [scaleSums]
      have h1 : c * s.R - c / a * g * (a * s.S) = c * (s.R - g * s.S) := by field_simp
      have h2 : s.N = 1 * s.N := by ring
      rw [h1]
      conv_lhs => rw [h2]
      rw [divO_scale _ _ _ _ one_ne_zero]
      simp
    rw [ho]
    cases divO (s.R - g * s.S) s.N with
    | none => rfl
    | some o => rfl

theorem keepOffset_scale (a c : ℚ) (ha : 0 < a) (hc : 0 < c) (t g : ℚ) (q : Option ℚ) :
    keepOffset t (c / a * g) q = keepOffset t g q := by
  unfold keepOffset
  cases q with
  | none => rfl
  | some r =>
    have hpos : 0 < c / a := div_pos hc ha
    have : (0 < c / a * g) ↔ (0 < g) := by
      constructor
      · intro h; by_contra hg; push Not at hg
        have : c / a * g ≤ 0 := mul_nonpos_of_nonneg_of_nonpos (le_of_lt hpos) hg
        linarith
      · intro h; exact mul_pos hpos h
    simp only [this]

theorem inpainted_scale (a c : ℚ) (ha : a ≠ 0) (hc : c ≠ 0) (s : Sums) (oF : Option ℚ) (q : Option ℚ) :
    inpainted (scaleSums a c s) (oF.map (fun o => c * o)) q = (inpainted s oF q).map (scaleParams a c) := by
  unfold inpainted
  cases oF with
  | none => rfl
  | some o =>
    simp only [Option.map_some, Option.bind_some]
    have h : divO ((scaleSums a c s).R - (scaleSums a c s).N * (c * o)) (scaleSums a c s).S
        = (divO (s.R - s.N * o) s.S).map (fun q => c / a * q) := by
      simp only [scaleSums]
      have h1 : c * s.R - s.N * (c * o) = c * (s.R - s.N * o) := by ring
      rw [h1]; exact divO_scale c a _ _ ha
    rw [h]
    cases divO (s.R - s.N * o) s.S with
    | none => rfl
    | some g => rfl

theorem fitGainOffsetS_scale (a c : ℚ) (ha : 0 < a) (hc : 0 < c) (s : Sums) (fr : Bool) (th : Option ℚ)
    (oF : Option ℚ) :
    fitGainOffsetS (scaleSums a c s) fr th (oF.map (fun o => c * o)) =
      (fitGainOffsetS s fr th oF).map (scaleParams a c) := by
  have ha' := ne_of_gt ha
  have hc' := ne_of_gt hc
  unfold fitGainOffsetS
  rw [ols_scale a c ha' hc' s]
  cases th with
  | none =>
    simp only
    cases ols s with
    | none => rfl
    | some go =>
      simp only [Option.map_some, scaleParams, Option.some.injEq, Params.mk.injEq, true_and]
      cases fr
      · simp
      · simp only [if_true]; exact r2GainOffset_scale a c ha' hc' s go.1 go.2
  | some t =>
    simp only
    cases ols s with
    | none => simp only [Option.map_none]; exact inpainted_scale a c ha' hc' s oF none
    | some go =>
      simp only [Option.map_some]
      rw [r2GainOffset_scale a c ha' hc' s go.1 go.2, keepOffset_scale a c ha hc]
      split
      · simp [scaleParams]
      · exact inpainted_scale a c ha' hc' s oF _

theorem applyParams_scale (a c : ℚ) (ha : a ≠ 0) (p : Params) (x : ℚ) :
    applyParams (scaleParams a c p) (a * x) = c * applyParams p x := by
  unfold applyParams scaleParams
  simp only
  field_simp

theorem m_scale (b : Block) (a c : ℚ) (i j : Nat) : (b.scale a c).m i j = b.m i j := rfl

theorem winPts_scale (b : Block) (a c : ℚ) (kh kw r c' : Nat) :
    (b.scale a c).winPts kh kw r c' = scalePts a c (b.winPts kh kw r c') := by
  unfold Block.winPts scalePts Block.scale Block.m
  simp [List.map_map, Function.comp_def]

theorem ptsSums_scale (a c : ℚ) (p : Pts) : ptsSums (scalePts a c p) = scaleSums a c (ptsSums p) := by
  obtain ⟨h1, h2, h3, h4, h5, h6⟩ := sums_scale a c p
  unfold ptsSums scaleSums
  simp only [h1, h2, h3, h4, h5, h6]

theorem sums_scale_block (b : Block) (a c : ℚ) (kh kw r c' : Nat) :
    (b.scale a c).sums kh kw r c' = scaleSums a c (b.sums kh kw r c') := by
  rw [sums_eq_ptsSums, sums_eq_ptsSums, winPts_scale, ptsSums_scale]

/-- normalising the scaled block with the scaled normalisation = scaling the normalised block by (c, c) -/
theorem normalised_scale (b : Block) (a c n0 n1 : ℚ) (ha : a ≠ 0) :
    ((b.scale a c).normalised (n0 * (c / a)) (n1 * c)) = (b.normalised n0 n1).scale c c := by
  unfold Block.normalised Block.scale
  simp only [Block.mk.injEq, true_and, and_true]
  funext i j
  field_simp

end Homonim
