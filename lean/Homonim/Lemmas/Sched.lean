/-
  Helper lemmas for the block fan-out machine (Model/Sched.lean).
-/
import Homonim.Model.Sched
import Mathlib.Tactic.Linarith
import Mathlib.Data.List.Basic
import Mathlib.Data.List.Nodup
import Mathlib.Data.List.Perm.Basic

namespace Homonim

/-! ### finite facts about the program -/

def allRes : List Res := [.S, .R, .C, .P]
theorem allRes_complete (r : Res) : r ∈ allRes := by cases r <;> simp [allRes]

theorem prog_length_le (param : Bool) : (prog param).length ≤ 14 := by cases param <;> decide

theorem instrAt_lt_len {param : Bool} {pc : Nat} {i : Instr} (h : instrAt param pc = some i) :
    pc < (prog param).length := (List.getElem?_eq_some_iff.mp h).1

theorem instrAt_lt {param : Bool} {pc : Nat} {i : Instr} (h : instrAt param pc = some i) : pc < 14 :=
  Nat.lt_of_lt_of_le (instrAt_lt_len h) (prog_length_le param)

theorem instrAt_none_iff {param : Bool} {pc : Nat} : instrAt param pc = none ↔ (prog param).length ≤ pc :=
  List.getElem?_eq_none_iff

theorem local_acq : ∀ param : Bool, ∀ pc, pc < 14 → ∀ r ∈ allRes, ∀ r' ∈ allRes,
    instrAt param pc = some (.acq r) → (holdsAt param (pc+1) r' = decide (r' = r)) ∧ holdsAt param pc r' = false := by
  decide
theorem local_io : ∀ param : Bool, ∀ pc, pc < 14 → ∀ r ∈ allRes, ∀ r' ∈ allRes,
    instrAt param pc = some (.io r) →
      holdsAt param (pc+1) r' = decide (r' = r) ∧ holdsAt param pc r' = decide (r' = r) := by
  decide
theorem local_rel : ∀ param : Bool, ∀ pc, pc < 14 → ∀ r ∈ allRes, ∀ r' ∈ allRes,
    instrAt param pc = some (.rel r) → holdsAt param (pc+1) r' = false ∧ holdsAt param pc r' = decide (r' = r) := by
  decide
theorem local_compute : ∀ param : Bool, ∀ pc, pc < 14 → ∀ r' ∈ allRes,
    instrAt param pc = some .compute → holdsAt param (pc+1) r' = false ∧ holdsAt param pc r' = false := by
  decide
theorem local_io_unique : ∀ param : Bool, ∀ pc, pc < 14 → ∀ pc', pc' < 14 → ∀ r ∈ allRes,
    instrAt param pc = some (.io r) → instrAt param pc' = some (.io r) → pc = pc' := by
  decide

theorem holds_end (param : Bool) (pc : Nat) (r : Res) (h : instrAt param pc = none) : holdsAt param pc r = false := by
  simp [holdsAt, h]
theorem holds_zero (param : Bool) (r : Res) : holdsAt param 0 r = false := by
  cases param <;> cases r <;> decide

theorem holdsAt_instr {param : Bool} {pc : Nat} {r : Res} (h : holdsAt param pc r = true) :
    instrAt param pc = some (.io r) ∨ instrAt param pc = some (.rel r) := by
  unfold holdsAt at h
  split at h
  · rename_i r' hi; simp at h; subst h; exact Or.inl hi
  · rename_i r' hi; simp at h; subst h; exact Or.inr hi
  · simp at h

theorem instrAt_ioC (param : Bool) : instrAt param 9 = some (.io .C) := by cases param <;> decide
theorem instrAt_ioP : instrAt true 12 = some (.io .P) := by decide


/-! ### case view of `step` -/

inductive StepRel (param : Bool) (faults : Faults) (s : SState) (t : Nat) : SState → Prop
  | take (j : Nat) (rest : List Nat) (hth : s.threads[t]? = some none) (hq : s.queue = j :: rest) :
      StepRel param faults s t { s with queue := rest, threads := s.threads.set t (some ⟨j, 0⟩) }
  | fin (ts : TState) (hth : s.threads[t]? = some (some ts)) (hi : instrAt param ts.pc = none) :
      StepRel param faults s t { s with threads := s.threads.set t none, done := s.done ++ [(ts.job, none)] }
  | acq (ts : TState) (r : Res) (hth : s.threads[t]? = some (some ts)) (hi : instrAt param ts.pc = some (.acq r))
      (hfree : s.owner r = none) :
      StepRel param faults s t
        { s with threads := s.threads.set t (some ⟨ts.job, ts.pc + 1⟩), owner := setOwner s.owner r (some t) }
  | rel (ts : TState) (r : Res) (hth : s.threads[t]? = some (some ts)) (hi : instrAt param ts.pc = some (.rel r)) :
      StepRel param faults s t
        { s with threads := s.threads.set t (some ⟨ts.job, ts.pc + 1⟩), owner := setOwner s.owner r none }
  | ioFault (ts : TState) (r : Res) (hth : s.threads[t]? = some (some ts)) (hi : instrAt param ts.pc = some (.io r))
      (hf : faults ts.job ts.pc = true) :
      StepRel param faults s t
        { s with threads := s.threads.set t none, owner := setOwner s.owner r none,
                 done := s.done ++ [(ts.job, some ts.pc)] }
  | io (ts : TState) (r : Res) (hth : s.threads[t]? = some (some ts)) (hi : instrAt param ts.pc = some (.io r))
      (hf : faults ts.job ts.pc = false) :
      StepRel param faults s t
        { s with threads := s.threads.set t (some ⟨ts.job, ts.pc + 1⟩),
                 writes := if r = .C ∨ r = .P then s.writes ++ [(ts.job, r)] else s.writes }
  | compFault (ts : TState) (hth : s.threads[t]? = some (some ts)) (hi : instrAt param ts.pc = some .compute)
      (hf : faults ts.job ts.pc = true) :
      StepRel param faults s t
        { s with threads := s.threads.set t none, done := s.done ++ [(ts.job, some ts.pc)] }
  | comp (ts : TState) (hth : s.threads[t]? = some (some ts)) (hi : instrAt param ts.pc = some .compute)
      (hf : faults ts.job ts.pc = false) :
      StepRel param faults s t { s with threads := s.threads.set t (some ⟨ts.job, ts.pc + 1⟩) }

theorem step_cases {param : Bool} {faults : Faults} {s s' : SState} {t : Nat}
    (h : step param faults s t = some s') : StepRel param faults s t s' := by
  unfold step at h
  split at h
  · simp at h
  · rename_i hth
    split at h
    · simp at h
    · rename_i j rest hq
      injection h with h; subst h
      exact .take j rest hth hq
  · rename_i ts hth
    split at h
    · rename_i hi
      injection h with h; subst h
      exact .fin ts hth hi
    · rename_i r hi
      split at h
      · simp at h
      · rename_i hfree
        injection h with h; subst h
        refine .acq ts r hth hi ?_
        cases ho : s.owner r with
        | none => rfl
        | some x => simp [ho] at hfree
    · rename_i r hi
      injection h with h; subst h
      exact .rel ts r hth hi
    · rename_i r hi
      split at h
      · rename_i hf
        injection h with h; subst h
        exact .ioFault ts r hth hi hf
      · rename_i hf
        injection h with h; subst h
        exact .io ts r hth hi (by simpa using hf)
    · rename_i hi
      split at h
      · rename_i hf
        injection h with h; subst h
        exact .compFault ts hth hi hf
      · rename_i hf
        injection h with h; subst h
        exact .comp ts hth hi (by simpa using hf)

/-- conversely, the enabledness facts needed for `progress` -/
theorem step_isSome_of_running {param : Bool} {faults : Faults} {s : SState} {t : Nat} {ts : TState}
    (hth : s.threads[t]? = some (some ts))
    (hacq : ∀ r, instrAt param ts.pc = some (.acq r) → s.owner r = none) :
    (step param faults s t).isSome = true := by
  unfold step
  rw [hth]
  dsimp only
  split
  · rfl
  · rename_i r hi
    rw [hacq r hi]; rfl
  · rfl
  · split <;> rfl
  · split <;> rfl

theorem step_isSome_of_idle {param : Bool} {faults : Faults} {s : SState} {t : Nat}
    (hth : s.threads[t]? = some none) (hq : s.queue ≠ []) :
    (step param faults s t).isSome = true := by
  unfold step
  rw [hth]
  dsimp only
  split
  · rename_i h; exact absurd h hq
  · rfl


/-! ### the lock invariant -/

def thHolds (param : Bool) (th : Option TState) (r : Res) : Bool :=
  match th with | none => false | some ts => holdsAt param ts.pc r

def LockInv' (param : Bool) (threads : List (Option TState)) (owner : Res → Option Nat) : Prop :=
  ∀ r t, owner r = some t ↔ ∃ th, threads[t]? = some th ∧ thHolds param th r = true

/-- same statement as `SInv` in Props/C04.lean -/
def LockInv (param : Bool) (s : SState) : Prop :=
  ∀ r t, s.owner r = some t ↔ ∃ ts, s.threads[t]? = some (some ts) ∧ holdsAt param ts.pc r = true

theorem lockInv_iff (param : Bool) (s : SState) : LockInv param s ↔ LockInv' param s.threads s.owner := by
  unfold LockInv LockInv'
  constructor
  · intro h r t
    rw [h r t]
    constructor
    · rintro ⟨ts, h1, h2⟩; exact ⟨some ts, h1, h2⟩
    · rintro ⟨th, h1, h2⟩
      cases th with
      | none => simp [thHolds] at h2
      | some ts => exact ⟨ts, h1, h2⟩
  · intro h r t
    rw [h r t]
    constructor
    · rintro ⟨th, h1, h2⟩
      cases th with
      | none => simp [thHolds] at h2
      | some ts => exact ⟨ts, h1, h2⟩
    · rintro ⟨ts, h1, h2⟩; exact ⟨some ts, h1, h2⟩

theorem get_set {α : Type} (l : List α) (t t' : Nat) (v : α) (ht : t < l.length) :
    (l.set t v)[t']? = if t' = t then some v else l[t']? := by
  by_cases h : t' = t
  · subst h; simp [ht]
  · simp [h, List.getElem?_set_ne (Ne.symm h)]

theorem lt_of_get {α : Type} {l : List α} {t : Nat} {a : α} (h : l[t]? = some a) : t < l.length :=
  (List.getElem?_eq_some_iff.mp h).1

theorem lock_mutex {param : Bool} {threads : List (Option TState)} {owner : Res → Option Nat}
    (h : LockInv' param threads owner) {r : Res} {t1 t2 : Nat} {th1 th2 : Option TState}
    (h1 : threads[t1]? = some th1) (h2 : threads[t2]? = some th2)
    (hh1 : thHolds param th1 r = true) (hh2 : thHolds param th2 r = true) : t1 = t2 := by
  have a := (h r t1).2 ⟨th1, h1, hh1⟩
  have b := (h r t2).2 ⟨th2, h2, hh2⟩
  rw [a] at b; exact Option.some.inj b

/-- thread `t` changes without changing what it holds -/
theorem lock_same {param : Bool} {threads : List (Option TState)} {owner : Res → Option Nat}
    (h : LockInv' param threads owner) {t : Nat} {th v : Option TState} (hth : threads[t]? = some th)
    (hv : ∀ r, thHolds param v r = thHolds param th r) : LockInv' param (threads.set t v) owner := by
  have ht := lt_of_get hth
  intro r t'
  rw [get_set _ _ _ _ ht]
  by_cases htt : t' = t
  · subst htt
    simp only [if_true]
    rw [h r t']
    constructor
    · rintro ⟨th', h1, h2⟩
      rw [hth] at h1; cases h1
      exact ⟨v, rfl, by rw [hv]; exact h2⟩
    · rintro ⟨th', h1, h2⟩
      cases h1
      exact ⟨th, hth, by rw [← hv]; exact h2⟩
  · simp only [htt, if_false]; exact h r t'

/-- thread `t`, holding exactly `r0`, releases it -/
theorem lock_release {param : Bool} {threads : List (Option TState)} {owner : Res → Option Nat}
    (h : LockInv' param threads owner) {t : Nat} {th v : Option TState} {r0 : Res} (hth : threads[t]? = some th)
    (hold : ∀ r, thHolds param th r = decide (r = r0)) (hv : ∀ r, thHolds param v r = false) :
    LockInv' param (threads.set t v) (setOwner owner r0 none) := by
  have ht := lt_of_get hth
  intro r t'
  rw [get_set _ _ _ _ ht]
  unfold setOwner
  by_cases hr : r = r0
  · subst hr
    simp only [if_true]
    constructor
    · intro ho; cases ho
    · rintro ⟨th', h1, h2⟩
      by_cases htt : t' = t
      · subst htt; simp only [if_true] at h1; cases h1; rw [hv] at h2; cases h2
      · simp only [htt, if_false] at h1
        have : thHolds param th r = true := by rw [hold]; simp
        exact absurd (lock_mutex h h1 hth h2 this) htt
  · simp only [hr, if_false]
    by_cases htt : t' = t
    · subst htt; simp only [if_true]
      constructor
      · intro ho
        obtain ⟨th', h1, h2⟩ := (h r t').1 ho
        rw [hth] at h1; cases h1
        rw [hold] at h2; simp [hr] at h2
      · rintro ⟨th', h1, h2⟩; cases h1; rw [hv] at h2; cases h2
    · simp only [htt, if_false]; exact h r t'

/-- thread `t`, holding nothing, acquires the free lock `r0` -/
theorem lock_acquire {param : Bool} {threads : List (Option TState)} {owner : Res → Option Nat}
    (h : LockInv' param threads owner) {t : Nat} {th v : Option TState} {r0 : Res} (hth : threads[t]? = some th)
    (hfree : owner r0 = none)
    (hold : ∀ r, thHolds param th r = false) (hv : ∀ r, thHolds param v r = decide (r = r0)) :
    LockInv' param (threads.set t v) (setOwner owner r0 (some t)) := by
  have ht := lt_of_get hth
  intro r t'
  rw [get_set _ _ _ _ ht]
  unfold setOwner
  by_cases hr : r = r0
  · subst hr
    simp only [if_true]
    by_cases htt : t' = t
    · subst htt; simp only [if_true]
      constructor
      · intro _; exact ⟨v, rfl, by rw [hv]; simp⟩
      · intro _; trivial
    · simp only [htt, if_false]
      constructor
      · intro ho; exact absurd (Option.some.inj ho).symm htt
      · rintro ⟨th', h1, h2⟩
        have := (h r t').2 ⟨th', h1, h2⟩
        rw [hfree] at this; cases this
  · simp only [hr, if_false]
    by_cases htt : t' = t
    · subst htt; simp only [if_true]
      constructor
      · intro ho
        obtain ⟨th', h1, h2⟩ := (h r t').1 ho
        rw [hth] at h1; cases h1
        rw [hold] at h2; cases h2
      · rintro ⟨th', h1, h2⟩; cases h1; rw [hv] at h2; simp [hr] at h2
    · simp only [htt, if_false]; exact h r t'

theorem lockInv_step {param : Bool} {faults : Faults} {s s' : SState} {t : Nat}
    (h : LockInv param s) (hs : step param faults s t = some s') : LockInv param s' := by
  rw [lockInv_iff] at h ⊢
  cases step_cases hs with
  | take j rest hth hq =>
    exact lock_same h hth (fun r => by simp [thHolds, holds_zero])
  | fin ts hth hi =>
    exact lock_same h hth (fun r => by simp [thHolds, holds_end _ _ _ hi])
  | acq ts r0 hth hi hfree =>
    have L := fun r => local_acq param ts.pc (instrAt_lt hi) r0 (allRes_complete _) r (allRes_complete _) hi
    exact lock_acquire h hth hfree (fun r => by simp only [thHolds]; exact (L r).2)
      (fun r => by simp only [thHolds]; exact (L r).1)
  | rel ts r0 hth hi =>
    have L := fun r => local_rel param ts.pc (instrAt_lt hi) r0 (allRes_complete _) r (allRes_complete _) hi
    exact lock_release h hth (fun r => by simp only [thHolds]; exact (L r).2)
      (fun r => by simp only [thHolds]; exact (L r).1)
  | ioFault ts r0 hth hi hf =>
    have L := fun r => local_io param ts.pc (instrAt_lt hi) r0 (allRes_complete _) r (allRes_complete _) hi
    exact lock_release h hth (fun r => by simp only [thHolds]; exact (L r).2) (fun r => rfl)
  | io ts r0 hth hi hf =>
    have L := fun r => local_io param ts.pc (instrAt_lt hi) r0 (allRes_complete _) r (allRes_complete _) hi
    exact lock_same h hth (fun r => by simp only [thHolds]; rw [(L r).1, (L r).2])
  | compFault ts hth hi hf =>
    have L := fun r => local_compute param ts.pc (instrAt_lt hi) r (allRes_complete _) hi
    exact lock_same h hth (fun r => by simp only [thHolds]; rw [(L r).2])
  | comp ts hth hi hf =>
    have L := fun r => local_compute param ts.pc (instrAt_lt hi) r (allRes_complete _) hi
    exact lock_same h hth (fun r => by simp only [thHolds]; rw [(L r).1, (L r).2])

theorem lockInv_init (param : Bool) (jobs : List Nat) (T : Nat) : LockInv param (initState jobs T) := by
  intro r t
  simp only [initState]
  constructor
  · intro h; cases h
  · rintro ⟨ts, h1, _⟩
    rw [List.getElem?_replicate] at h1
    split at h1 <;> simp at h1

/-- induction principle for runs -/
theorem runSched_induct {param : Bool} {faults : Faults} (P : SState → Prop)
    (hstep : ∀ s t s', P s → step param faults s t = some s' → P s') :
    ∀ (sched : List Nat) (s : SState), P s → P (runSched param faults s sched) := by
  intro sched
  induction sched with
  | nil => intro s h; exact h
  | cons t ts ih =>
    intro s h
    unfold runSched
    split
    · rename_i s' hs; exact ih s' (hstep s t s' h hs)
    · exact ih s h

theorem lockInv_run (param : Bool) (faults : Faults) (jobs : List Nat) (T : Nat) (sched : List Nat) :
    LockInv param (runSched param faults (initState jobs T) sched) :=
  runSched_induct (LockInv param) (fun _ _ _ h hs => lockInv_step h hs) sched _ (lockInv_init param jobs T)


/-! ### coarse view of `step` for job accounting (lock owners ignored) -/

/-- program positions whose step can raise -/
def Faultable (param : Bool) (pc : Nat) : Prop :=
  (∃ r, instrAt param pc = some (.io r)) ∨ instrAt param pc = some .compute

/-- a thread takes a job -/
def TakeShape (s s' : SState) (t : Nat) : Prop :=
  ∃ j rest, s.threads[t]? = some none ∧ s.queue = j :: rest ∧ s'.queue = rest ∧
    s'.threads = s.threads.set t (some ⟨j, 0⟩) ∧ s'.writes = s.writes ∧ s'.done = s.done

/-- a running job executes one instruction successfully -/
def AdvShape (param : Bool) (faults : Faults) (s s' : SState) (t : Nat) : Prop :=
  ∃ ts i, s.threads[t]? = some (some ts) ∧ instrAt param ts.pc = some i ∧ s'.queue = s.queue ∧
    s'.threads = s.threads.set t (some ⟨ts.job, ts.pc + 1⟩) ∧ s'.done = s.done ∧
    (Faultable param ts.pc → faults ts.job ts.pc = false) ∧
    ((s'.writes = s.writes ∧ ∀ r, i = .io r → ¬ (r = .C ∨ r = .P)) ∨
      (∃ r, i = .io r ∧ (r = .C ∨ r = .P) ∧ s'.writes = s.writes ++ [(ts.job, r)]))

/-- a running job ends (normally or by a fault) -/
def EndShape (param : Bool) (faults : Faults) (s s' : SState) (t : Nat) : Prop :=
  ∃ ts res, s.threads[t]? = some (some ts) ∧ s'.queue = s.queue ∧ s'.threads = s.threads.set t none ∧
    s'.writes = s.writes ∧ s'.done = s.done ++ [(ts.job, res)] ∧
    ((res = none ∧ instrAt param ts.pc = none) ∨
      (res = some ts.pc ∧ faults ts.job ts.pc = true ∧ Faultable param ts.pc))

theorem step_shape {param : Bool} {faults : Faults} {s s' : SState} {t : Nat}
    (hs : step param faults s t = some s') :
    TakeShape s s' t ∨ AdvShape param faults s s' t ∨ EndShape param faults s s' t := by
  cases step_cases hs with
  | take j rest hth hq => exact Or.inl ⟨j, rest, hth, hq, rfl, rfl, rfl, rfl⟩
  | fin ts hth hi => exact Or.inr (Or.inr ⟨ts, none, hth, rfl, rfl, rfl, rfl, Or.inl ⟨rfl, hi⟩⟩)
  | acq ts r hth hi hfree =>
    refine Or.inr (Or.inl ⟨ts, _, hth, hi, rfl, rfl, rfl, ?_, Or.inl ⟨rfl, ?_⟩⟩)
    · rintro (⟨r', h⟩ | h) <;> rw [hi] at h <;> cases h
    · intro r' h; cases h
  | rel ts r hth hi =>
    refine Or.inr (Or.inl ⟨ts, _, hth, hi, rfl, rfl, rfl, ?_, Or.inl ⟨rfl, ?_⟩⟩)
    · rintro (⟨r', h⟩ | h) <;> rw [hi] at h <;> cases h
    · intro r' h; cases h
  | ioFault ts r hth hi hf =>
    exact Or.inr (Or.inr ⟨ts, some ts.pc, hth, rfl, rfl, rfl, rfl, Or.inr ⟨rfl, hf, Or.inl ⟨r, hi⟩⟩⟩)
  | io ts r hth hi hf =>
    by_cases hr : r = .C ∨ r = .P
    · refine Or.inr (Or.inl ⟨ts, _, hth, hi, rfl, rfl, rfl, fun _ => hf, Or.inr ⟨r, rfl, hr, ?_⟩⟩)
      simp only [hr, if_true]
    · refine Or.inr (Or.inl ⟨ts, _, hth, hi, rfl, rfl, rfl, fun _ => hf, Or.inl ⟨?_, ?_⟩⟩)
      · simp only [hr, if_false]
      · intro r' h; cases h; exact hr
  | compFault ts hth hi hf =>
    exact Or.inr (Or.inr ⟨ts, some ts.pc, hth, rfl, rfl, rfl, rfl, Or.inr ⟨rfl, hf, Or.inr hi⟩⟩)
  | comp ts hth hi hf =>
    refine Or.inr (Or.inl ⟨ts, _, hth, hi, rfl, rfl, rfl, fun _ => hf, Or.inl ⟨rfl, ?_⟩⟩)
    intro r' h; cases h


/-! ### counting running jobs -/

theorem sum_map_set {α : Type} (f : α → Nat) (l : List α) (t : Nat) (a v : α) (h : l[t]? = some a) :
    ((l.set t v).map f).sum + f a = (l.map f).sum + f v := by
  induction l generalizing t with
  | nil => simp at h
  | cons x xs ih =>
    cases t with
    | zero =>
      simp only [List.getElem?_cons_zero, Option.some.injEq] at h
      subst h
      simp only [List.set_cons_zero, List.map_cons, List.sum_cons]; omega
    | succ n =>
      simp only [List.getElem?_cons_succ] at h
      have := ih n h
      simp only [List.set_cons_succ, List.map_cons, List.sum_cons]; omega

def jobInd (j : Nat) : Option TState → Nat
  | none => 0
  | some ts => if ts.job = j then 1 else 0

def runCount (j : Nat) (l : List (Option TState)) : Nat := (l.map (jobInd j)).sum

theorem runCount_set (j : Nat) (l : List (Option TState)) (t : Nat) (a v : Option TState) (h : l[t]? = some a) :
    runCount j (l.set t v) + jobInd j a = runCount j l + jobInd j v :=
  sum_map_set (jobInd j) l t a v h

theorem runCount_pos {l : List (Option TState)} {t : Nat} {ts : TState} (h : l[t]? = some (some ts)) :
    1 ≤ runCount ts.job l := by
  have := runCount_set ts.job l t (some ts) none h
  simp only [jobInd, if_true] at this
  omega

/-- two distinct threads running the same job count twice -/
theorem runCount_two {l : List (Option TState)} {t1 t2 : Nat} {ts1 ts2 : TState} (hne : t1 ≠ t2)
    (h1 : l[t1]? = some (some ts1)) (h2 : l[t2]? = some (some ts2)) (hj : ts1.job = ts2.job) :
    2 ≤ runCount ts1.job l := by
  have a := runCount_set ts1.job l t1 (some ts1) none h1
  have h2' : (l.set t1 none)[t2]? = some (some ts2) := by
    rw [List.getElem?_set_ne hne]; exact h2
  have b := runCount_pos h2'
  rw [← hj] at b
  simp only [jobInd, if_true] at a
  omega

theorem runCount_all_none {l : List (Option TState)} (h : ∀ th ∈ l, th = none) (j : Nat) : runCount j l = 0 := by
  induction l with
  | nil => rfl
  | cons x xs ih =>
    have hx := h x (List.mem_cons_self)
    subst hx
    have := ih (fun th hth => h th (List.mem_cons_of_mem _ hth))
    simp only [runCount, List.map_cons, List.sum_cons, jobInd] at this ⊢
    omega

theorem set_running {l : List (Option TState)} {t t' : Nat} {v : Option TState} {ts' : TState}
    (h : (l.set t v)[t']? = some (some ts')) :
    (t' = t ∧ v = some ts') ∨ (t' ≠ t ∧ l[t']? = some (some ts')) := by
  by_cases htt : t' = t
  · subst htt
    left
    rw [List.getElem?_set_self'] at h
    cases hl : l[t']? with
    | none => simp [hl] at h
    | some a => simp [hl] at h; exact ⟨rfl, h⟩
  · right
    rw [List.getElem?_set_ne (Ne.symm htt)] at h
    exact ⟨htt, h⟩


/-! ### the job-accounting invariant -/

structure JInv (param : Bool) (faults : Faults) (jobs : List Nat) (T : Nat) (s : SState) : Prop where
  len : s.threads.length = T
  cnt : ∀ j, s.queue.count j + runCount j s.threads + (s.done.map Prod.fst).count j = jobs.count j
  nf_run : ∀ (t : Nat) (ts : TState), s.threads[t]? = some (some ts) → ∀ pc, pc < ts.pc → Faultable param pc → faults ts.job pc = false
  nf_done : ∀ j, (j, none) ∈ s.done → ∀ pc, Faultable param pc → faults j pc = false
  f_done : ∀ j pc, (j, some pc) ∈ s.done → faults j pc = true ∧ Faultable param pc
  wr_run : ∀ (t : Nat) (ts : TState), s.threads[t]? = some (some ts) → ∀ pc r, pc < ts.pc → instrAt param pc = some (.io r) →
    (r = .C ∨ r = .P) → (ts.job, r) ∈ s.writes
  wr_done : ∀ j, (j, none) ∈ s.done → ∀ pc r, instrAt param pc = some (.io r) → (r = .C ∨ r = .P) → (j, r) ∈ s.writes
  wr_sound : ∀ j r, (j, r) ∈ s.writes → (r = .C ∨ r = .P) ∧ (∃ pc, instrAt param pc = some (.io r)) ∧ j ∈ jobs

theorem faultable_lt {param : Bool} {pc : Nat} (h : Faultable param pc) : pc < (prog param).length := by
  rcases h with ⟨r, h⟩ | h <;> exact instrAt_lt_len h

theorem jinv_init (param : Bool) (faults : Faults) (jobs : List Nat) (T : Nat) :
    JInv param faults jobs T (initState jobs T) where
  len := by simp [initState]
  cnt := by
    intro j
    have : runCount j (List.replicate T none) = 0 :=
      runCount_all_none (fun th hth => (List.mem_replicate.mp hth).2) j
    simp [initState, this]
  nf_run := by
    intro t ts h
    simp only [initState] at h
    rw [List.getElem?_replicate] at h
    split at h <;> simp at h
  nf_done := by intro j h; simp [initState] at h
  f_done := by intro j pc h; simp [initState] at h
  wr_run := by
    intro t ts h
    simp only [initState] at h
    rw [List.getElem?_replicate] at h
    split at h <;> simp at h
  wr_done := by intro j h; simp [initState] at h
  wr_sound := by intro j r h; simp [initState] at h

theorem jinv_running_mem {param : Bool} {faults : Faults} {jobs : List Nat} {T : Nat} {s : SState}
    (h : JInv param faults jobs T s) {t : Nat} {ts : TState} (hth : s.threads[t]? = some (some ts)) :
    ts.job ∈ jobs := by
  have := h.cnt ts.job
  have := runCount_pos hth
  exact List.count_pos_iff.mp (by omega)

theorem jinv_step {param : Bool} {faults : Faults} {jobs : List Nat} {T : Nat} {s s' : SState} {t : Nat}
    (h : JInv param faults jobs T s) (hs : step param faults s t = some s') : JInv param faults jobs T s' := by
  rcases step_shape hs with ⟨j, rest, hth, hq, hq', hth', hw', hd'⟩ |
      ⟨ts, i, hth, hi, hq', hth', hd', hnf, hw'⟩ | ⟨ts, res, hth, hq', hth', hw', hd', hres⟩
  · -- take
    refine ⟨?_, ?_, ?_, ?_, ?_, ?_, ?_, ?_⟩
    · rw [hth', List.length_set]; exact h.len
    · intro j'
      have c := h.cnt j'
      have r := runCount_set j' s.threads t none (some ⟨j, 0⟩) hth
      rw [hq', hth', hd']
      rw [hq, List.count_cons] at c
      simp only [jobInd, beq_iff_eq] at r c
      omega
    · intro t' ts' ht' pc hpc
      rw [hth'] at ht'
      rcases set_running ht' with ⟨_, hv⟩ | ⟨_, hold⟩
      · cases hv; exact absurd hpc (Nat.not_lt_zero _)
      · exact h.nf_run t' ts' hold pc hpc
    · rw [hd']; exact h.nf_done
    · rw [hd']; exact h.f_done
    · intro t' ts' ht' pc r hpc
      rw [hth'] at ht'
      rcases set_running ht' with ⟨_, hv⟩ | ⟨_, hold⟩
      · cases hv; exact absurd hpc (Nat.not_lt_zero _)
      · rw [hw']; exact h.wr_run t' ts' hold pc r hpc
    · rw [hd', hw']; exact h.wr_done
    · rw [hw']; exact h.wr_sound
  · -- advance
    have hmono : ∀ w, w ∈ s.writes → w ∈ s'.writes := by
      intro w hw
      rcases hw' with ⟨e, _⟩ | ⟨r, _, _, e⟩
      · rw [e]; exact hw
      · rw [e]; exact List.mem_append_left _ hw
    refine ⟨?_, ?_, ?_, ?_, ?_, ?_, ?_, ?_⟩
    · rw [hth', List.length_set]; exact h.len
    · intro j'
      have c := h.cnt j'
      have r := runCount_set j' s.threads t (some ts) (some ⟨ts.job, ts.pc + 1⟩) hth
      rw [hq', hth', hd']
      simp only [jobInd] at r
      omega
    · intro t' ts' ht' pc hpc hfa
      rw [hth'] at ht'
      rcases set_running ht' with ⟨_, hv⟩ | ⟨_, hold⟩
      · cases hv
        simp only at hpc ⊢
        rcases Nat.lt_succ_iff_lt_or_eq.mp hpc with hlt | heq
        · exact h.nf_run t ts hth pc hlt hfa
        · subst heq; exact hnf hfa
      · exact h.nf_run t' ts' hold pc hpc hfa
    · rw [hd']; exact h.nf_done
    · rw [hd']; exact h.f_done
    · intro t' ts' ht' pc r hpc hir hr
      rw [hth'] at ht'
      rcases set_running ht' with ⟨_, hv⟩ | ⟨_, hold⟩
      · cases hv
        simp only at hpc ⊢
        rcases Nat.lt_succ_iff_lt_or_eq.mp hpc with hlt | heq
        · exact hmono _ (h.wr_run t ts hth pc r hlt hir hr)
        · subst heq
          rw [hi] at hir
          cases hir
          rcases hw' with ⟨_, hno⟩ | ⟨r', e1, _, e2⟩
          · exact absurd hr (hno r rfl)
          · cases e1; rw [e2]; exact List.mem_append_right _ (List.mem_singleton.mpr rfl)
      · exact hmono _ (h.wr_run t' ts' hold pc r hpc hir hr)
    · intro j' hj' pc r hir hr
      rw [hd'] at hj'
      exact hmono _ (h.wr_done j' hj' pc r hir hr)
    · intro j' r hjr
      rcases hw' with ⟨e, _⟩ | ⟨r', e1, hr', e2⟩
      · rw [e] at hjr; exact h.wr_sound j' r hjr
      · rw [e2] at hjr
        rcases List.mem_append.mp hjr with hold | hnew
        · exact h.wr_sound j' r hold
        · rw [List.mem_singleton] at hnew
          cases hnew
          subst e1
          exact ⟨hr', ⟨ts.pc, hi⟩, jinv_running_mem h hth⟩
  · -- end
    refine ⟨?_, ?_, ?_, ?_, ?_, ?_, ?_, ?_⟩
    · rw [hth', List.length_set]; exact h.len
    · intro j'
      have c := h.cnt j'
      have r := runCount_set j' s.threads t (some ts) none hth
      rw [hq', hth', hd']
      simp only [jobInd] at r
      simp only [List.map_append, List.map_cons, List.map_nil, List.count_append, List.count_cons,
        List.count_nil, beq_iff_eq]
      omega
    · intro t' ts' ht' pc hpc
      rw [hth'] at ht'
      rcases set_running ht' with ⟨_, hv⟩ | ⟨_, hold⟩
      · cases hv
      · exact h.nf_run t' ts' hold pc hpc
    · intro j' hj' pc hfa
      rw [hd'] at hj'
      rcases List.mem_append.mp hj' with hold | hnew
      · exact h.nf_done j' hold pc hfa
      · rw [List.mem_singleton] at hnew
        cases hnew
        rcases hres with ⟨_, hend⟩ | ⟨e, _⟩
        · have := instrAt_none_iff.mp hend
          exact h.nf_run t ts hth pc (Nat.lt_of_lt_of_le (faultable_lt hfa) this) hfa
        · cases e
    · intro j' pc hj'
      rw [hd'] at hj'
      rcases List.mem_append.mp hj' with hold | hnew
      · exact h.f_done j' pc hold
      · rw [List.mem_singleton] at hnew
        cases hnew
        rcases hres with ⟨e, _⟩ | ⟨e, hf, hfa⟩
        · cases e
        · cases e; exact ⟨hf, hfa⟩
    · intro t' ts' ht' pc r hpc
      rw [hth'] at ht'
      rcases set_running ht' with ⟨_, hv⟩ | ⟨_, hold⟩
      · cases hv
      · rw [hw']; exact h.wr_run t' ts' hold pc r hpc
    · intro j' hj' pc r hir hr
      rw [hd'] at hj'
      rw [hw']
      rcases List.mem_append.mp hj' with hold | hnew
      · exact h.wr_done j' hold pc r hir hr
      · rw [List.mem_singleton] at hnew
        cases hnew
        rcases hres with ⟨_, hend⟩ | ⟨e, _⟩
        · have := instrAt_none_iff.mp hend
          exact h.wr_run t ts hth pc r (Nat.lt_of_lt_of_le (instrAt_lt_len hir) this) hir hr
        · cases e
    · rw [hw']; exact h.wr_sound

theorem jinv_run (param : Bool) (faults : Faults) (jobs : List Nat) (T : Nat) (sched : List Nat) :
    JInv param faults jobs T (runSched param faults (initState jobs T) sched) :=
  runSched_induct (JInv param faults jobs T) (fun _ _ _ h hs => jinv_step h hs) sched _
    (jinv_init param faults jobs T)


/-! ### each block is written at most once (needs distinct job ids) -/

structure WInv (param : Bool) (s : SState) : Prop where
  nodup : s.writes.Nodup
  notq : ∀ j r, (j, r) ∈ s.writes → j ∉ s.queue
  run : ∀ j r, (j, r) ∈ s.writes → ∀ (t : Nat) (ts : TState), s.threads[t]? = some (some ts) → ts.job = j →
    ∃ pc, pc < ts.pc ∧ instrAt param pc = some (.io r)

theorem winv_init (param : Bool) (jobs : List Nat) (T : Nat) : WInv param (initState jobs T) where
  nodup := by simp [initState]
  notq := by intro j r h; simp [initState] at h
  run := by intro j r h; simp [initState] at h

theorem jinv_count_le {param : Bool} {faults : Faults} {jobs : List Nat} {T : Nat} {s : SState}
    (h : JInv param faults jobs T s) (hnd : jobs.Nodup) (j : Nat) :
    s.queue.count j + runCount j s.threads + (s.done.map Prod.fst).count j ≤ 1 := by
  rw [h.cnt j]; exact List.nodup_iff_count.mp hnd j

theorem winv_step {param : Bool} {faults : Faults} {jobs : List Nat} {T : Nat} {s s' : SState} {t : Nat}
    (hnd : jobs.Nodup) (hj : JInv param faults jobs T s) (h : WInv param s)
    (hs : step param faults s t = some s') : WInv param s' := by
  rcases step_shape hs with ⟨j, rest, hth, hq, hq', hth', hw', hd'⟩ |
      ⟨ts, i, hth, hi, hq', hth', hd', hnf, hw'⟩ | ⟨ts, res, hth, hq', hth', hw', hd', hres⟩
  · -- take
    refine ⟨?_, ?_, ?_⟩
    · rw [hw']; exact h.nodup
    · intro j' r hjr hmem
      rw [hw'] at hjr; rw [hq'] at hmem
      exact h.notq j' r hjr (by rw [hq]; exact List.mem_cons_of_mem _ hmem)
    · intro j' r hjr t' ts' ht' hjob
      rw [hw'] at hjr; rw [hth'] at ht'
      rcases set_running ht' with ⟨_, hv⟩ | ⟨_, hold⟩
      · cases hv
        simp only at hjob
        subst hjob
        exact absurd (by rw [hq]; exact List.mem_cons_self) (h.notq j r hjr)
      · exact h.run j' r hjr t' ts' hold hjob
  · -- advance
    -- the thread's successor state
    have hrun_old : ∀ j' r, (j', r) ∈ s.writes → ∀ (t' : Nat) (ts' : TState),
        (s.threads.set t (some ⟨ts.job, ts.pc + 1⟩))[t']? = some (some ts') → ts'.job = j' →
        ∃ pc, pc < ts'.pc ∧ instrAt param pc = some (.io r) := by
      intro j' r hjr t' ts' ht' hjob
      rcases set_running ht' with ⟨_, hv⟩ | ⟨_, hold⟩
      · cases hv
        obtain ⟨pc, hpc, hio⟩ := h.run j' r hjr t ts hth hjob
        exact ⟨pc, Nat.lt_succ_of_lt hpc, hio⟩
      · exact h.run j' r hjr t' ts' hold hjob
    rcases hw' with ⟨e, _⟩ | ⟨r0, e1, hr0, e2⟩
    · refine ⟨?_, ?_, ?_⟩
      · rw [e]; exact h.nodup
      · rw [e, hq']; exact h.notq
      · rw [e, hth']; exact hrun_old
    · subst e1
      have hnew : (ts.job, r0) ∉ s.writes := by
        intro hmem
        obtain ⟨pc, hpc, hio⟩ := h.run _ _ hmem t ts hth rfl
        have := local_io_unique param pc (instrAt_lt hio) ts.pc (instrAt_lt hi) r0 (allRes_complete _) hio hi
        omega
      have hle := jinv_count_le hj hnd ts.job
      have hpos := runCount_pos hth
      refine ⟨?_, ?_, ?_⟩
      · rw [e2, List.nodup_append]
        refine ⟨h.nodup, List.nodup_singleton _, ?_⟩
        intro a ha b hb
        rw [List.mem_singleton] at hb
        subst hb
        intro hab; subst hab; exact hnew ha
      · intro j' r hjr
        rw [e2] at hjr; rw [hq']
        rcases List.mem_append.mp hjr with hold | hn
        · exact h.notq j' r hold
        · rw [List.mem_singleton] at hn
          cases hn
          apply List.count_eq_zero.mp
          omega
      · intro j' r hjr t' ts' ht' hjob
        rw [e2] at hjr; rw [hth'] at ht'
        rcases List.mem_append.mp hjr with hold | hn
        · exact hrun_old j' r hold t' ts' ht' hjob
        · rw [List.mem_singleton] at hn
          cases hn
          rcases set_running ht' with ⟨_, hv⟩ | ⟨hne, hold⟩
          · cases hv
            exact ⟨ts.pc, Nat.lt_succ_self _, hi⟩
          · have := runCount_two hne hold hth hjob
            rw [hjob] at this
            omega
  · -- end
    refine ⟨?_, ?_, ?_⟩
    · rw [hw']; exact h.nodup
    · rw [hw', hq']; exact h.notq
    · intro j' r hjr t' ts' ht' hjob
      rw [hw'] at hjr; rw [hth'] at ht'
      rcases set_running ht' with ⟨_, hv⟩ | ⟨_, hold⟩
      · cases hv
      · exact h.run j' r hjr t' ts' hold hjob

theorem jwinv_run (param : Bool) (faults : Faults) (jobs : List Nat) (hnd : jobs.Nodup) (T : Nat) (sched : List Nat) :
    JInv param faults jobs T (runSched param faults (initState jobs T) sched) ∧
      WInv param (runSched param faults (initState jobs T) sched) :=
  runSched_induct (fun s => JInv param faults jobs T s ∧ WInv param s)
    (fun _ _ _ h hs => ⟨jinv_step h.1 hs, winv_step hnd h.1 h.2 hs⟩) sched _
    ⟨jinv_init param faults jobs T, winv_init param jobs T⟩

/-! ### final states -/

theorem final_iff (s : SState) : s.final = true ↔ s.queue = [] ∧ ∀ th ∈ s.threads, th = none := by
  simp [SState.final, List.all_eq_true, List.isEmpty_iff, Option.isNone_iff_eq_none]

theorem final_not_running {s : SState} (hf : s.final = true) {t : Nat} {ts : TState}
    (h : s.threads[t]? = some (some ts)) : False := by
  have := ((final_iff s).mp hf).2 _ (List.mem_of_getElem? h)
  cases this

theorem final_done_perm {param : Bool} {faults : Faults} {jobs : List Nat} {T : Nat} {s : SState}
    (h : JInv param faults jobs T s) (hf : s.final = true) : (s.done.map Prod.fst).Perm jobs := by
  obtain ⟨hq, hth⟩ := (final_iff s).mp hf
  rw [List.perm_iff_count]
  intro j
  have c := h.cnt j
  rw [hq, runCount_all_none hth] at c
  simpa using c

theorem final_done_mem {param : Bool} {faults : Faults} {jobs : List Nat} {T : Nat} {s : SState}
    (h : JInv param faults jobs T s) (hf : s.final = true) {j : Nat} (hj : j ∈ jobs) :
    ∃ res, (j, res) ∈ s.done := by
  have := (final_done_perm h hf).mem_iff.mpr hj
  obtain ⟨⟨j', res⟩, hm, rfl⟩ := List.mem_map.mp this
  exact ⟨res, hm⟩

theorem final_faulty_fails {param : Bool} {faults : Faults} {jobs : List Nat} {T : Nat} {s : SState}
    (h : JInv param faults jobs T s) (hf : s.final = true) {j pc : Nat} (hj : j ∈ jobs)
    (hfault : faults j pc = true) (hinstr : Faultable param pc) : ∃ pc', (j, some pc') ∈ s.done := by
  obtain ⟨res, hm⟩ := final_done_mem h hf hj
  cases res with
  | none =>
    have := h.nf_done j hm pc hinstr
    rw [hfault] at this; cases this
  | some pc' => exact ⟨pc', hm⟩

theorem outcome_ok_iff (s : SState) : s.outcome = .ok ↔ ∀ d ∈ s.done, d.2 = none := by
  unfold SState.outcome
  split
  · rename_i hany
    constructor
    · intro h; cases h
    · intro h
      obtain ⟨d, hd, hs⟩ := List.any_eq_true.mp hany
      rw [h d hd] at hs; cases hs
  · rename_i hany
    constructor
    · intro _ d hd
      cases hd2 : d.2 with
      | none => rfl
      | some x =>
        exact absurd (List.any_eq_true.mpr ⟨d, hd, by rw [hd2]; rfl⟩) hany
    · intro _; rfl

theorem outcome_raised_of_mem (s : SState) (j pc : Nat) (h : (j, some pc) ∈ s.done) : s.outcome = .raised := by
  unfold SState.outcome
  rw [if_pos]
  exact List.any_eq_true.mpr ⟨(j, some pc), h, rfl⟩

theorem final_ok_written {param : Bool} {faults : Faults} {jobs : List Nat} {T : Nat} {s : SState}
    (h : JInv param faults jobs T s) (hf : s.final = true) (hok : s.outcome = .ok) {j : Nat} (hj : j ∈ jobs) :
    (j, Res.C) ∈ s.writes ∧ (param = true → (j, Res.P) ∈ s.writes) := by
  obtain ⟨res, hm⟩ := final_done_mem h hf hj
  have := (outcome_ok_iff s).mp hok _ hm
  simp only at this
  subst this
  refine ⟨h.wr_done j hm 9 .C (instrAt_ioC param) (Or.inl rfl), ?_⟩
  intro hp
  subst hp
  exact h.wr_done j hm 12 .P instrAt_ioP (Or.inr rfl)

theorem final_locksFree {param : Bool} {s : SState} (h : LockInv param s) (hf : s.final = true) :
    s.locksFree = true := by
  have key : ∀ r, (s.owner r).isNone = true := by
    intro r
    cases ho : s.owner r with
    | none => rfl
    | some t =>
      obtain ⟨ts, hts, _⟩ := (h r t).1 ho
      exact (final_not_running hf hts).elim
  simp [SState.locksFree, key]

/-- in a final state of a fault-free run, the completed writes are exactly the C (and P) writes of all jobs -/
theorem final_writes_iff {param : Bool} {jobs : List Nat} {T : Nat} {s : SState}
    (h : JInv param (fun _ _ => false) jobs T s) (hf : s.final = true) (j : Nat) (r : Res) :
    (j, r) ∈ s.writes ↔ j ∈ jobs ∧ (r = .C ∨ r = .P) ∧ ∃ pc, instrAt param pc = some (.io r) := by
  constructor
  · intro hm
    obtain ⟨a, b, c⟩ := h.wr_sound j r hm
    exact ⟨c, a, b⟩
  · rintro ⟨hj, hr, pc, hpc⟩
    obtain ⟨res, hm⟩ := final_done_mem h hf hj
    cases res with
    | none => exact h.wr_done j hm pc r hpc hr
    | some pc' => have := (h.f_done j pc' hm).1; cases this

/-! ### no deadlock -/

theorem progress_of_inv {param : Bool} {faults : Faults} {T : Nat} {s : SState} (hT : 0 < T)
    (hl : LockInv param s) (hlen : s.threads.length = T) (hnf : s.final = false) :
    ∃ t, (step param faults s t).isSome = true := by
  by_cases hrun : ∃ (t : Nat) (ts : TState), s.threads[t]? = some (some ts)
  · obtain ⟨t, ts, hth⟩ := hrun
    by_cases hblock : ∃ r, instrAt param ts.pc = some (.acq r) ∧ (s.owner r).isSome = true
    · -- blocked on a held lock: its owner can step
      obtain ⟨r, _, ho⟩ := hblock
      obtain ⟨t', ho'⟩ := Option.isSome_iff_exists.mp ho
      obtain ⟨ts', hth', hh⟩ := (hl r t').1 ho'
      refine ⟨t', step_isSome_of_running hth' ?_⟩
      intro r' hi'
      rcases holdsAt_instr hh with h | h <;> rw [hi'] at h <;> cases h
    · refine ⟨t, step_isSome_of_running hth ?_⟩
      intro r hi
      cases ho : s.owner r with
      | none => rfl
      | some x => exact absurd ⟨r, hi, by rw [ho]; rfl⟩ hblock
  · -- all threads idle: the queue is non-empty and thread 0 takes a job
    have hall : ∀ th ∈ s.threads, th = none := by
      intro th hmem
      obtain ⟨t, ht⟩ := List.getElem?_of_mem hmem
      cases th with
      | none => rfl
      | some ts => exact absurd ⟨t, ts, ht⟩ hrun
    have hq : s.queue ≠ [] := by
      intro hq
      have : s.final = true := (final_iff s).mpr ⟨hq, hall⟩
      rw [hnf] at this; cases this
    have h0 : 0 < s.threads.length := by omega
    have hth0 : s.threads[0]? = some none := by
      rw [List.getElem?_eq_getElem h0]
      exact congrArg some (hall _ (List.getElem_mem h0))
    exact ⟨0, step_isSome_of_idle hth0 hq⟩


/-! ### disjoint block writes -/

theorem applyWrites_cons {α : Type} (cover : Nat → Nat → Bool) (val : Nat → Nat → α) (init : Nat → α)
    (b : Nat) (ws : List Nat) :
    applyWrites cover val init (b :: ws) =
      applyWrites cover val (fun x => if cover b x then val b x else init x) ws := rfl

/-- a pixel no block covers keeps its initial value -/
theorem applyWrites_not_covered {α : Type} (cover : Nat → Nat → Bool) (val : Nat → Nat → α) (init : Nat → α)
    (ws : List Nat) (x : Nat) (h : ∀ b ∈ ws, cover b x = false) : applyWrites cover val init ws x = init x := by
  induction ws generalizing init with
  | nil => rfl
  | cons b ws ih =>
    rw [applyWrites_cons, ih _ (fun b' hb' => h b' (List.mem_cons_of_mem _ hb'))]
    simp [h b List.mem_cons_self]

/-- a pixel covered by exactly one block of the list gets that block's value -/
theorem applyWrites_covered {α : Type} (cover : Nat → Nat → Bool) (val : Nat → Nat → α) (init : Nat → α)
    (ws : List Nat) (x b : Nat) (hb : b ∈ ws) (hc : cover b x = true)
    (huniq : ∀ b' ∈ ws, cover b' x = true → b' = b) : applyWrites cover val init ws x = val b x := by
  induction ws generalizing init with
  | nil => cases hb
  | cons b0 ws ih =>
    rw [applyWrites_cons]
    by_cases hmem : b ∈ ws
    · exact ih _ hmem (fun b' hb' => huniq b' (List.mem_cons_of_mem _ hb'))
    · have hb0 : b = b0 := by
        rcases List.mem_cons.mp hb with h | h
        · exact h
        · exact absurd h hmem
      subst hb0
      rw [applyWrites_not_covered]
      · simp [hc]
      · intro b' hb'
        cases hcb : cover b' x with
        | false => rfl
        | true =>
          have := huniq b' (List.mem_cons_of_mem _ hb') hcb
          subst this; exact absurd hb' hmem

theorem applyWrites_perm {α : Type} (cover : Nat → Nat → Bool) (val : Nat → Nat → α) (init : Nat → α)
    (ws ws' : List Nat) (hperm : ws.Perm ws')
    (hdisj : ∀ b ∈ ws, ∀ b' ∈ ws, b ≠ b' → ∀ x, ¬ (cover b x = true ∧ cover b' x = true)) :
    applyWrites cover val init ws = applyWrites cover val init ws' := by
  funext x
  by_cases hex : ∃ b ∈ ws, cover b x = true
  · obtain ⟨b, hb, hc⟩ := hex
    have huniq : ∀ b' ∈ ws, cover b' x = true → b' = b := by
      intro b' hb' hc'
      by_contra hne
      exact hdisj b' hb' b hb hne x ⟨hc', hc⟩
    rw [applyWrites_covered cover val init ws x b hb hc huniq,
      applyWrites_covered cover val init ws' x b (hperm.mem_iff.mp hb) hc
        (fun b' hb' => huniq b' (hperm.mem_iff.mpr hb'))]
  · have hno : ∀ b ∈ ws, cover b x = false := by
      intro b hb
      cases hc : cover b x with
      | false => rfl
      | true => exact absurd ⟨b, hb, hc⟩ hex
    rw [applyWrites_not_covered cover val init ws x hno,
      applyWrites_not_covered cover val init ws' x (fun b hb => hno b (hperm.mem_iff.mpr hb))]

/-! ### the writes of one file, as a list of block ids -/

def fileWrites (s : SState) (r : Res) : List Nat := (s.writes.filter fun w => w.2 = r).map Prod.fst

theorem mem_fileWrites (s : SState) (r : Res) (j : Nat) : j ∈ fileWrites s r ↔ (j, r) ∈ s.writes := by
  unfold fileWrites
  constructor
  · intro h
    obtain ⟨⟨j', r'⟩, hm, rfl⟩ := List.mem_map.mp h
    obtain ⟨hm', hr⟩ := List.mem_filter.mp hm
    simp only [decide_eq_true_eq] at hr
    subst hr; exact hm'
  · intro h
    exact List.mem_map.mpr ⟨(j, r), List.mem_filter.mpr ⟨h, by simp⟩, rfl⟩

theorem fileWrites_nodup (s : SState) (r : Res) (h : s.writes.Nodup) : (fileWrites s r).Nodup := by
  unfold fileWrites
  apply List.Nodup.map_on _ (h.filter _)
  rintro ⟨j1, r1⟩ h1 ⟨j2, r2⟩ h2 he
  have e1 := (List.mem_filter.mp h1).2
  have e2 := (List.mem_filter.mp h2).2
  simp only [decide_eq_true_eq] at e1 e2 he
  subst e1 e2 he
  rfl

/-- two final fault-free states (any thread counts, any schedules) have written the same blocks to each file -/
theorem final_fileWrites_perm {param : Bool} {jobs : List Nat} {T1 T2 : Nat} {s1 s2 : SState}
    (h1 : JInv param (fun _ _ => false) jobs T1 s1) (w1 : WInv param s1)
    (h2 : JInv param (fun _ _ => false) jobs T2 s2) (w2 : WInv param s2)
    (hf1 : s1.final = true) (hf2 : s2.final = true) (r : Res) :
    (fileWrites s1 r).Perm (fileWrites s2 r) := by
  rw [List.perm_ext_iff_of_nodup (fileWrites_nodup s1 r w1.nodup) (fileWrites_nodup s2 r w2.nodup)]
  intro j
  rw [mem_fileWrites, mem_fileWrites, final_writes_iff h1 hf1, final_writes_iff h2 hf2]

end Homonim
