/-
  Helper lemmas for the block fan-out machine (Model/Sched.lean).
-/
import Homonim.Model.Sched
import Mathlib.Tactic.Linarith
import Mathlib.Data.List.Basic
import Mathlib.Data.List.Nodup
import Mathlib.Data.List.Perm.Basic

namespace Homonim

end Homonim
