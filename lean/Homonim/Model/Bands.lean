/-
  Homonim.Model.Bands — `MatchedPairReader._get_band_info` and `_match_pair_bands`:
  candidate bands, wavelengths (with RGB defaults), greedy relative-distance matching, threshold, file-order
  fallback, force branch, final truncation.  Wavelengths are exact rationals; a missing wavelength is `none` (NaN).
-/
namespace Homonim

inductive ColorInterp | red | green | blue | other deriving Repr, DecidableEq

/-- what the matcher sees of one band of a file -/
structure BandMeta where
  alpha : Bool                -- colour interpretation is alpha
  maskDescr : Bool            -- description ends with `_MASK` / `_DIST` (geedim mask bands)
  ci : ColorInterp
  wl : Option Rat             -- `center_wavelength` tag
  deriving Repr, DecidableEq

inductive MatchErr
  | invalidBand | alphaBand | noBands | fewerRef | unmatchedWavelength | unmatchedCount
  deriving Repr, DecidableEq

/-- standard RGB centre wavelengths -/
def stdRgb : ColorInterp → Option Rat
  | .red => some (650 / 1000)
  | .green => some (560 / 1000)
  | .blue => some (480 / 1000)
  | .other => none

/-- `_get_band_info`: (selected 1-based band indices, their wavelengths) or an error -/
def bandInfo (bands : List BandMeta) (sel : Option (List Nat)) : Except MatchErr (List Nat × List (Option Rat)) :=
  let count := bands.length
  let idx := List.range count
  let nonAlpha : List Nat := (idx.filter fun i => match bands[i]? with
    | some b => !b.alpha && !b.maskDescr | none => false).map (· + 1)
  let refl : List Nat := nonAlpha.filter fun bi => match bands[bi - 1]? with
    | some b => b.wl.isSome | none => false
  match sel with
  | some s =>
    if !(s.all fun b => decide (1 ≤ b) && decide (b ≤ count)) then .error .invalidBand
    else if !(s.all fun b => nonAlpha.contains b) then .error .alphaBand
    else finish bands nonAlpha (if s.isEmpty then (if !refl.isEmpty then refl else nonAlpha) else s)
  | none => finish bands nonAlpha (if !refl.isEmpty then refl else nonAlpha)
where
  finish (bands : List BandMeta) (nonAlpha chosen : List Nat) : Except MatchErr (List Nat × List (Option Rat)) :=
    if chosen.isEmpty then .error .noBands else
    -- centre wavelengths of all bands, then RGB defaults when there are exactly three non-alpha bands
    let cw0 : List (Option Rat) := bands.map (·.wl)
    let cw1 : List (Option Rat) :=
      if nonAlpha.length = 3 then
        let step1 := (List.range bands.length).map fun i =>
          match cw0.getD i none, bands[i]? with
          | some w, _ => some w
          | none, some b => if nonAlpha.contains (i + 1) then stdRgb b.ci else none
          | none, none => none
        -- if none of the three non-alpha bands has a wavelength now: assume R, G, B in file order
        if nonAlpha.all fun bi => (step1.getD (bi - 1) none).isNone then
          (List.range bands.length).map fun i =>
            match nonAlpha.idxOf? (i + 1) with
            | some 0 => some (650 / 1000 : Rat)
            | some 1 => some (560 / 1000)
            | some 2 => some (480 / 1000)
            | _ => step1.getD i none
        else step1
      else cw0
    .ok (chosen, chosen.map fun bi => cw1.getD (bi - 1) none)

/-- refusals of a user band selection, in the order they are tested -/
inductive BandRefusal | outOfRange | alphaOrMask deriving Repr, DecidableEq
/-- the order in which `_get_band_info` settles on the bands to use -/
inductive BandChoice | userBands | reflectanceBands | nonAlphaBands | fail deriving Repr, DecidableEq
/-- the RGB default branch (only for files with exactly three candidate bands) -/
inductive RgbStep | keepExistingWavelength | fromColorInterp | allThreeMissingAssumeRgbInFileOrder deriving Repr, DecidableEq

def bandRefusalsModel : List BandRefusal := [.outOfRange, .alphaOrMask]
def bandChoiceModel : List BandChoice := [.userBands, .reflectanceBands, .nonAlphaBands, .fail]
def rgbStepsModel : List RgbStep := [.keepExistingWavelength, .fromColorInterp, .allThreeMissingAssumeRgbInFileOrder]

/-- candidate band of `_get_band_info`: not alpha and not a geedim `*_MASK` / `*_DIST` band -/
def BandMeta.candidate (b : BandMeta) : Bool := !b.alpha && !b.maskDescr

/-- `utils.get_nonalpha_bands`: 1-based indices of the bands that are not alpha -/
def nonAlphaBands (isAlpha : List Bool) : List Nat :=
  ((List.range isAlpha.length).filter fun bi => !(isAlpha.getD bi false)).map (· + 1)

def colorName : ColorInterp → String
  | .red => "red" | .green => "green" | .blue => "blue" | .other => "other"

/-- relative distance `|s - r| / s`; `none` (NaN, masked) when either wavelength is missing or `s = 0` gives inf/NaN -/
def relDist (s r : Option Rat) : Option Rat :=
  match s, r with
  | some a, some b => if a = 0 then none else some ((if a - b < 0 then b - a else a - b) / a)
  | _, _ => none

/-- one turn of `greedy_match`'s loop: row minima of the unmasked distances, the row holding the smallest of them, the column of
    that row's minimum, record the pair and its distance, mask the column, mask the row (`argminEntry` + the two `set`s below) -/
inductive GreedyStep | rowMinima | rowOfSmallestMinimum | nearestColumnOfThatRow | record | maskColumn | maskRow
  deriving Repr, DecidableEq

def greedyStepsModel : List GreedyStep := [.rowMinima, .rowOfSmallestMinimum, .nearestColumnOfThatRow, .record, .maskColumn, .maskRow]

/-- the unmasked entry with the smallest distance; ties: first row, then first column (row-major scan keeps the
    earlier entry unless strictly smaller - as `np.ma.argmin` of the row minima, then `argmin` within that row) -/
def argminEntry (dist : List (List (Option Rat))) (rowUsed colUsed : List Bool) : Option (Nat × Nat × Rat) :=
  let entries : List (Nat × Nat × Rat) := (List.range dist.length).flatMap fun i =>
    if rowUsed.getD i true then [] else
      let row := dist.getD i []
      (List.range row.length).filterMap fun j =>
        if colUsed.getD j true then none else (row.getD j none).map fun d => (i, j, d)
  entries.foldl (fun best e => match best with
    | none => some e
    | some b => if e.2.2 < b.2.2 then some e else some b) none

/-- `greedy_match`: repeatedly take the smallest remaining distance, then mask its row and column -/
def greedyMatch (dist : List (List (Option Rat))) : Nat → List Bool → List Bool → List (Option (Nat × Rat)) →
    List (Option (Nat × Rat))
  | 0, _, _, acc => acc
  | fuel + 1, rowUsed, colUsed, acc =>
    match argminEntry dist rowUsed colUsed with
    | none => acc
    | some (i, j, d) => greedyMatch dist fuel (rowUsed.set i true) (colUsed.set j true) (acc.set i (some (j, d)))

/-- numpy `any()` over an array of wavelengths: NaN is truthy, `0.0` is not -/
def npAny (ws : List (Option Rat)) : Bool := ws.any fun w => match w with | none => true | some q => q != 0

/-- `_match_pair_bands` given the two band-info results; `tol` is the relative tolerance (the double 0.1) -/
def matchBands (srcB : List Nat) (srcW : List (Option Rat)) (refB : List Nat) (refW : List (Option Rat))
    (force : Bool) (tol : Rat) : Except MatchErr (List Nat × List Nat) :=
  if srcB.length > refB.length && !force then .error .fewerRef else
  let n := srcB.length
  let m := refB.length
  -- wavelength stage
  let stage1 : Except MatchErr (List (Option Nat)) :=
    if npAny srcW && npAny refW && !force then
      let dist := srcW.map fun s => refW.map fun r => relDist s r
      let g := greedyMatch dist n (List.replicate n false) (List.replicate m false) (List.replicate n none)
      if g.any fun e => match e with | some (_, d) => decide (tol < d) | none => false then .error .unmatchedWavelength
      else .ok (g.map fun e => e.map fun jd => refB.getD jd.1 0)
    else .ok (List.replicate n none)
  match stage1 with
  | .error e => .error e
  | .ok mb =>
    let nMatched := (mb.filter Option.isSome).length
    let stage2 : Except MatchErr (List (Option Nat)) :=
      if nMatched < min n m then
        let unmatchRef := refB.filter fun bi => !(mb.contains (some bi))
        if n = m then
          -- unmatched source bands take the unmatched reference bands in file order
          .ok (fillNone mb unmatchRef)
        else if force then .ok (fillNone mb unmatchRef)
        else .error .unmatchedCount
      else .ok mb
    match stage2 with
    | .error e => .error e
    | .ok mb2 =>
      let pairs := (srcB.zip mb2).filterMap fun p => p.2.map fun r => (p.1, r)
      .ok (pairs.map (·.1), pairs.map (·.2))
where
  /-- assign the values of `vals`, in order, to the `none` positions of `l` (stopping when `vals` runs out) -/
  fillNone : List (Option Nat) → List Nat → List (Option Nat)
    | [], _ => []
    | some x :: rest, vals => some x :: fillNone rest vals
    | none :: rest, v :: vals => some v :: fillNone rest vals
    | none :: rest, [] => none :: fillNone rest []

/-- the whole reader-side decision: band info of both files, then matching -/
def matchPair (src ref : List BandMeta) (selS selR : Option (List Nat)) (force : Bool) (tol : Rat) :
    Except MatchErr (List Nat × List Nat) :=
  match bandInfo src selS with
  | .error e => .error e
  | .ok (sb, sw) =>
    match bandInfo ref selR with
    | .error e => .error e
    | .ok (rb, rw) => matchBands sb sw rb rw force tol

end Homonim
