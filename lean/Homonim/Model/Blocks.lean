/-
  Homonim.Model.Blocks — `RasterPairReader.block_pairs` along one axis and in 2-D.

  Python (per axis):   for ul in range(A - v, B - v, s):
                          br     = ul + s + 2v
                          in     = [max(ul, A),     min(br, B))
                          out    = [max(ul + v, A), min(br - v, B))
                          other_in  = expand_window_to_grid(other.window(proc.window_bounds(in)))
                          other_out = round_window_to_grid (other.window(proc.window_bounds(out)))
  with [A, B) the processing window, s the block length (> v), v the overlap.
-/
import Homonim.Model.Geom
namespace Homonim

/-- number of elements of Python's `range(A - v, B - v, s)` for `s > 0` -/
def nBlocks (A B s : Int) : Nat := (cdiv (B - A) s).toNat

/-- windows of one block along one axis -/
structure Block1 where
  pin  : Win1   -- processing grid, overlapping (input) window
  pout : Win1   -- processing grid, non-overlapping (output) window
  oin  : Win1   -- other grid, input window (expanded)
  oout : Win1   -- other grid, output window (rounded)
  deriving Repr, DecidableEq

/-- upper-left corner of the `k`-th overlapping block -/
def blockUl (A s v : Int) (k : Nat) : Int := A - v + k * s

def procIn (A B s v : Int) (k : Nat) : Win1 :=
  ⟨max (blockUl A s v k) A, min (blockUl A s v k + s + 2 * v) B⟩

def procOut (A B s v : Int) (k : Nat) : Win1 :=
  ⟨max (blockUl A s v k + v) A, min (blockUl A s v k + s + 2 * v - v) B⟩

/-- the `k`-th block along an axis; `P` is the processing axis, `O` the other axis -/
def block1 (P O : Axis) (A B s v : Int) (k : Nat) : Block1 :=
  let pin := procIn A B s v k
  let pout := procOut A B s v k
  { pin := pin, pout := pout, oin := expandTo P O pin, oout := roundTo P O pout }

/-- all blocks along an axis, in iteration order -/
def blocks1 (P O : Axis) (A B s v : Int) : List Block1 :=
  (List.range (nBlocks A B s)).map (block1 P O A B s v)

/-- `outer` flag contribution of one axis: in-window touches the processing window's boundary -/
def Block1.outer (b : Block1) (A B : Int) : Bool := decide (b.pin.lo ≤ A) || decide (b.pin.hi ≥ B)

/-- a 2-D block pair as yielded by `block_pairs` (band index, row windows, column windows) -/
structure BlockPair where
  band : Nat
  row  : Block1
  col  : Block1
  outer : Bool
  deriving Repr, DecidableEq

/-- `block_pairs` for `nb` bands: bands outermost, then rows, then columns (itertools.product order) -/
def blockPairs (nb : Nat) (Prow Orow Pcol Ocol : Axis) (Ar Br sr vr Ac Bc sc vc : Int) : List BlockPair :=
  (List.range nb).flatMap fun band =>
    (blocks1 Prow Orow Ar Br sr vr).flatMap fun r =>
      (blocks1 Pcol Ocol Ac Bc sc vc).map fun c =>
        { band := band, row := r, col := c, outer := r.outer Ar Br || c.outer Ac Bc }

/-- source-grid output window of a block along one axis, clipped to the source image
    (`to_rio_dataset` crops the write window to the dataset) -/
def Block1.srcOutClipped (b : Block1) (procRef : Bool) (S : Axis) : Win1 :=
  (if procRef then b.oout else b.pout).inter S.full

/-! ### `_auto_block_shape`: halve the longer side until the block fits the memory budget -/

/-- one halving: `block_shape[np.argmax(block_shape)] /= 2` on `(height, width)` - rows when equal (argmax returns the first) -/
def halveLonger (h w : Rat) : Rat × Rat := if w ≤ h then (h / 2, w) else (h, w / 2)

/-- the `while np.prod(block_shape) * dtype_size > max_block_mem` loop with a step bound; `bytes` = 4 (float32) -/
def autoShapeLoop : Nat → Rat → Rat → Rat → Rat × Rat
  | 0, h, w, _ => (h, w)
  | fuel + 1, h, w, m => if m < h * w * 4 then autoShapeLoop fuel (halveLonger h w).1 (halveLonger h w).2 m else (h, w)

/-- `_auto_block_shape` for a processing window of `H x W` pixels and a budget of `maxBytes` bytes (already scaled by
    `mem_scale`): `none` = BlockSizeError (smaller than a pixel), else the ceiling of the halved shape -/
def autoBlockShape (fuel : Nat) (H W : Nat) (maxBytes : Rat) : Option (Int × Int) :=
  let hw := autoShapeLoop fuel (H : Rat) (W : Rat) maxBytes
  if hw.1 < 1 ∨ hw.2 < 1 then none else some (hw.1.ceil, hw.2.ceil)

/-- `block_pairs` refuses block shapes that do not exceed the overlap -/
def blockShapeOk (s v : Int × Int) : Bool := decide (v.1 < s.1) && decide (v.2 < s.2)

end Homonim
