/-
  Homonim.Model.Cli — the option handling of `homonim fuse`: merging of defaults, configuration file and command line
  (`FuseCommand.invoke`), filtering into the three configuration dictionaries (`_update_existing_keys`), callbacks, and
  output naming (`utils.create_out_postfix`, `create_param_filename`).
-/
namespace Homonim

/-- where click got a parameter's value from -/
inductive PSource | default | commandline deriving Repr, DecidableEq

/-- a parameter after click's own parsing: value (`none` = Python None) and source -/
structure PVal (α : Type) where
  val : Option α
  src : PSource
  deriving Repr, DecidableEq

/-- `FuseCommand.invoke` for one known key: a configuration-file value replaces the parameter iff the parameter came from its
    default (a value given on the command line stays - also an explicit null such as `--nodata null`, finding D60) -/
def mergeKey {α : Type} (p : PVal α) (conf : Option α) : PVal α :=
  match conf with
  | none => p
  | some c => if p.src == .default then ⟨some c, .commandline⟩ else p

/-- the whole merge over an association list of parameters; an unknown configuration key is rejected -/
def mergeAll {α : Type} (params : List (String × PVal α)) (conf : List (String × α)) : Option (List (String × PVal α)) :=
  if conf.all fun kv => params.any fun p => p.1 == kv.1 then
    some (params.map fun p => (p.1, mergeKey p.2 ((conf.find? fun kv => kv.1 == p.1).map (·.2))))
  else none

/-- default creation options are used iff neither `driver` nor `creation_options` was given (on the command line or in
    the file) -/
def useDefaultCreationOptions (driverSrc coSrc : PSource) : Bool := driverSrc == .default && coSrc == .default

/-- `_update_existing_keys`: the value of every key of the default dictionary is taken from the keyword arguments when
    present there, else the default stays -/
def updateExistingKeys {α : Type} (defaults : List (String × α)) (kwargs : List (String × α)) : List (String × α) :=
  defaults.map fun d => (d.1, ((kwargs.find? fun kv => kv.1 == d.1).map (·.2)).getD d.2)

/-- `_nodata_cb` on the lower-cased option text: None / 'null' / 'nil' / 'none' / 'nada' → None (internal mask);
    otherwise the text must be a number -/
inductive NodataArg | null | number (text : String) | invalid deriving Repr, DecidableEq

/-- the number parser of `_nodata_cb`: Python's `float` - a double, so the value reaches the API as typed -/
def nodataParser : String := "float"

def nodataCb (lowered : Option String) (isNumber : String → Bool) : NodataArg :=
  match lowered with
  | none => .null
  | some l =>
    if l = "null" ∨ l = "nil" ∨ l = "none" ∨ l = "nada" then .null
    else if isNumber l then .number l else .invalid

/-- `create_out_postfix`: the parts of `_FUSE_c<PROC>_m<MODEL>_k<h>_<w>.<ext>` in order (`procUpper`, `modelUpper` are
    the upper-cased enum name / value) -/
def outPostfixParts (procUpper modelUpper : String) (kh kw : Nat) (ext : String) : List String :=
  ["_FUSE_c", procUpper, "_m", modelUpper, "_k", toString kh, "_", toString kw, ".", ext]

def outPostfix (procUpper modelUpper : String) (kh kw : Nat) (ext : String) : String :=
  String.join (outPostfixParts procUpper modelUpper kh kw ext)

/-- `create_param_filename`: `<stem>_PARAM<suffix>` next to the corrected file -/
def paramFilename (stem suffix : String) : String := stem ++ "_PARAM" ++ suffix

/-- the steps by which `RasterFuse` turns the caller's `out_profile` into the profile of an output file, and the configuration into
    tags: the caller's dictionary is only read (a fresh one is built from it by `create_out_profile`), `combine_profiles` returns a
    new dictionary, the parameter image's float32 / NaN / 3n-band encoding is forced on that merged copy, and every configuration
    value (also `None`) becomes a `FUSE_*` tag -/
inductive ProfileStep
  | initFromProcImage | initFromSource | freshOutProfile | combineIntoNew | forceParamEncodingOnMerged | countFromBands
  | everyConfigKeyTagged | srcRefProcTagged
  deriving Repr, DecidableEq

def paramProfileSteps : List ProfileStep := [.initFromProcImage, .freshOutProfile, .combineIntoNew, .forceParamEncodingOnMerged]
def corrProfileSteps : List ProfileStep := [.initFromSource, .freshOutProfile, .combineIntoNew, .countFromBands]
def metaTagSteps : List ProfileStep := [.everyConfigKeyTagged, .srcRefProcTagged]

/-- options of a command that its per-source loop re-binds: none in `fuse`; `compare` unpacks the per-source band selection -/
def fuseLoopRebinds : List String := []
def compareLoopRebinds : List String := ["src_bands"]

/-- `utils.validate_threads`: 0 means every processor; more than there are is refused -/
def resolveThreads (threads cpu : Int) : Option Int :=
  let t := if threads = 0 then cpu else threads
  if cpu < t then none else some t

/-- fuse / compare / stats options whose default is computed from the API's own defaults (`create_block_config`,
    `create_model_config`, `create_out_profile`, `KernelModel.default_*`) rather than repeated as a literal -/
def cliDefaultsFromApi : List String :=
  ["downsampling", "driver", "dtype", "kernel-shape", "mask-partial", "max-block-mem", "model", "nodata", "r2-inpaint-thresh",
   "threads", "upsampling"]

/-- defaults of the flags (the API's keyword defaults: `overwrite=False`, no parameter image, `build_ovw=True`, `force=False`) -/
def cliFlagDefaults : List (String × Bool) :=
  [("overwrite", false), ("param-image", false), ("build-ovw", true), ("force-match", false)]

/-- the `FUSE_*` tags `RasterFuse.process` writes into the corrected and the parameter image: source, reference, processing
    grid, then one per configuration key (model, kernel shape, model configuration, block configuration) -/
def fuseTags : List String :=
  ["FUSE_SRC_FILE", "FUSE_REF_FILE", "FUSE_PROC_CRS", "FUSE_MODEL", "FUSE_KERNEL_SHAPE", "FUSE_R2_INPAINT_THRESH",
   "FUSE_MASK_PARTIAL", "FUSE_DOWNSAMPLING", "FUSE_UPSAMPLING", "FUSE_THREADS", "FUSE_MAX_BLOCK_MEM"]

/-- the tags `ParamStats` reads (model and in-paint threshold) and the ones `validate_param_image` insists on -/
def statsTags : List String := ["FUSE_MODEL", "FUSE_R2_INPAINT_THRESH"]
def paramRequiredTags : List String := ["FUSE_KERNEL_SHAPE", "FUSE_MODEL", "FUSE_PROC_CRS", "FUSE_REF_FILE"]

/-! ### The commands' exception handlers

`fuse`, `compare` and `stats` wrap all their processing in one `try` whose single handler logs the exception and raises
`click.Abort` (exit status 1).  The handler body as a tree: what it does may depend on conditions of the run (the verbosity, say);
the exit status after an exception is 1 exactly when the path taken ends in `abort`. -/

inductive HBody
  | abort                                   -- `raise click.Abort()`
  | fallthrough                             -- the handler ends without raising: the command returns, exit status 0
  | log (next : HBody)                      -- a `logger.*(...)` call
  | ite (cond : String) (t e : HBody)       -- `if cond: t else: e` (then the rest of the handler on both branches)
  deriving Repr, DecidableEq

/-- exit status of a command whose processing raised, given the truth of the conditions the handler looks at -/
def HBody.exit (env : String → Bool) : HBody → Nat
  | .abort => 1
  | .fallthrough => 0
  | .log n => n.exit env
  | .ite c t e => if env c then t.exit env else e.exit env

/-- the handler of all three commands: log the exception with its traceback, abort -/
def cliHandler : HBody := .log .abort

/-- exit status of a command: 0 when nothing was raised, the handler's otherwise -/
def commandExit (h : HBody) (env : String → Bool) (raised : Bool) : Nat := if raised then h.exit env else 0


end Homonim
