/-
  Homonim.Model.CompareImage — `RasterCompare.process` on the reference grid as a function of the two images: every block reads
  the reference through its own window and the source through the expanded source window (zero overlap), brings the source
  to the reference grid (`average`), and sums over its jointly valid pixels; the block sums are accumulated.
-/
import Homonim.Model.FuseBlocks
import Homonim.Model.Stats
namespace Homonim

/-- jointly valid (source on the reference grid, reference) values over a window of reference pixels, row-major -/
def ImagePair.cmpPts (p : ImagePair) (wr wc : Win1) : List (Rat × Rat) :=
  wr.indices.flatMap fun i => wc.indices.filterMap fun j =>
    match p.srcDs i j, p.ref i j with
    | some x, some y => some (x, y)
    | _, _ => none

/-- the seven sums of the single-block run: over the whole processing window -/
def ImagePair.cmpSumsWhole (p : ImagePair) : CSums :=
  blockSums (p.cmpPts (refWin p.Sr p.Rr) (refWin p.Sc p.Rc))

/-- the sums of block `(kr, kc)` of a run with block shape `(sr, sc)` (no overlap): computed from what the block read -/
def ImagePair.cmpSumsBlock (p : ImagePair) (sr sc : Int) (kr kc : Nat) : CSums :=
  let br := p.blockRows sr 0 kr
  let bc := p.blockCols sc 0 kc
  blockSums ((p.restrict br.pin bc.pin br.oin bc.oin).cmpPts br.pout bc.pout)

/-- the accumulated sums of the multi-block run, blocks in row-major order -/
def ImagePair.cmpSumsBlocked (p : ImagePair) (sr sc : Int) : CSums :=
  accumulate ((List.range (nBlocks (refWin p.Sr p.Rr).lo (refWin p.Sr p.Rr).hi sr)).flatMap fun kr =>
    (List.range (nBlocks (refWin p.Sc p.Rc).lo (refWin p.Sc p.Rc).hi sc)).map fun kc => p.cmpSumsBlock sr sc kr kc)

end Homonim
