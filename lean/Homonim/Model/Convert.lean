/-
  Homonim.Model.Convert — `RasterArray._convert_array_dtype` + `to_rio_dataset` for one float32 pixel:
  promote, round half-to-even (float → integer only), clip to the target range, cast, re-mask.
-/
import Homonim.Model.Geom
namespace Homonim

/-- a float pixel: finite (an exact rational), ±∞, or NaN (= invalid: the internal nodata is NaN) -/
inductive XVal
  | fin (q : Rat)
  | pinf
  | ninf
  | nan
  deriving Repr, DecidableEq

/-- output data types of the CLI: integer types with their range, or a float type -/
inductive DType
  | int (lo hi : Int)
  | float
  deriving Repr, DecidableEq

def DType.uint8 : DType := .int 0 255
def DType.uint16 : DType := .int 0 65535
def DType.int16 : DType := .int (-32768) 32767
def DType.uint32 : DType := .int 0 4294967295
def DType.int32 : DType := .int (-2147483648) 2147483647

/-- numpy `round` of an exact rational: half to even -/
def roundRat (q : Rat) : Int := rhe q.num q.den

def clampInt (lo hi v : Int) : Int := max lo (min hi v)

/-- what is stored for a pixel: a number, or unspecified (the cast of NaN to an integer type is left to numpy) -/
inductive Stored
  | val (v : XVal)       -- float targets keep the float value
  | ival (n : Int)       -- integer targets
  | unspecified
  deriving Repr, DecidableEq

/-- nodata setting of the output file: a number (integer-valued for integer types), NaN, or null (internal mask) -/
inductive OutNodata
  | num (q : Rat)
  | nan
  | null
  deriving Repr, DecidableEq

/-- is the nodata value representable in the data type (`rasterio.dtypes.can_cast_dtype`; checked before anything is
    written) -/
def nodataCastable (dt : DType) (nd : OutNodata) : Bool :=
  match dt, nd with
  | _, .null => true
  | .float, _ => true
  | .int _ _, .nan => false
  | .int lo hi, .num q => decide (q.den = 1) && decide (lo ≤ q.num) && decide (q.num ≤ hi)

/-- the stored value and the internal-mask bit (only written when nodata is null) of one pixel -/
def convertPx (dt : DType) (nd : OutNodata) (x : XVal) : Stored × Bool :=
  let valid := x != .nan
  match dt with
  | .float =>
    -- no rounding / clipping; invalid pixels get the new nodata value (if it is a number), else stay NaN
    let s : Stored := if valid then .val x else
      match nd with
      | .num q => .val (.fin q)
      | _ => .val .nan
    (s, valid)
  | .int lo hi =>
    let s : Stored :=
      match x with
      | .fin q => .ival (clampInt lo hi (roundRat q))
      | .pinf => .ival hi
      | .ninf => .ival lo
      | .nan =>
        match nd with
        | .num q => .ival q.num
        | _ => .unspecified
    (s, valid)

/-- what a reader of the output file sees: the valid stored value, or `none` -/
def readBack (nd : OutNodata) (p : Stored × Bool) : Option Stored :=
  match nd with
  | .null => if p.2 then some p.1 else none
  | .nan => if p.1 = .val .nan then none else some p.1
  | .num q => if p.1 = .ival q.num ∨ p.1 = .val (.fin q) then none else some p.1

end Homonim
