/-
  Homonim.Model.Cubic — the two 4 x 4 up-sampling kernels of GDAL warp as `RasterArray.reproject` uses them for the parameter
  images (`cubic_spline` is homonim's default up-sampling method, `cubic` an option), measured on this GDAL build
  (DESIGN.md 4.3) and compared with the real code on every run (`resample` and `fuseimg` ops):

  * both need the source pixel that contains the destination centre to be valid (rule R2, as for nearest / bilinear);
  * `cubic_spline`: the B-spline weighted mean over the *valid* pixels of the 4 x 4 support, weights renormalised;
  * `cubic`: the cubic convolution (a = -1/2) over the 4 x 4 support when all sixteen pixels exist and are valid, and
    *bilinear* (2 x 2, renormalised over the valid pixels) otherwise (`GWKCubicResample4Sample` falls back to
    `GWKBilinearResample4Sample` at the array border and next to masked pixels).
-/
import Homonim.Model.Resample
import Homonim.Model.FuseBlocks
namespace Homonim

/-- cubic convolution kernel, a = -1/2 (Catmull-Rom) -/
def cubicKernel (x : Rat) : Rat :=
  let a := if x < 0 then -x else x
  if a ≤ 1 then 3 / 2 * a * a * a - 5 / 2 * a * a + 1
  else if a < 2 then -1 / 2 * a * a * a + 5 / 2 * a * a - 4 * a + 2
  else 0

/-- cubic B-spline kernel -/
def bsplineKernel (x : Rat) : Rat :=
  let a := if x < 0 then -x else x
  if a ≤ 1 then 2 / 3 - a * a + a * a * a / 2
  else if a < 2 then (2 - a) * (2 - a) * (2 - a) / 6
  else 0

/-- 1-D support of destination pixel `j`: the four source pixels `i0 - 1 .. i0 + 2` around the destination centre, where
    `i0`, `f` are the integer and fractional part of the centre's position in source-centre coordinates (the same `i0` as
    `bilinWeights1`), weighted with `k (d - f)` for `d = -1 .. 2` -/
def wideWeights1 (k : Rat → Rat) (S D : Axis) (j : Int) : List (Int × Rat) :=
  let num := 2 * (D.edge j - S.o) + D.p - S.p
  let den := 2 * S.p
  let i0 := num / den
  let f : Rat := ((num - i0 * den : Int) : Rat) / ((den : Int) : Rat)
  [(i0 - 1, k (-1 - f)), (i0, k (0 - f)), (i0 + 1, k (1 - f)), (i0 + 2, k (2 - f))]

/-- `cubic_spline` when up-sampling -/
def cubicSpline2 (Sr Sc Dr Dc : Axis) (img : ImgO) (jr jc : Int) : Option Rat :=
  match nearest2 Sr Sc Dr Dc img jr jc with
  | none => none
  | some _ =>
    wmean ((wideWeights1 bsplineKernel Sr Dr jr).flatMap fun iw => (wideWeights1 bsplineKernel Sc Dc jc).filterMap fun kv =>
      (img iw.1 kv.1).map fun x => (iw.2 * kv.2, x))

/-- `cubic` when up-sampling -/
def cubic2 (Sr Sc Dr Dc : Axis) (img : ImgO) (jr jc : Int) : Option Rat :=
  let wr := wideWeights1 cubicKernel Sr Dr jr
  let wc := wideWeights1 cubicKernel Sc Dc jc
  if wr.all (fun iw => wc.all fun kv => (img iw.1 kv.1).isSome) then
    some ((wr.flatMap fun iw => wc.map fun kv => iw.2 * kv.2 * (img iw.1 kv.1).getD 0).sum)
  else bilinear2 Sr Sc Dr Dc img jr jc

/-- the up-sampling methods with a 4 x 4 support -/
inductive Wide | cubic | cubicSpline deriving Repr, DecidableEq

def resampleWide (m : Wide) (Sr Sc Dr Dc : Axis) (img : ImgO) (jr jc : Int) : Option Rat :=
  match m with
  | .cubic => cubic2 Sr Sc Dr Dc img jr jc
  | .cubicSpline => cubicSpline2 Sr Sc Dr Dc img jr jc

/-- corrected source pixel `(r, c)` of the reference-grid pipeline with a 4 x 4 up-sampling kernel (cf. `ImagePair.corrected`) -/
def ImagePair.correctedWide (p : ImagePair) (model : Model) (kh kw : Nat) (n0 n1 : Rat) (ups : Wide) (r c : Int) :
    Option Rat :=
  match p.src r c with
  | none => none
  | some x =>
    match resampleWide ups p.Rr p.Rc p.Sr p.Sc (p.gainImg model kh kw n0 n1) r c,
          resampleWide ups p.Rr p.Rc p.Sr p.Sc (p.offsetImg model kh kw n0 n1) r c with
    | some g, some o => some (g * x + o)
    | _, _ => none

/-- the same as computed by block `(kr, kc)` (cf. `ImagePair.correctedByBlock`) -/
def ImagePair.correctedWideByBlock (p : ImagePair) (model : Model) (kh kw : Nat) (n0 n1 : Rat) (ups : Wide)
    (sr sc vr vc : Int) (kr kc : Nat) (r c : Int) : Option Rat :=
  let br := p.blockRows sr vr kr
  let bc := p.blockCols sc vc kc
  (p.restrict br.pin bc.pin br.oin bc.oin).correctedWide model kh kw n0 n1 ups r c

end Homonim
