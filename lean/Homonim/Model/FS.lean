/-
  Homonim.Model.FS — what `RasterFuse.process` does to the file system: both existence checks, then both
  `rio.open(..., 'w')` calls (create / truncate), then the blocks, then close.  A file system is a finite map from
  paths to contents; the content a successful run leaves in an output is a function of (inputs, configuration) only.
-/
namespace Homonim

/-- file system: association list path ↦ content (first binding wins) -/
abbrev FS := List (String × Nat)

def FS.get (fs : FS) (p : String) : Option Nat := (fs.find? fun e => e.1 == p).map (·.2)
def FS.exists' (fs : FS) (p : String) : Bool := (fs.get p).isSome
/-- create or truncate-and-replace -/
def FS.put (fs : FS) (p : String) (c : Nat) : FS := (p, c) :: fs.filter fun e => e.1 != p
def FS.paths (fs : FS) : List String := fs.map (·.1)

/-- one `process()` call: output paths, overwrite flag, and the contents this configuration produces -/
structure Call where
  corr : String
  param : Option String
  overwrite : Bool
  corrContent : Nat
  paramContent : Nat
  deriving Repr, DecidableEq

inductive Outcome | ok | fileExists deriving Repr, DecidableEq

/-- does the (optional) parameter file exist -/
def FS.paramExists (fs : FS) : Option String → Bool
  | some p => fs.exists' p
  | none => false

/-- open the (optional) parameter file for writing -/
def FS.putParam (fs : FS) (c : Nat) : Option String → FS
  | some p => fs.put p c
  | none => fs

/-- `_out_files` + the block loop: both checks precede both opens -/
def processCall (fs : FS) (c : Call) : FS × Outcome :=
  if !c.overwrite && fs.exists' c.corr then (fs, .fileExists)
  else if !c.overwrite && fs.paramExists c.param then (fs, .fileExists)
  else
    ((fs.put c.corr c.corrContent).putParam c.paramContent c.param, .ok)

/-- a history of calls on one directory -/
def runHistory (fs : FS) : List Call → FS × List Outcome
  | [] => (fs, [])
  | c :: cs =>
    let r := processCall fs c
    let rest := runHistory r.1 cs
    (rest.1, r.2 :: rest.2)

/-! ### the same as a sequence of file-system events (the order in which `_out_files` states them) -/

inductive FsEvent | checkCorr | checkParam | openCorr | openParam deriving Repr, DecidableEq

/-- run a sequence of existence checks and `open(..., 'w')` calls: a failed check raises FileExistsError and leaves
    whatever the earlier events did -/
def runEvents (fs : FS) (c : Call) : List FsEvent → FS × Outcome
  | [] => (fs, .ok)
  | .checkCorr :: es => if !c.overwrite && fs.exists' c.corr then (fs, .fileExists) else runEvents fs c es
  | .checkParam :: es => if !c.overwrite && fs.paramExists c.param then (fs, .fileExists) else runEvents fs c es
  | .openCorr :: es => runEvents (fs.put c.corr c.corrContent) c es
  | .openParam :: es => runEvents (fs.putParam c.paramContent c.param) c es

end Homonim
