/-
  Homonim.Model.Fuse — one corrected source pixel through the pipeline
  `read → resample to the processing grid → fit → resample parameters to the source grid → mask with source mask → apply`.
-/
import Homonim.Model.Resample
namespace Homonim

/-- reference-grid processing, no partial masking (`RefSpaceModel.apply`): the up-sampled parameters are masked with the
    source mask and applied.  `support` lists (kernel weight, parameters) of the processing pixels in the up-sampling
    kernel's support that carry parameters; `centreHasParams` is the validity rule R2 (the processing pixel containing the
    source pixel's centre carries parameters). -/
def correctedPx (srcVal : Option Rat) (centreHasParams : Bool) (support : List (Rat × Params)) : Option Rat :=
  match srcVal with
  | none => none
  | some x => if centreHasParams then (upsampleParams support).map fun go => go.1 * x + go.2 else none

/-- source-grid processing (`SrcSpaceModel`): parameters are fitted on the source grid, masked with the source mask
    and applied directly -/
def correctedPxSrcGrid (srcVal : Option Rat) (p : Option Params) : Option Rat :=
  match srcVal, p with
  | some x, some q => some (applyParams q x)
  | _, _ => none

end Homonim
