/-
  Homonim.Model.FuseBlocks — what one block of a multi-block reference-grid fusion computes.

  `RasterFuse.process` splits the processing (reference) window into blocks (`Model/Blocks.lean`), and for block `(kr, kc)`
  reads the reference through its input window `pin` and the source through the expanded window `oin` (boundless reads:
  outside the image / window everything is nodata), runs the same pipeline as the whole-image model (`FuseImage.lean`) on
  what it read, and writes the source pixels of its output window `oout`.  Zero-border box filters on the block array are
  the same as box filters over the whole grid with everything outside the block invalid, so a block run is the whole-image
  pipeline applied to the *restricted* pair.
-/
import Homonim.Model.FuseImage
import Homonim.Model.Blocks
namespace Homonim

/-- the pair as one block sees it -/
def ImagePair.restrict (p : ImagePair) (rinR rinC sinR sinC : Win1) : ImagePair :=
  { p with src := p.src.restrict sinR sinC, ref := p.ref.restrict rinR rinC }

/-- the windows of block `(kr, kc)`: rows and columns are independent (`block1` along each axis); the processing window is
    `refWin` = the reference pixels that meet the source footprint; `sr sc` block shape, `vr vc` overlap -/
def ImagePair.blockRows (p : ImagePair) (sr vr : Int) (kr : Nat) : Block1 :=
  block1 p.Rr p.Sr (refWin p.Sr p.Rr).lo (refWin p.Sr p.Rr).hi sr vr kr
def ImagePair.blockCols (p : ImagePair) (sc vc : Int) (kc : Nat) : Block1 :=
  block1 p.Rc p.Sc (refWin p.Sc p.Rc).lo (refWin p.Sc p.Rc).hi sc vc kc

/-- corrected value of source pixel `(r, c)` as computed by block `(kr, kc)` -/
def ImagePair.correctedByBlock (p : ImagePair) (model : Model) (kh kw : Nat) (n0 n1 : Rat) (ups : Resampling)
    (sr sc vr vc : Int) (kr kc : Nat) (r c : Int) : Option Rat :=
  let br := p.blockRows sr vr kr
  let bc := p.blockCols sc vc kc
  (p.restrict br.pin bc.pin br.oin bc.oin).corrected model kh kw n0 n1 ups r c

/-! ### source-grid processing: the blocks partition `_src_win`; a block reads the source through its input window `pin` and the
    reference through the expanded window `oin` on the reference grid -/

def ImagePair.blockRowsSrc (p : ImagePair) (sr vr : Int) (kr : Nat) : Block1 :=
  block1 p.Sr p.Rr (srcWin p.Sr p.Rr).lo (srcWin p.Sr p.Rr).hi sr vr kr
def ImagePair.blockColsSrc (p : ImagePair) (sc vc : Int) (kc : Nat) : Block1 :=
  block1 p.Sc p.Rc (srcWin p.Sc p.Rc).lo (srcWin p.Sc p.Rc).hi sc vc kc

/-- the source-grid pipeline on what a block read: source restricted to `(sinR, sinC)`, reference to `(rinR, rinC)` -/
def ImagePair.correctedSrcGridOn (p : ImagePair) (model : Model) (kh kw : Nat) (n0 n1 : Rat) (m : Resampling)
    (sinR sinC rinR rinC : Win1) (r c : Int) : Option Rat :=
  let q : ImagePair := { p with src := p.src.restrict sinR sinC }
  if 0 ≤ r ∧ r < p.Sr.n ∧ 0 ≤ c ∧ c < p.Sc.n then
    let ref' : ImgO := fun i j => resample2 m p.Rr p.Rc p.Sr p.Sc (p.ref.restrict rinR rinC) i j
    let b : Block :=
      { h := p.Sr.n.toNat, w := p.Sc.n.toNat
        src := fun i j => (q.src i j).getD 0, ref := fun i j => (ref' i j).getD 0
        sm := fun i j => (q.src i j).isSome, rm := fun i j => (ref' i j).isSome }
    match q.src r c, fitAt b model kh kw false none n0 n1 (fun _ _ => none) r.toNat c.toNat with
    | some x, some prm => some (prm.gain * x + prm.offset)
    | _, _ => none
  else none

/-- corrected value of source pixel `(r, c)` as computed by block `(kr, kc)` of a source-grid run -/
def ImagePair.correctedSrcGridByBlock (p : ImagePair) (model : Model) (kh kw : Nat) (n0 n1 : Rat) (m : Resampling)
    (sr sc vr vc : Int) (kr kc : Nat) (r c : Int) : Option Rat :=
  let br := p.blockRowsSrc sr vr kr
  let bc := p.blockColsSrc sc vc kc
  p.correctedSrcGridOn model kh kw n0 n1 m br.pin bc.pin br.oin bc.oin r c

end Homonim
