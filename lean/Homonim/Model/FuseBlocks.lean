/-
  Homonim.Model.FuseBlocks — what one block of a multi-block reference-grid fusion computes.

  `RasterFuse.process` splits the processing (reference) window into blocks (`Model/Blocks.lean`), and for block `(kr, kc)`
  reads the reference through its input window `pin` and the source through the expanded window `oin` (boundless reads:
  outside the image / window everything is nodata), runs the same pipeline as the whole-image model (`FuseImage.lean`) on
  what it read, and writes the source pixels of its output window `oout`.  Zero-border box filters on the block array are
  the same as box filters over the whole grid with everything outside the block invalid, so a block run is the whole-image
  pipeline applied to the *restricted* pair.
-/
import Homonim.Model.FuseImage
import Homonim.Model.Blocks
namespace Homonim

/-- the pair as one block sees it -/
def ImagePair.restrict (p : ImagePair) (rinR rinC sinR sinC : Win1) : ImagePair :=
  { p with src := p.src.restrict sinR sinC, ref := p.ref.restrict rinR rinC }

/-- the windows of block `(kr, kc)`: rows and columns are independent (`block1` along each axis); the processing window is
    `refWin` = the reference pixels that meet the source footprint; `sr sc` block shape, `vr vc` overlap -/
def ImagePair.blockRows (p : ImagePair) (sr vr : Int) (kr : Nat) : Block1 :=
  block1 p.Rr p.Sr (refWin p.Sr p.Rr).lo (refWin p.Sr p.Rr).hi sr vr kr
def ImagePair.blockCols (p : ImagePair) (sc vc : Int) (kc : Nat) : Block1 :=
  block1 p.Rc p.Sc (refWin p.Sc p.Rc).lo (refWin p.Sc p.Rc).hi sc vc kc

/-- corrected value of source pixel `(r, c)` as computed by block `(kr, kc)` -/
def ImagePair.correctedByBlock (p : ImagePair) (model : Model) (kh kw : Nat) (n0 n1 : Rat) (ups : Resampling)
    (sr sc vr vc : Int) (kr kc : Nat) (r c : Int) : Option Rat :=
  let br := p.blockRows sr vr kr
  let bc := p.blockCols sc vc kc
  (p.restrict br.pin bc.pin br.oin bc.oin).corrected model kh kw n0 n1 ups r c

end Homonim
