/-
  Homonim.Model.FuseImage — the whole fusion of one band on the reference grid as one exact function of the two images:
      down-sample the source to the reference grid (average)  →  fit at every reference pixel (kernel sums over the whole
      grid)  →  up-sample gain and offset to the source grid (nearest / bilinear)  →  mask with the source mask  →  apply.
  This is what a single-block run computes; by the locality theorems (C05) a multi-block run computes the same for the
  models without a per-block term.  Executable: the driver evaluates it on real inputs (`fuseimg` op).
-/
import Homonim.Model.Resample
import Homonim.Model.Fuse
namespace Homonim

structure ImagePair where
  Sr : Axis      -- source rows (negated y), columns
  Sc : Axis
  Rr : Axis      -- reference rows, columns
  Rc : Axis
  src : ImgO     -- source pixels (none = invalid / outside)
  ref : ImgO

/-- the source as seen on the reference grid -/
def ImagePair.srcDs (p : ImagePair) : ImgO := fun i j => avg2 p.Sr p.Sc p.Rr p.Rc p.src i j

/-- the co-gridded block covering the whole reference image -/
def ImagePair.block (p : ImagePair) : Block :=
  { h := p.Rr.n.toNat, w := p.Rc.n.toNat
    src := fun i j => (p.srcDs i j).getD 0, ref := fun i j => (p.ref i j).getD 0
    sm := fun i j => (p.srcDs i j).isSome, rm := fun i j => (p.ref i j).isSome }

/-- parameters at reference pixel `(i, j)` (no in-painting; gain-blk-offset takes its block normalisation as given) -/
def ImagePair.params (p : ImagePair) (model : Model) (kh kw : Nat) (n0 n1 : Rat) (i j : Int) : Option Params :=
  if 0 ≤ i ∧ i < p.Rr.n ∧ 0 ≤ j ∧ j < p.Rc.n then
    fitAt p.block model kh kw false none n0 n1 (fun _ _ => none) i.toNat j.toNat
  else none

/-- gain and offset images on the reference grid -/
def ImagePair.gainImg (p : ImagePair) (model : Model) (kh kw : Nat) (n0 n1 : Rat) : ImgO :=
  fun i j => (p.params model kh kw n0 n1 i j).map (·.gain)
def ImagePair.offsetImg (p : ImagePair) (model : Model) (kh kw : Nat) (n0 n1 : Rat) : ImgO :=
  fun i j => (p.params model kh kw n0 n1 i j).map (·.offset)

/-- corrected source pixel `(r, c)`: up-sampled parameters, masked with the source mask, applied -/
def ImagePair.corrected (p : ImagePair) (model : Model) (kh kw : Nat) (n0 n1 : Rat) (ups : Resampling) (r c : Int) :
    Option Rat :=
  match p.src r c with
  | none => none
  | some x =>
    match resample2 ups p.Rr p.Rc p.Sr p.Sc (p.gainImg model kh kw n0 n1) r c,
          resample2 ups p.Rr p.Rc p.Sr p.Sc (p.offsetImg model kh kw n0 n1) r c with
    | some g, some o => some (g * x + o)
    | _, _ => none

end Homonim
