/-
  Homonim.Model.FuseImage — the whole fusion of one band on the reference grid as one exact function of the two images:
      down-sample the source to the reference grid (average)  →  fit at every reference pixel (kernel sums over the whole
      grid)  →  up-sample gain and offset to the source grid (nearest / bilinear)  →  mask with the source mask  →  apply.
  This is what a single-block run computes; by the locality theorems (C05) a multi-block run computes the same for the
  models without a per-block term.  Executable: the driver evaluates it on real inputs (`fuseimg` op).
-/
import Homonim.Model.Resample
import Homonim.Model.Fuse
namespace Homonim

/-- an image seen through a window: invalid outside it (a boundless, nodata-padded block read) -/
def ImgO.restrict (img : ImgO) (wr wc : Win1) : ImgO :=
  fun i j => if wr.lo ≤ i ∧ i < wr.hi ∧ wc.lo ≤ j ∧ j < wc.hi then img i j else none

structure ImagePair where
  Sr : Axis      -- source rows (negated y), columns
  Sc : Axis
  Rr : Axis      -- reference rows, columns
  Rc : Axis
  src : ImgO     -- source pixels (none = invalid / outside)
  ref : ImgO

/-- the source as seen on the reference grid -/
def ImagePair.srcDs (p : ImagePair) : ImgO := fun i j => avg2 p.Sr p.Sc p.Rr p.Rc p.src i j

/-- the co-gridded block covering the whole reference image -/
def ImagePair.block (p : ImagePair) : Block :=
  { h := p.Rr.n.toNat, w := p.Rc.n.toNat
    src := fun i j => (p.srcDs i j).getD 0, ref := fun i j => (p.ref i j).getD 0
    sm := fun i j => (p.srcDs i j).isSome, rm := fun i j => (p.ref i j).isSome }

/-- parameters at reference pixel `(i, j)` (no in-painting; gain-blk-offset takes its block normalisation as given) -/
def ImagePair.params (p : ImagePair) (model : Model) (kh kw : Nat) (n0 n1 : Rat) (i j : Int) : Option Params :=
  if 0 ≤ i ∧ i < p.Rr.n ∧ 0 ≤ j ∧ j < p.Rc.n then
    fitAt p.block model kh kw false none n0 n1 (fun _ _ => none) i.toNat j.toNat
  else none

/-- gain and offset images on the reference grid -/
def ImagePair.gainImg (p : ImagePair) (model : Model) (kh kw : Nat) (n0 n1 : Rat) : ImgO :=
  fun i j => (p.params model kh kw n0 n1 i j).map (·.gain)
def ImagePair.offsetImg (p : ImagePair) (model : Model) (kh kw : Nat) (n0 n1 : Rat) : ImgO :=
  fun i j => (p.params model kh kw n0 n1 i j).map (·.offset)

/-- corrected source pixel `(r, c)`: up-sampled parameters, masked with the source mask, applied -/
def ImagePair.corrected (p : ImagePair) (model : Model) (kh kw : Nat) (n0 n1 : Rat) (ups : Resampling) (r c : Int) :
    Option Rat :=
  match p.src r c with
  | none => none
  | some x =>
    match resample2 ups p.Rr p.Rc p.Sr p.Sc (p.gainImg model kh kw n0 n1) r c,
          resample2 ups p.Rr p.Rc p.Sr p.Sc (p.offsetImg model kh kw n0 n1) r c with
    | some g, some o => some (g * x + o)
    | _, _ => none

/-! ### source-grid processing (`SrcSpaceModel`): the reference is brought to the source grid, the kernel models are fitted
    there and applied directly -/

/-- the part of the reference a single-block run reads: the reference pixels that meet the processing window `_src_win`
    (nothing beyond it is read, so an up-sampling kernel finds no neighbours past that edge) -/
def ImagePair.refRead (p : ImagePair) : ImgO :=
  p.ref.restrict (expandTo p.Sr p.Rr (srcWin p.Sr p.Rr)) (expandTo p.Sc p.Rc (srcWin p.Sc p.Rc))

/-- the reference as seen on the source grid; `m` = `average` when the reference is the finer image (the automatic choice
    of the source grid), an up-sampling kernel when the source grid was forced on the finer image -/
def ImagePair.refOnSrc (p : ImagePair) (m : Resampling) : ImgO :=
  fun r c => resample2 m p.Rr p.Rc p.Sr p.Sc p.refRead r c

/-- the co-gridded block covering the whole source image -/
def ImagePair.blockSrc (p : ImagePair) (m : Resampling) : Block :=
  { h := p.Sr.n.toNat, w := p.Sc.n.toNat
    src := fun i j => (p.src i j).getD 0, ref := fun i j => (p.refOnSrc m i j).getD 0
    sm := fun i j => (p.src i j).isSome, rm := fun i j => (p.refOnSrc m i j).isSome }

/-- corrected source pixel `(r, c)` with source-grid processing (no in-painting) -/
def ImagePair.correctedSrcGrid (p : ImagePair) (model : Model) (kh kw : Nat) (n0 n1 : Rat) (m : Resampling) (r c : Int) :
    Option Rat :=
  if 0 ≤ r ∧ r < p.Sr.n ∧ 0 ≤ c ∧ c < p.Sc.n then
    match p.src r c, fitAt (p.blockSrc m) model kh kw false none n0 n1 (fun _ _ => none) r.toNat c.toNat with
    | some x, some prm => some (prm.gain * x + prm.offset)
    | _, _ => none
  else none

end Homonim
