/-
  Homonim.Model.Geom — integer geometry of north-up pixel grids.

  Models (core Lean only, no imports):
    * `utils.expand_window_to_grid`   (floor of the start, ceil of the stop)
    * `utils.round_window_to_grid`    (numpy round = round-half-to-even of start and stop)
    * `DatasetReader.window(*bounds)` / `window_bounds(window)` for north-up, same-CRS grids
    * `utils.covers_bounds`           (as coded, and the footprint relation it is meant to decide)
    * `RasterPairReader.open`         (`_ref_win`, `_src_win`)

  A 1-D axis is an integer grid in a common ground unit: pixel `i` covers `[o + i*p, o + (i+1)*p)`.
  The row axis of an image is the same structure in the negated y coordinate (rows count downward).
-/
namespace Homonim

/-- one axis of a north-up image: origin, pixel size (> 0) and pixel count, in common integer ground units -/
structure Axis where
  o : Int
  p : Int
  n : Int
  deriving Repr, DecidableEq

/-- ceiling division for a positive divisor (`Int./` is floor division for a positive divisor) -/
def cdiv (a d : Int) : Int := -((-a) / d)

/-- round-half-to-even of the rational `a/d`, `d > 0` (numpy `round`, C `rint`) -/
def rhe (a d : Int) : Int :=
  let q := a / d
  let r := a % d
  if 2 * r < d then q else if d < 2 * r then q + 1 else if q % 2 = 0 then q else q + 1

/-- ground coordinate of pixel edge `x` of axis `P` -/
def Axis.edge (P : Axis) (x : Int) : Int := P.o + x * P.p

/-- numerator (over `O.p`) of the position of edge `x` of axis `P` in pixel units of axis `O` -/
def toOther (P O : Axis) (x : Int) : Int := P.edge x - O.o

/-- a half-open integer pixel interval `[lo, hi)` -/
structure Win1 where
  lo : Int
  hi : Int
  deriving Repr, DecidableEq

def Win1.len (w : Win1) : Int := w.hi - w.lo

/-- the pixel indices of a window, in order -/
def Win1.indices (w : Win1) : List Int := (List.range (w.hi - w.lo).toNat).map fun (k : Nat) => w.lo + (k : Int)
def Win1.mem (w : Win1) (x : Int) : Prop := w.lo ≤ x ∧ x < w.hi
instance (w : Win1) (x : Int) : Decidable (w.mem x) := by unfold Win1.mem; exact inferInstance
def Win1.inter (a b : Win1) : Win1 := ⟨max a.lo b.lo, min a.hi b.hi⟩
def Win1.subset (a b : Win1) : Prop := b.lo ≤ a.lo ∧ a.hi ≤ b.hi

/-- `expand_window_to_grid(O.window(P.bounds of [lo,hi)))`: smallest whole-pixel window of `O` containing it -/
def expandTo (P O : Axis) (w : Win1) : Win1 :=
  ⟨toOther P O w.lo / O.p, cdiv (toOther P O w.hi) O.p⟩

/-- `round_window_to_grid(O.window(P.bounds of [lo,hi)))`: both corners rounded half-to-even -/
def roundTo (P O : Axis) (w : Win1) : Win1 :=
  ⟨rhe (toOther P O w.lo) O.p, rhe (toOther P O w.hi) O.p⟩

/-- the whole image as a window -/
def Axis.full (P : Axis) : Win1 := ⟨0, P.n⟩

/-- `_ref_win` along one axis: reference pixels meeting the source footprint -/
def refWin (S R : Axis) : Win1 := expandTo S R S.full

/-- `_src_win` along one axis: source pixels meeting the ground extent of `_ref_win` -/
def srcWin (S R : Axis) : Win1 := expandTo R S (refWin S R)

/-- processing window: `_ref_win` when processing on the reference grid, else `_src_win` -/
def procWin (S R : Axis) (procRef : Bool) : Win1 := if procRef then refWin S R else srcWin S R

/-! ### covers_bounds -/

/-- window of `S`'s bounds in pixel units of `R`, as exact rationals over `R.p`: (offset numerator, size numerator) -/
def boundsWinNum (R S : Axis) : Int × Int := (S.o - R.o, S.n * S.p)

/-- `covers_bounds(ref, src)` along one axis **as originally coded**: offset ≥ 0 and size ≤ image size -/
def coversCoded (R S : Axis) : Bool :=
  let (off, len) := boundsWinNum R S
  decide (0 ≤ off) && decide (len ≤ R.n * R.p)

/-- `covers_bounds(ref, src)` along one axis as repaired: offset ≥ 0 and offset + size ≤ image size -/
def coversFixed (R S : Axis) : Bool :=
  let (off, len) := boundsWinNum R S
  decide (0 ≤ off) && decide (off + len ≤ R.n * R.p)

/-- the footprint relation: the ground interval of `S` lies inside that of `R` -/
def footprintInside (R S : Axis) : Prop := R.edge 0 ≤ S.edge 0 ∧ S.edge S.n ≤ R.edge R.n
instance (R S : Axis) : Decidable (footprintInside R S) := by unfold footprintInside; exact inferInstance

/-! ### resolve proc_crs -/

inductive ProcCrs | auto | src | ref deriving Repr, DecidableEq

/-- `_resolve_proc_crs`: under `auto` the coarser image is the processing grid, ties go to the reference.
    `sArea`, `rArea` are the pixel areas `|res_x * res_y|`. -/
def resolveProcCrs (sArea rArea : Int) (req : ProcCrs) : ProcCrs :=
  match req with
  | .auto => if sArea ≤ rArea then .ref else .src
  | other => other

end Homonim
