/-
  Homonim.Model.Kernel — `KernelModel.fit` / `apply` on one co-gridded block, in exact rational arithmetic.

  As in the code, invalid pixels are zeroed, the joint mask is summed for N, and the six kernel sums are zero-border
  box filters (`cv.boxFilter(..., ksize=kernel_shape[::-1], normalize=False, borderType=BORDER_CONSTANT)`):
  height along rows, width along columns, anchored at the kernel centre.  Parameters are `Option`s: `none` where the
  pixel is not jointly valid, or where the code divides by zero (NaN / inf).
-/
namespace Homonim

/-- one co-gridded block of source and reference data with their validity masks -/
structure Block where
  h : Nat
  w : Nat
  src : Nat → Nat → Rat
  ref : Nat → Nat → Rat
  sm : Nat → Nat → Bool
  rm : Nat → Nat → Bool

/-- joint validity -/
def Block.m (b : Block) (r c : Nat) : Bool := b.sm r c && b.rm r c

/-- in-image positions of a length-`k` window centred on `c` along an axis of `n` pixels (`k` odd: anchor `k/2`) -/
def axisWin (k n c : Nat) : List Nat :=
  (List.range k).filterMap fun (d : Nat) =>
    let i : Int := (c : Int) - ((k / 2 : Nat) : Int) + (d : Int)
    if 0 ≤ i ∧ i < n then some i.toNat else none

/-- in-image positions of the `kh × kw` (height × width) window centred on `(r, c)` -/
def winPos (kh kw h w r c : Nat) : List (Nat × Nat) :=
  (axisWin kh h r).flatMap fun i => (axisWin kw w c).map fun j => (i, j)

/-- zero-border box filter, not normalised -/
def boxSum (kh kw h w : Nat) (f : Nat → Nat → Rat) (r c : Nat) : Rat :=
  ((winPos kh kw h w r c).map fun p => f p.1 p.2).sum

/-- the six kernel sums at one pixel -/
structure Sums where
  N : Rat
  S : Rat
  R : Rat
  SS : Rat
  RR : Rat
  SR : Rat
  deriving Repr, DecidableEq

def Block.srcZ (b : Block) (r c : Nat) : Rat := if b.m r c then b.src r c else 0
def Block.refZ (b : Block) (r c : Nat) : Rat := if b.m r c then b.ref r c else 0

/-- kernel sums of the zero-filled arrays, as the code computes them -/
def Block.sums (b : Block) (kh kw r c : Nat) : Sums :=
  let bs := boxSum kh kw b.h b.w
  { N := bs (fun i j => if b.m i j then 1 else 0) r c
    S := bs b.srcZ r c
    R := bs b.refZ r c
    SS := bs (fun i j => b.srcZ i j * b.srcZ i j) r c
    RR := bs (fun i j => b.refZ i j * b.refZ i j) r c
    SR := bs (fun i j => b.srcZ i j * b.refZ i j) r c }

/-- fitted parameters at a pixel -/
structure Params where
  gain : Rat
  offset : Rat
  r2 : Option Rat      -- `none`: not requested, or TSS = 0
  deriving Repr, DecidableEq

/-- safe division: `none` where the code would produce NaN / inf -/
def divO (a b : Rat) : Option Rat := if b = 0 then none else some (a / b)

/-- `_r2_array` for a one-parameter model: `1 - N·(g²·SS - 2g·SR + RR) / (N·RR - R²)` -/
def r2Gain (s : Sums) (g : Rat) : Option Rat :=
  (divO ((g * g * s.SS - 2 * g * s.SR + s.RR) * s.N) (s.N * s.RR - s.R * s.R)).map fun q => 1 - q

/-- `_r2_array` for the two-parameter model -/
def r2GainOffset (s : Sums) (g o : Rat) : Option Rat :=
  (divO ((g * g * s.SS + 2 * (g * o) * s.S - 2 * g * s.SR - 2 * o * s.R + s.RR + s.N * (o * o)) * s.N)
    (s.N * s.RR - s.R * s.R)).map fun q => 1 - q

/-- `_fit_gain` at a jointly valid pixel, from its sums -/
def fitGainS (s : Sums) (findR2 : Bool) : Option Params :=
  (divO s.R s.S).map fun g => { gain := g, offset := 0, r2 := if findR2 then r2Gain s g else none }

/-- ordinary least squares from the sums, before any in-painting -/
def olsGain (s : Sums) : Option Rat := divO (s.N * s.SR - s.S * s.R) (s.N * s.SS - s.S * s.S)
def olsOffset (s : Sums) (g : Rat) : Option Rat := divO (s.R - g * s.S) s.N

/-- is this pixel's offset kept (`r2 > thresh ∧ gain > 0`)?  NaN comparisons are false. -/
def keepOffset (thresh : Rat) (g : Rat) (r2 : Option Rat) : Bool :=
  match r2 with
  | some q => decide (thresh < q) && decide (0 < g)
  | none => false

/-- the in-painted branch: offset taken from `fillnodata`, gain re-estimated through the kernel centroid -/
def inpainted (s : Sums) (oFill : Option Rat) (r2 : Option Rat) : Option Params :=
  oFill.bind fun oF => (divO (s.R - s.N * oF) s.S).map fun g' => { gain := g', offset := oF, r2 := r2 }

/-- OLS gain and offset (both, or neither when a denominator vanishes: NaN propagates from gain to offset) -/
def ols (s : Sums) : Option (Rat × Rat) := (olsGain s).bind fun g => (olsOffset s g).map fun o => (g, o)

/-- `_fit_gain_offset` at a jointly valid pixel.  `thresh = none`: no in-painting.  `oFill` is the in-painted offset the
    external `fillnodata` produced for this pixel (used only where the offset is not kept; `none` = it could not fill
    the pixel and left NaN).  With in-painting on, a
    degenerate OLS (NaN) fails the `R2 > thresh` test and is in-painted like any other poorly fitted pixel. -/
def fitGainOffsetS (s : Sums) (findR2 : Bool) (thresh : Option Rat) (oFill : Option Rat) : Option Params :=
  match thresh with
  | none => (ols s).map fun go =>
      { gain := go.1, offset := go.2, r2 := if findR2 then r2GainOffset s go.1 go.2 else none }
  | some t =>
    match ols s with
    | some go =>
      let r2 := r2GainOffset s go.1 go.2
      if keepOffset t go.1 r2 then some { gain := go.1, offset := go.2, r2 := r2 } else inpainted s oFill r2
    | none => inpainted s oFill none

/-- `_fit_gain_blk_offset` at a jointly valid pixel: the sums are those of the *normalised* source `n0·src + n1` -/
def fitGainBlkOffsetS (sNorm : Sums) (findR2 : Bool) (n0 n1 : Rat) : Option Params :=
  (fitGainS sNorm findR2).map fun p => { gain := p.gain * n0, offset := p.gain * n1, r2 := p.r2 }

inductive Model | gain | gainBlkOffset | gainOffset deriving Repr, DecidableEq

/-- the block with its source normalised by the block model (invalid pixels keep whatever they had) -/
def Block.normalised (b : Block) (n0 n1 : Rat) : Block := { b with src := fun r c => b.src r c * n0 + n1 }

/-- `KernelModel.fit` at pixel `(r, c)` -/
def fitAt (b : Block) (model : Model) (kh kw : Nat) (findR2 : Bool) (thresh : Option Rat) (n0 n1 : Rat)
    (oFill : Nat → Nat → Option Rat) (r c : Nat) : Option Params :=
  if b.m r c then
    match model with
    | .gain => fitGainS (b.sums kh kw r c) findR2
    | .gainBlkOffset => fitGainBlkOffsetS ((b.normalised n0 n1).sums kh kw r c) findR2 n0 n1
    | .gainOffset => fitGainOffsetS (b.sums kh kw r c) findR2 thresh (oFill r c)
  else none

/-- `KernelModel.apply`: `gain·src + offset` -/
def applyParams (p : Params) (x : Rat) : Rat := p.gain * x + p.offset

/-- `utils.validate_kernel_shape`: both odd, both ≥ 1, and area ≥ 2 for gain-offset -/
def validKernelShape (kh kw : Int) (model : Model) : Bool :=
  decide (kh % 2 = 1) && decide (kw % 2 = 1) && decide (1 ≤ kh) && decide (1 ≤ kw) &&
    (model != .gainOffset || decide (2 ≤ kh * kw))

/-- `utils.validate_kernel_shape` warns (but accepts) a gain-offset kernel of fewer than 25 elements -/
def kernelWarns (kh kw : Int) (model : Model) : Bool :=
  model == .gainOffset && decide (2 ≤ kh * kw) && decide (kh * kw < 25)

/-- `utils.overlap_for_kernel`: `ceil(k / 2)` per axis -/
def overlapForKernel (k : Nat) : Nat := (k + 1) / 2

/-! ### block normalisation (`_fit_block_norm`) -/

/-- population variance of a list (numpy `std` squared) -/
def variance (xs : List Rat) : Rat :=
  let n : Rat := xs.length
  let mu := xs.sum / n
  (xs.map fun x => (x - mu) * (x - mu)).sum / n

/-- insertion sort (for the percentile) -/
def insertSorted (x : Rat) : List Rat → List Rat
  | [] => [x]
  | y :: ys => if x ≤ y then x :: y :: ys else y :: insertSorted x ys
def sortRat (xs : List Rat) : List Rat := xs.foldr insertSorted []

/-- numpy `percentile(xs, q)` with linear interpolation, `q` in percent -/
def percentile (xs : List Rat) (q : Rat) : Rat :=
  let s := sortRat xs
  let n := s.length
  if n = 0 then 0 else
  let pos : Rat := q / 100 * ((n : Rat) - 1)
  let lo := pos.floor.toNat
  let frac := pos - (lo : Rat)
  let a := s.getD lo 0
  let b := s.getD (lo + 1) a
  a + (b - a) * frac

/-- jointly valid values of a block in row-major order -/
def Block.validVals (b : Block) (f : Nat → Nat → Rat) : List Rat :=
  (List.range b.h).flatMap fun r => (List.range b.w).filterMap fun c => if b.m r c then some (f r c) else none

end Homonim
