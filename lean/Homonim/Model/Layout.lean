/-
  Homonim.Model.Layout — band layout of the parameter image (`RasterFuse._process_block`, `_set_param_metadata`,
  `utils.validate_param_image`) and output naming (`utils.create_out_postfix`, `create_param_filename`).
-/
namespace Homonim

/-- 1-based band of the parameter image holding parameter `k` (0 gain, 1 offset, 2 R²) of the `i`-th of `n` matched
    band pairs: `np.arange(param_ra.count) * len(src_bands) + band_i + 1` -/
def paramIndex (n i k : Nat) : Nat := k * n + i + 1

/-- Python `range(start, stop, step)` for a positive step -/
def pyRange (start stop step : Nat) : List Nat :=
  (List.range ((stop - start + step - 1) / step)).map fun j => start + j * step

/-- the (band, parameter id) labels `_set_param_metadata` writes: for every pair `bi`,
    `zip(range(bi, count, n), ['GAIN', 'OFFSET', 'R2'])` -/
def descrAssignments (n count : Nat) : List (Nat × Nat) :=
  (List.range n).flatMap fun bi => ((pyRange bi count n).zip [0, 1, 2]).map fun pk => (pk.1 + 1, pk.2)

/-- suffix id `validate_param_image` expects on 1-based band `b` of a `3n`-band image: `['gain']*n + ['offset']*n + ['r2']*n` -/
def expectedSuffix (n b : Nat) : Nat := (b - 1) / n

def suffixName : Nat → String
  | 0 => "GAIN"
  | 1 => "OFFSET"
  | _ => "R2"

/-- lower-case suffix `validate_param_image` looks for -/
def suffixLower : Nat → String
  | 0 => "gain"
  | 1 => "offset"
  | _ => "r2"

/-- the whole list of expected suffixes of a `3n`-band parameter image, in band order -/
def expectedSuffixes (n : Nat) : List String := (List.range (3 * n)).map fun j => suffixLower (expectedSuffix n (j + 1))

/-- `validate_param_image` on the band count -/
def validCount (count : Nat) : Bool := count != 0 && count % 3 == 0

end Homonim

namespace Homonim

/-- a rasterio profile as an association list key ↦ value (first binding wins) -/
abbrev Profile := List (String × String)

def Profile.get (p : Profile) (k : String) : Option String := (p.find? fun e => e.1 == k).map (·.2)

/-- set / replace a key -/
def Profile.set (p : Profile) (k v : String) : Profile := (k, v) :: p.filter fun e => e.1 != k

/-- the keys `combine_profiles` keeps from the input profile when the driver changes -/
def copyKeys : List String := ["driver", "width", "height", "count", "dtype", "crs", "transform"]

/-- `utils.combine_profiles`: start from the input profile (only the non-driver-specific keys when the configured driver
    differs), then overwrite with the flattened configuration profile (`driver`, `dtype`, `nodata` and the nested creation
    options, in that order) -/
def combineProfiles (inP : Profile) (cfgDriver : String) (cfgFlat : List (String × String)) : Profile :=
  let base : Profile :=
    if (inP.get "driver").map String.toLower != some cfgDriver.toLower then inP.filter fun e => copyKeys.contains e.1
    else inP
  cfgFlat.foldl (fun p kv => p.set kv.1 kv.2) base

/-- vertical flip of an image stored bottom-to-top (what the north-up VRT undoes) -/
def flipRows {α : Type} (rows : List (List α)) : List (List α) := rows.reverse

end Homonim
