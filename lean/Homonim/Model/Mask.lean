/-
  Homonim.Model.Mask — validity decisions: how a stored pixel becomes a valid / invalid `RasterArray` pixel
  (`from_rio_dataset` + `RasterArray.mask`), and the partial-coverage mask of `_full_coverage_mask`.
-/
import Homonim.Model.Kernel
namespace Homonim

/-- a pixel value as stored in a file: finite, or NaN -/
inductive FVal
  | fin (q : Rat)
  | nan
  deriving Repr, DecidableEq

/-- `utils.nan_equals` -/
def FVal.nanEq : FVal → FVal → Bool
  | .nan, .nan => true
  | .fin a, .fin b => a == b
  | _, _ => false

/-- IEEE `==` on stored values: NaN equals nothing -/
def FVal.ieeeEq : FVal → FVal → Bool
  | .fin a, .fin b => a == b
  | _, _ => false

def FVal.isNan : FVal → Bool
  | .nan => true
  | .fin _ => false

/-- `from_rio_dataset` followed by `RasterArray.mask` for one pixel: `isMasked` = the dataset has a per-dataset mask
    (internal mask band or alpha), `dsNodata` = the dataset's nodata value, `stored` = the number in the file,
    `maskBit` = the dataset mask at the pixel.  Result: the valid value, or `none`. -/
def readPx (isMasked : Bool) (dsNodata : Option FVal) (stored : FVal) (maskBit : Bool) : Option Rat :=
  -- internal nodata: NaN when masked or when the dataset has no nodata value
  let nodata : FVal := if isMasked then .nan else dsNodata.getD .nan
  -- masked datasets: pixels hidden by the mask are overwritten with nodata before anything else sees them
  let v : FVal := if isMasked && !maskBit then nodata else stored
  if v.nanEq nodata then none else
    match v with
    | .fin q => some q
    | .nan => none

/-- erosion with a `(kh + 2) x (kw + 2)` rectangle and a false border (`cv.erode(..., BORDER_CONSTANT, 0)`): true iff
    every position of the grown window is inside the block and true -/
def erodeAt (kh kw h w : Nat) (m : Nat → Nat → Bool) (r c : Nat) : Bool :=
  (List.range (kh + 2)).all fun (di : Nat) => (List.range (kw + 2)).all fun (dj : Nat) =>
    let i : Int := (r : Int) - ((kh + 2) / 2 : Nat) + di
    let j : Int := (c : Int) - ((kw + 2) / 2 : Nat) + dj
    decide (0 ≤ i) && decide (i < h) && decide (0 ≤ j) && decide (j < w) && m i.toNat j.toNat

/-- `_full_coverage_mask` at a processing pixel: `cover r c` = the average-resampled other mask is ≥ 1 (the pixel is
    completely covered by valid pixels of the other image), `pm r c` = the parameter mask -/
def fullCoverageAt (kh kw h w : Nat) (cover pm : Nat → Nat → Bool) (r c : Nat) : Bool :=
  erodeAt kh kw h w (fun i j => cover i j && pm i j) r c

end Homonim
