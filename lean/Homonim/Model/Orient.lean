/-
  Homonim.Model.Orient — `utils.same_orientation_crs`: which of the two images are wrapped in a WarpedVRT
  (north-up re-projection, optionally into the other image's CRS).
-/
import Homonim.Model.Geom
namespace Homonim

/-- what the decision logic sees of an open image: its orientation flag and an identifier of its CRS -/
structure ImState where
  northUp : Bool
  crs : Nat
  deriving Repr, DecidableEq

/-- `north_up(im)`: positive x pixel size, negative y pixel size, no rotation / shear terms (exact zero tests) -/
def northUpOf (a b d e : Rat) : Bool := decide (0 < a) && decide (e < 0) && decide (b = 0) && decide (d = 0)

/-- `WarpedVRT(im, crs=c)` without transform arguments re-projects to north-up in CRS `c` -/
def warp (_im : ImState) (c : Nat) : ImState := ⟨true, c⟩

/-- `same_orientation_crs(src, ref, proc_crs)`; `procIsSrc` = (`proc_crs == ProcCrs.src`) -/
def sameOrientationCrs (src ref : ImState) (procIsSrc : Bool) : ImState × ImState :=
  let sameCrs := src.crs == ref.crs
  let src1 := if !src.northUp && (sameCrs || !procIsSrc) then warp src src.crs else src
  let ref1 := if !ref.northUp && (sameCrs || procIsSrc) then warp ref ref.crs else ref
  let src2 := if !sameCrs && procIsSrc then warp src1 ref.crs else src1
  let ref2 := if !sameCrs && !procIsSrc then warp ref1 src.crs else ref1
  (src2, ref2)

end Homonim
