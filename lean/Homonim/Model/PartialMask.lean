/-
  Homonim.Model.PartialMask — `mask_partial=True` on the reference grid as one function of the two images
  (`RefSpaceModel.apply` → `_full_coverage_mask`): a source pixel stays valid iff the reference pixel under its centre,
  and every reference pixel of the (kh + 2) x (kw + 2) window around that one, (a) is completely covered by valid source
  pixels, (b) carries parameters, and (c) lies inside what the run (or the block) read.
-/
import Homonim.Model.FuseBlocks
import Homonim.Model.Mask
namespace Homonim

/-- the source pixels (index window along one axis) that meet reference pixel `i` -/
def srcUnder (S R : Axis) (i : Int) : Win1 := expandTo R S ⟨i, i + 1⟩

/-- `mask_ra.array >= 1` after averaging the zero-padded 0/1 source mask onto the reference grid: every source pixel position
    that meets reference pixel `(i, j)` holds a valid source pixel (positions outside the source image hold none) -/
def ImagePair.coverRef (p : ImagePair) (i j : Int) : Bool :=
  (srcUnder p.Sr p.Rr i).indices.all fun a => (srcUnder p.Sc p.Rc j).indices.all fun b => (p.src a b).isSome

/-- the mask before erosion: completely covered and carrying parameters -/
def ImagePair.keepIn (p : ImagePair) (model : Model) (kh kw : Nat) (n0 n1 : Rat) (i j : Int) : Bool :=
  p.coverRef i j && (p.params model kh kw n0 n1 i j).isSome

/-- erosion by the kernel grown by two, false outside: every reference pixel within `k/2 + 1` of `(i, j)` is kept
    (`(k + 2) / 2 = k/2 + 1`; the anchor of the rectangle is its centre) -/
def ImagePair.keepEroded (p : ImagePair) (model : Model) (kh kw : Nat) (n0 n1 : Rat) (i j : Int) : Bool :=
  (List.range (kh + 2)).all fun (di : Nat) => (List.range (kw + 2)).all fun (dj : Nat) =>
    p.keepIn model kh kw n0 n1 (i - (((kh + 2) / 2 : Nat) : Int) + di) (j - (((kw + 2) / 2 : Nat) : Int) + dj)

/-- validity of corrected source pixel `(r, c)` with partial masking: the eroded mask at the reference pixel under its
    centre (nearest-neighbour re-projection of the mask to the source grid), and the source pixel itself -/
def ImagePair.partialValid (p : ImagePair) (model : Model) (kh kw : Nat) (n0 n1 : Rat) (r c : Int) : Bool :=
  (p.src r c).isSome && p.keepEroded model kh kw n0 n1 (nearestIdx p.Rr p.Sr r) (nearestIdx p.Rc p.Sc c)

/-- the same as computed by block `(kr, kc)` from what it read -/
def ImagePair.partialValidByBlock (p : ImagePair) (model : Model) (kh kw : Nat) (n0 n1 : Rat)
    (sr sc vr vc : Int) (kr kc : Nat) (r c : Int) : Bool :=
  let br := p.blockRows sr vr kr
  let bc := p.blockCols sc vc kc
  (p.restrict br.pin bc.pin br.oin bc.oin).partialValid model kh kw n0 n1 r c

/-! ### source-grid processing (`SrcSpaceModel.fit` with `mask_partial`): cover of a source pixel by valid reference pixels,
    parameters on the source grid, erosion on the source grid; no re-projection of the mask -/

/-- the reference pixels (index window along one axis) that meet source pixel `r` -/
def refUnder (S R : Axis) (r : Int) : Win1 := expandTo S R ⟨r, r + 1⟩

/-- every reference pixel position that meets source pixel `(r, c)` holds a valid pixel of the reference window that was read -/
def ImagePair.coverSrc (p : ImagePair) (r c : Int) : Bool :=
  (refUnder p.Sr p.Rr r).indices.all fun a => (refUnder p.Sc p.Rc c).indices.all fun b => (p.refRead a b).isSome

/-- parameters at source pixel `(r, c)` of a source-grid run (`none` outside the image) -/
def ImagePair.paramsSrc (p : ImagePair) (model : Model) (kh kw : Nat) (n0 n1 : Rat) (m : Resampling) (r c : Int) :
    Option Params :=
  if 0 ≤ r ∧ r < p.Sr.n ∧ 0 ≤ c ∧ c < p.Sc.n then
    fitAt (p.blockSrc m) model kh kw false none n0 n1 (fun _ _ => none) r.toNat c.toNat
  else none

def ImagePair.keepInSrc (p : ImagePair) (model : Model) (kh kw : Nat) (n0 n1 : Rat) (m : Resampling) (r c : Int) : Bool :=
  p.coverSrc r c && (p.paramsSrc model kh kw n0 n1 m r c).isSome

def ImagePair.keepErodedSrc (p : ImagePair) (model : Model) (kh kw : Nat) (n0 n1 : Rat) (m : Resampling) (r c : Int) : Bool :=
  (List.range (kh + 2)).all fun (di : Nat) => (List.range (kw + 2)).all fun (dj : Nat) =>
    p.keepInSrc model kh kw n0 n1 m (r - (((kh + 2) / 2 : Nat) : Int) + di) (c - (((kw + 2) / 2 : Nat) : Int) + dj)

/-- validity of corrected source pixel `(r, c)` with partial masking on the source grid -/
def ImagePair.partialValidSrcGrid (p : ImagePair) (model : Model) (kh kw : Nat) (n0 n1 : Rat) (m : Resampling) (r c : Int) :
    Bool :=
  (p.src r c).isSome && p.keepErodedSrc model kh kw n0 n1 m r c

/-- the source-grid partial mask computed from what was read: the source through `(sinR, sinC)`, the reference through
    `(rinR, rinC)` (a block of a multi-block run, or the whole run with `srcWin` and the reference window meeting it) -/
def ImagePair.partialValidSrcGridOn (p : ImagePair) (model : Model) (kh kw : Nat) (n0 n1 : Rat) (m : Resampling)
    (sinR sinC rinR rinC : Win1) (r c : Int) : Bool :=
  let src' : ImgO := p.src.restrict sinR sinC
  let ref' : ImgO := p.ref.restrict rinR rinC
  let refOn : ImgO := fun i j => resample2 m p.Rr p.Rc p.Sr p.Sc ref' i j
  let b : Block :=
    { h := p.Sr.n.toNat, w := p.Sc.n.toNat
      src := fun i j => (src' i j).getD 0, ref := fun i j => (refOn i j).getD 0
      sm := fun i j => (src' i j).isSome, rm := fun i j => (refOn i j).isSome }
  let cover : Int → Int → Bool := fun r c =>
    (refUnder p.Sr p.Rr r).indices.all fun a => (refUnder p.Sc p.Rc c).indices.all fun b' => (ref' a b').isSome
  let par : Int → Int → Option Params := fun r c =>
    if 0 ≤ r ∧ r < p.Sr.n ∧ 0 ≤ c ∧ c < p.Sc.n then
      fitAt b model kh kw false none n0 n1 (fun _ _ => none) r.toNat c.toNat
    else none
  (src' r c).isSome &&
    (List.range (kh + 2)).all fun (di : Nat) => (List.range (kw + 2)).all fun (dj : Nat) =>
      cover (r - (((kh + 2) / 2 : Nat) : Int) + di) (c - (((kw + 2) / 2 : Nat) : Int) + dj) &&
        (par (r - (((kh + 2) / 2 : Nat) : Int) + di) (c - (((kw + 2) / 2 : Nat) : Int) + dj)).isSome

/-- the same as computed by block `(kr, kc)` of a source-grid run -/
def ImagePair.partialValidSrcGridByBlock (p : ImagePair) (model : Model) (kh kw : Nat) (n0 n1 : Rat) (m : Resampling)
    (sr sc vr vc : Int) (kr kc : Nat) (r c : Int) : Bool :=
  let br := p.blockRowsSrc sr vr kr
  let bc := p.blockColsSrc sc vc kc
  p.partialValidSrcGridOn model kh kw n0 n1 m br.pin bc.pin br.oin bc.oin r c

end Homonim
