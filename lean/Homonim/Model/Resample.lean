/-
  Homonim.Model.Resample — GDAL warp as used by `RasterArray.reproject` (north-up, same CRS), modelled as a
  normalised weighted mean over the *valid* source pixels in the destination pixel's support.
  The weights are the resampling kernel's (overlap area for `average`; separable kernel values at the destination
  pixel centre for nearest / bilinear / cubic / cubic_spline); see DESIGN.md 4.3 (measured, not verified).
-/
import Homonim.Model.Kernel
import Homonim.Model.Geom
namespace Homonim

/-- normalised weighted mean of (weight, value) pairs; `none` when the weights sum to zero (no valid support) -/
def wmean (l : List (Rat × Rat)) : Option Rat :=
  divO (l.map fun p => p.1 * p.2).sum (l.map fun p => p.1).sum

/-- up-sampling a parameter block: gain and offset are resampled with the same weights -/
def upsampleParams (l : List (Rat × Params)) : Option (Rat × Rat) :=
  match wmean (l.map fun p => (p.1, p.2.gain)), wmean (l.map fun p => (p.1, p.2.offset)) with
  | some g, some o => some (g, o)
  | _, _ => none

/-- overlap length of `[a0, a1)` and `[b0, b1)` -/
def overlap1 (a0 a1 b0 b1 : Int) : Int := max 0 (min a1 b1 - max a0 b0)

/-- `average` weights of destination pixel `j` of axis `D` over source pixels of axis `S`: overlap lengths -/
def avgWeights1 (S D : Axis) (j : Int) : List (Int × Int) :=
  (List.range S.n.toNat).filterMap fun (i : Nat) =>
    let w := overlap1 (S.edge i) (S.edge (i + 1)) (D.edge j) (D.edge (j + 1))
    if w > 0 then some ((i : Int), w) else none

/-- index of the source pixel containing the centre of destination pixel `j` (nearest neighbour; validity rule of
    all up-sampling kernels): `floor((D.edge j + D.p/2 - S.o) / S.p)` in doubled coordinates -/
def nearestIdx (S D : Axis) (j : Int) : Int := (2 * (D.edge j - S.o) + D.p) / (2 * S.p)

/-- a source image as a lookup: `none` = invalid or outside the array -/
abbrev ImgO := Int → Int → Option Rat

/-- `average`: area-weighted mean over the valid source pixels that overlap destination pixel `(jr, jc)`;
    valid iff at least one valid source pixel overlaps it (R1) -/
def avg2 (Sr Sc Dr Dc : Axis) (img : ImgO) (jr jc : Int) : Option Rat :=
  let wr := avgWeights1 Sr Dr jr
  let wc := avgWeights1 Sc Dc jc
  wmean (wr.flatMap fun iw => wc.filterMap fun kv => (img iw.1 kv.1).map fun x => (((iw.2 * kv.2 : Int) : Rat), x))

/-- `nearest`: the source pixel containing the destination pixel centre (R2 with a 1 x 1 support) -/
def nearest2 (Sr Sc Dr Dc : Axis) (img : ImgO) (jr jc : Int) : Option Rat :=
  img (nearestIdx Sr Dr jr) (nearestIdx Sc Dc jc)

/-- 1-D bilinear support of destination pixel `j`: the two source pixels whose centres bracket the destination
    centre, with weights in units of `1/(2·S.p)`: `u = (2(D.edge j - S.o) + D.p - S.p) / (2 S.p)`, `i0 = floor u` -/
def bilinWeights1 (S D : Axis) (j : Int) : List (Int × Int) :=
  let num := 2 * (D.edge j - S.o) + D.p - S.p
  let den := 2 * S.p
  let i0 := num / den
  let t := num - i0 * den          -- fractional part times den, 0 ≤ t < den
  [(i0, den - t), (i0 + 1, t)]

/-- `bilinear` when up-sampling (R2): valid iff the source pixel containing the centre is valid; value = weighted mean
    over the valid pixels of the 2 x 2 support, weights renormalised -/
def bilinear2 (Sr Sc Dr Dc : Axis) (img : ImgO) (jr jc : Int) : Option Rat :=
  match nearest2 Sr Sc Dr Dc img jr jc with
  | none => none
  | some _ =>
    wmean ((bilinWeights1 Sr Dr jr).flatMap fun iw => (bilinWeights1 Sc Dc jc).filterMap fun kv =>
      (img iw.1 kv.1).map fun x => (((iw.2 * kv.2 : Int) : Rat), x))

inductive Resampling | average | nearest | bilinear deriving Repr, DecidableEq

def resample2 (m : Resampling) (Sr Sc Dr Dc : Axis) (img : ImgO) (jr jc : Int) : Option Rat :=
  match m with
  | .average => avg2 Sr Sc Dr Dc img jr jc
  | .nearest => nearest2 Sr Sc Dr Dc img jr jc
  | .bilinear => bilinear2 Sr Sc Dr Dc img jr jc

/-- `_get_resampling`: bringing an image with pixel area `fromArea` onto a grid with pixel area `toArea` uses the
    down-sampling method (default `average`) iff the area does not shrink, else the up-sampling method -/
def useDownsampling (fromArea toArea : Rat) : Bool := decide (fromArea ≤ toArea)

end Homonim
