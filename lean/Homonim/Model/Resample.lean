/-
  Homonim.Model.Resample — GDAL warp as used by `RasterArray.reproject` (north-up, same CRS), modelled as a
  normalised weighted mean over the *valid* source pixels in the destination pixel's support.
  The weights are the resampling kernel's (overlap area for `average`; separable kernel values at the destination
  pixel centre for nearest / bilinear / cubic / cubic_spline); see DESIGN.md 4.3 (measured, not verified).
-/
import Homonim.Model.Kernel
import Homonim.Model.Geom
namespace Homonim

/-- normalised weighted mean of (weight, value) pairs; `none` when the weights sum to zero (no valid support) -/
def wmean (l : List (Rat × Rat)) : Option Rat :=
  divO (l.map fun p => p.1 * p.2).sum (l.map fun p => p.1).sum

/-- up-sampling a parameter block: gain and offset are resampled with the same weights -/
def upsampleParams (l : List (Rat × Params)) : Option (Rat × Rat) :=
  match wmean (l.map fun p => (p.1, p.2.gain)), wmean (l.map fun p => (p.1, p.2.offset)) with
  | some g, some o => some (g, o)
  | _, _ => none

/-- overlap length of `[a0, a1)` and `[b0, b1)` -/
def overlap1 (a0 a1 b0 b1 : Int) : Int := max 0 (min a1 b1 - max a0 b0)

/-- `average` weights of destination pixel `j` of axis `D` over source pixels of axis `S`: overlap lengths -/
def avgWeights1 (S D : Axis) (j : Int) : List (Int × Int) :=
  (List.range S.n.toNat).filterMap fun (i : Nat) =>
    let w := overlap1 (S.edge i) (S.edge (i + 1)) (D.edge j) (D.edge (j + 1))
    if w > 0 then some ((i : Int), w) else none

/-- index of the source pixel containing the centre of destination pixel `j` (nearest neighbour; validity rule of
    all up-sampling kernels): `floor((D.edge j + D.p/2 - S.o) / S.p)` in doubled coordinates -/
def nearestIdx (S D : Axis) (j : Int) : Int := (2 * (D.edge j - S.o) + D.p) / (2 * S.p)

end Homonim
