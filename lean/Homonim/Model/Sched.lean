/-
  Homonim.Model.Sched — the block fan-out of `RasterFuse.process` as a state machine.

  Resources: the four image files `S` (source), `R` (reference), `C` (corrected), `P` (parameter), each guarded by its
  own lock.  Every job (block) runs the straight-line program of `_process_block`:
      acq S, io S, rel S, acq R, io R, rel R, fit, apply, acq C, io C, rel C, [acq P, io P, rel P]
  on any of `T` worker threads, under any scheduler.  A fault plan makes chosen steps raise: a faulting `io` leaves its
  `with lock:` block (the lock is released) and the job ends as failed; a faulting compute step ends the job as failed.
  Completed writes and finished jobs are recorded as monotone histories.
-/
namespace Homonim

inductive Res | S | R | C | P deriving DecidableEq, Repr

inductive Instr
  | acq (r : Res) | io (r : Res) | rel (r : Res) | compute
  deriving DecidableEq, Repr

def prog (param : Bool) : List Instr :=
  [.acq .S, .io .S, .rel .S, .acq .R, .io .R, .rel .R, .compute, .compute, .acq .C, .io .C, .rel .C] ++
  (if param then [.acq .P, .io .P, .rel .P] else [])

def instrAt (param : Bool) (pc : Nat) : Option Instr := (prog param)[pc]?

/-- does a thread at `pc` hold the lock of `r` (it is between `acq r` and `rel r`)? -/
def holdsAt (param : Bool) (pc : Nat) (r : Res) : Bool :=
  match instrAt param pc with
  | some (.io r') => r = r'
  | some (.rel r') => r = r'
  | _ => false

/-- a worker thread: idle, or running job `job` at program counter `pc` -/
structure TState where
  job : Nat
  pc : Nat
  deriving DecidableEq, Repr

structure SState where
  queue : List Nat                      -- submitted jobs not yet taken, in submission order
  threads : List (Option TState)
  owner : Res → Option Nat              -- which thread holds each lock
  writes : List (Nat × Res)             -- completed writes (job, C | P), in completion order
  done : List (Nat × Option Nat)        -- finished jobs: `none` = succeeded, `some pc` = failed at step `pc`

def setOwner (o : Res → Option Nat) (r : Res) (v : Option Nat) : Res → Option Nat :=
  fun r' => if r' = r then v else o r'

def initState (jobs : List Nat) (T : Nat) : SState :=
  { queue := jobs, threads := List.replicate T none, owner := fun _ => none, writes := [], done := [] }

/-- fault plan: does step `pc` of job `j` raise? (only `io` and `compute` steps can) -/
abbrev Faults := Nat → Nat → Bool

/-- one step of thread `t`; `none` = not enabled (no such thread, nothing to take, or lock held by another) -/
def step (param : Bool) (faults : Faults) (s : SState) (t : Nat) : Option SState :=
  match s.threads[t]? with
  | none => none
  | some none =>
    match s.queue with
    | [] => none
    | j :: rest => some { s with queue := rest, threads := s.threads.set t (some ⟨j, 0⟩) }
  | some (some ts) =>
    match instrAt param ts.pc with
    | none =>   -- past the last instruction: the job returns normally
      some { s with threads := s.threads.set t none, done := s.done ++ [(ts.job, none)] }
    | some (.acq r) =>
      if (s.owner r).isSome then none
      else some { s with threads := s.threads.set t (some ⟨ts.job, ts.pc + 1⟩), owner := setOwner s.owner r (some t) }
    | some (.rel r) =>
      some { s with threads := s.threads.set t (some ⟨ts.job, ts.pc + 1⟩), owner := setOwner s.owner r none }
    | some (.io r) =>
      if faults ts.job ts.pc then
        -- the exception leaves the `with lock:` block: lock released, job failed
        some { s with threads := s.threads.set t none, owner := setOwner s.owner r none,
                      done := s.done ++ [(ts.job, some ts.pc)] }
      else
        some { s with threads := s.threads.set t (some ⟨ts.job, ts.pc + 1⟩),
                      writes := if r = .C ∨ r = .P then s.writes ++ [(ts.job, r)] else s.writes }
    | some .compute =>
      if faults ts.job ts.pc then
        some { s with threads := s.threads.set t none, done := s.done ++ [(ts.job, some ts.pc)] }
      else some { s with threads := s.threads.set t (some ⟨ts.job, ts.pc + 1⟩) }

/-- run a schedule (a list of thread ids); steps that are not enabled are skipped -/
def runSched (param : Bool) (faults : Faults) (s : SState) : List Nat → SState
  | [] => s
  | t :: ts =>
    match step param faults s t with
    | some s' => runSched param faults s' ts
    | none => runSched param faults s ts

def SState.final (s : SState) : Bool := s.queue.isEmpty && s.threads.all Option.isNone

/-- what the caller sees when all jobs are finished (`as_completed` + `future.result()`): raised iff a job failed -/
inductive Outcome2 | ok | raised deriving DecidableEq, Repr

def SState.outcome (s : SState) : Outcome2 := if s.done.any (fun d => d.2.isSome) then .raised else .ok

def SState.locksFree (s : SState) : Bool := [Res.S, .R, .C, .P].all fun r => (s.owner r).isNone

/-- the single-thread branch of `process()` is the machine with one worker, except that the loop stops at the first
    failure: jobs still queued when a job has failed are never taken -/
def stepSeq (param : Bool) (faults : Faults) (s : SState) : Option SState :=
  match s.threads[0]? with
  | some none => if s.done.any (fun d => d.2.isSome) then none else step param faults s 0
  | _ => step param faults s 0

/-! ### disjoint block writes into an output array -/

/-- apply a sequence of block writes `(block id)`; block `b` covers the pixels `cover b` and stores `val b x` there -/
def applyWrites {α : Type} (cover : Nat → Nat → Bool) (val : Nat → Nat → α) (init : Nat → α) (ws : List Nat) : Nat → α :=
  ws.foldl (fun arr b => fun x => if cover b x then val b x else arr x) init

/-! ### trace replay (used by the correspondence leg): labels observed on the real threads -/

inductive Label
  | take | acq (r : Res) | io (r : Res) | rel (r : Res) | compute | fin | fail (r : Option Res)
  deriving DecidableEq, Repr

/-- the label the machine expects for thread `t`'s next step (given whether that step faults) -/
def expectedLabel (param : Bool) (faults : Faults) (s : SState) (t : Nat) : Option Label :=
  match s.threads[t]? with
  | none => none
  | some none => if s.queue.isEmpty then none else some .take
  | some (some ts) =>
    match instrAt param ts.pc with
    | none => some .fin
    | some (.acq r) => some (.acq r)
    | some (.rel r) => some (.rel r)
    | some (.io r) => if faults ts.job ts.pc then some (.fail (some r)) else some (.io r)
    | some .compute => if faults ts.job ts.pc then some (.fail none) else some .compute

/-- replay an observed trace: every event must be the expected label of an enabled step; returns the index of the
    first event the machine rejects -/
def replay (param : Bool) (faults : Faults) (s : SState) : List (Nat × Label) → Nat → Except Nat SState
  | [], _ => .ok s
  | (t, l) :: rest, k =>
    if expectedLabel param faults s t = some l then
      match step param faults s t with
      | some s' => replay param faults s' rest (k + 1)
      | none => .error k
    else .error k

/-! ### the fan-out of `RasterFuse.process` as the machine assumes it -/

/-- what the caller does with the jobs: every block is submitted before any result is awaited, every job is awaited
    (in completion order), and a job's exception is re-raised in the caller by `future.result()`; with one thread the blocks
    are processed in order in the calling thread -/
inductive FanOp | submitEvery | awaitEveryCompleted | reraise | sequentialWhenOneThread deriving Repr, DecidableEq

/-- the assumptions `init` (all jobs queued), `runSched` (every job runs to its end, whatever happened to the others) and
    `outcome` (raised iff some job failed) encode -/
def fanOutModel : List FanOp := [.sequentialWhenOneThread, .submitEvery, .awaitEveryCompleted, .reraise]

/-- how `RasterCompare.process` and `ParamStats.stats` add the block sums up: each worker computes and *returns* the sums of
    its own block; the calling thread takes the completed futures one at a time and adds their results to the per-band
    accumulators.  No accumulator is shared between threads, so the totals are sums of the same terms in some order -/
inductive AccOp | workerReturnsOwnSums | submitEvery | awaitEveryCompleted | accumulateInCaller deriving Repr, DecidableEq

def accumulateModel : List AccOp := [.workerReturnsOwnSums, .submitEvery, .awaitEveryCompleted, .accumulateInCaller]

/-- where the code calls `threading.Lock()`: the four file locks in the constructors (one per object, made by the constructing
    thread before any block is in flight), the read locks of `ParamStats` by the caller before its workers start - a lock made by a
    worker on first use could be made twice (the machine's `init` assumes one lock per file) -/
inductive LockSite
  | fuseCorrInInit | fuseParamInInit | pairSrcInInit | pairRefInInit | statsWindowBeforeWorkers | statsSumsBeforeWorkers
  deriving Repr, DecidableEq

def lockSitesModel : List LockSite :=
  [.fuseCorrInInit, .fuseParamInInit, .pairSrcInInit, .pairRefInInit, .statsWindowBeforeWorkers, .statsSumsBeforeWorkers]

/-! ### The compute steps and the one model object

`RasterFuse.process` hands one `KernelModel` object to every block.  The machine above takes the value a job writes to be a
function of the job alone (`val` in `applyWrites`); that is an assumption about `fit` and `apply`, made explicit here: the
object is a state `σ` that `fit` may store into and that both methods may read.  `Props/C04.lean` proves that a model whose
`fit` leaves the state alone computes, under every interleaving of the blocks' compute steps, what it computes for the block on
its own - and that a model which does store into it (a note about "the last block fitted") does not. -/

structure SharedModel (σ P V : Type) where
  fit : σ → Nat → σ × P
  apply : σ → Nat → P → V

/-- compute events of a run: block `j` is fitted; block `j` is corrected with the parameters of its own latest fit -/
inductive CEv | fit (j : Nat) | apply (j : Nat) deriving Repr, DecidableEq

/-- the corrected blocks `(j, value)` a sequence of compute events produces, from model state `s` and the parameters fitted so far -/
def runCompute {σ P V : Type} (m : SharedModel σ P V) : σ → (Nat → Option P) → List CEv → List (Nat × V)
  | _, _, [] => []
  | s, ps, .fit j :: es => runCompute m (m.fit s j).1 (fun k => if k = j then some (m.fit s j).2 else ps k) es
  | s, ps, .apply j :: es =>
    match ps j with
    | some p => (j, m.apply s j p) :: runCompute m s ps es
    | none => runCompute m s ps es

/-- no method stores into the object: `fit` returns the state it was given -/
def SharedModel.Stateless {σ P V : Type} (m : SharedModel σ P V) : Prop := ∀ s j, (m.fit s j).1 = s

/-- the stores into the shared model object (its class, a global, a non-local) by methods other than `__init__` that the machine
    assumes: none (tied to the source text by `src_C04_model_state`) -/
def sharedModelWritesModel : List String := []


end Homonim
