/-
  Homonim.Model.Stats — `RasterCompare` (seven sums per block over the jointly valid processing pixels, accumulated per
  band, statistics from the sums) and `ParamStats` (min / max / sum / sum² / n per tile, accumulated, one-pass
  variance, in-paint percentage).  Square roots are not taken: RMSE, rRMSE and std are represented by their squares.
-/
namespace Homonim

/-- the seven block sums of `compare.py` -/
structure CSums where
  src : Rat
  ref : Rat
  src2 : Rat
  ref2 : Rat
  srcRef : Rat
  res2 : Rat
  n : Rat
  deriving Repr, DecidableEq

def CSums.zero : CSums := ⟨0, 0, 0, 0, 0, 0, 0⟩

def CSums.add (a b : CSums) : CSums :=
  ⟨a.src + b.src, a.ref + b.ref, a.src2 + b.src2, a.ref2 + b.ref2, a.srcRef + b.srcRef, a.res2 + b.res2, a.n + b.n⟩

/-- sums of one block: `pts` are the (source, reference) values at its jointly valid processing pixels -/
def blockSums (pts : List (Rat × Rat)) : CSums :=
  pts.foldl (fun s x => s.add ⟨x.1, x.2, x.1 * x.1, x.2 * x.2, x.1 * x.2, (x.2 - x.1) * (x.2 - x.1), 1⟩) CSums.zero

/-- accumulation over blocks, in completion order -/
def accumulate (blocks : List CSums) : CSums := blocks.foldl CSums.add CSums.zero

/-- statistics of one band from its accumulated sums: (r², RMSE², rRMSE², N); `none` where the code divides by 0 -/
structure CStats where
  r2 : Option Rat
  rmse2 : Option Rat
  rrmse2 : Option Rat
  n : Int
  deriving Repr, DecidableEq

def divO' (a b : Rat) : Option Rat := if b = 0 then none else some (a / b)

def bandStats (s : CSums) : CStats :=
  if s.n = 0 then ⟨none, none, none, 0⟩ else
  let ms := s.src / s.n
  let mr := s.ref / s.n
  let num := s.srcRef - s.n * ms * mr
  let ds := s.src2 - s.n * (ms * ms)
  let dr := s.ref2 - s.n * (mr * mr)
  let rmse2 := s.res2 / s.n
  { r2 := divO' (num * num) (ds * dr), rmse2 := some rmse2, rrmse2 := divO' rmse2 (mr * mr), n := s.n.floor }

/-! ### The "Mean" row

A statistic of a band is `none` where it is undefined (the code holds a nan there).  The code adds the bands' values up with
`+` (`sum_over_bands.get(k, 0) + v`) and divides by the number of compared bands: a nan term makes the sum, and the mean, nan. -/

/-- float addition with nan as `none`: undefined absorbs -/
def addO (a b : Option Rat) : Option Rat :=
  match a, b with
  | some x, some y => some (x + y)
  | _, _ => none

/-- the sum over the bands as `_get_image_stats` forms it, starting from `sum_over_bands.get(k, 0)` = 0 -/
def sumOverBands (vals : List (Option Rat)) : Option Rat := vals.foldl addO (some 0)

/-- the "Mean" entry of one statistic: the sum over the bands divided by the number of bands -/
def meanRow (vals : List (Option Rat)) : Option Rat := (sumOverBands vals).map (· / (vals.length : Rat))

/-! ### ParamStats -/

/-- per-tile accumulator of `stats.py` for one band (valid pixels only) -/
structure PAcc where
  min : Option Rat
  max : Option Rat
  sum : Rat
  sum2 : Rat
  n : Nat
  inpaint : Nat
  deriving Repr, DecidableEq

def PAcc.zero : PAcc := ⟨none, none, 0, 0, 0, 0⟩

def optMin (a b : Option Rat) : Option Rat :=
  match a, b with
  | some x, some y => some (if x ≤ y then x else y)
  | some x, none => some x
  | none, y => y

def optMax (a b : Option Rat) : Option Rat :=
  match a, b with
  | some x, some y => some (if x ≤ y then y else x)
  | some x, none => some x
  | none, y => y

def PAcc.add (a b : PAcc) : PAcc :=
  ⟨optMin a.min b.min, optMax a.max b.max, a.sum + b.sum, a.sum2 + b.sum2, a.n + b.n, a.inpaint + b.inpaint⟩

/-- accumulator of one tile: `vals` are its valid pixel values; `thresh` is the in-paint threshold for R² bands -/
def tileAcc (thresh : Option Rat) (vals : List Rat) : PAcc :=
  vals.foldl (fun a v => a.add ⟨some v, some v, v, v * v, 1,
    match thresh with | some t => if v < t then 1 else 0 | none => 0⟩) PAcc.zero

/-- band statistics from the accumulator: mean, variance (std²), min, max, in-paint percentage -/
structure PStats where
  mean : Option Rat
  var : Option Rat
  min : Option Rat
  max : Option Rat
  inpaintP : Option Rat
  deriving Repr, DecidableEq

def paramStats (a : PAcc) (withInpaint : Bool) : PStats :=
  if a.n = 0 then ⟨none, none, a.min, a.max, none⟩ else
  let n : Rat := a.n
  -- (the code clamps the one-pass variance at 0: in floating point a constant band can come out slightly negative)
  { mean := some (a.sum / n), var := some (max (a.sum2 / n - (a.sum * a.sum) / (n * n)) 0), min := a.min, max := a.max
    inpaintP := if withInpaint then some (100 * (a.inpaint : Rat) / n) else none }

/-- is band `b` (0-based) of a `count`-band parameter image an R² band (`band_i >= count * 2 / 3`)? -/
def isR2Band (count b : Nat) : Bool := decide (count * 2 ≤ 3 * b)

end Homonim
