/-
  Homonim.Model.StatsWindow — the valid-data window pre-pass of `ParamStats` (`_get_data_window`) and the choice of the tiles
  `stats()` reads: per tile of band 1 the bounding window of the *dataset* mask (valid where any band is valid), the union
  (bounding window) of those over the tiles in completion order, then every tile of every band that meets that window.
-/
namespace Homonim

/-- a pixel window: rows `r0 … r0 + h - 1`, columns `c0 … c0 + w - 1` -/
structure Win where
  r0 : Nat
  c0 : Nat
  h : Nat
  w : Nat
  deriving Repr, DecidableEq

def Win.contains (a : Win) (r c : Nat) : Bool :=
  decide (a.r0 ≤ r) && decide (r < a.r0 + a.h) && decide (a.c0 ≤ c) && decide (c < a.c0 + a.w)

/-- `rasterio.windows.union`: the bounding window of both -/
def Win.union (a b : Win) : Win :=
  let r0 := min a.r0 b.r0
  let c0 := min a.c0 b.c0
  ⟨r0, c0, max (a.r0 + a.h) (b.r0 + b.h) - r0, max (a.c0 + a.w) (b.c0 + b.w) - c0⟩

/-- `rasterio.windows.intersect`: the two windows share at least one pixel -/
def Win.intersects (a b : Win) : Bool :=
  decide (a.r0 < b.r0 + b.h) && decide (b.r0 < a.r0 + a.h) && decide (a.c0 < b.c0 + b.w) && decide (b.c0 < a.c0 + a.w)

def minL (l : List Nat) : Nat := l.foldl min (l.headD 0)
def maxL (l : List Nat) : Nat := l.foldl max 0

/-- `get_data_window(mask, nodata=0)` of one tile, moved to the tile's corner: the bounding window of the pixels of the tile
    where `mask` holds; `none` when there are none -/
def blockDataWindow (mask : Nat → Nat → Bool) (blk : Win) : Option Win :=
  let rows := (List.range blk.h).filter fun i => (List.range blk.w).any fun j => mask (blk.r0 + i) (blk.c0 + j)
  let cols := (List.range blk.w).filter fun j => (List.range blk.h).any fun i => mask (blk.r0 + i) (blk.c0 + j)
  if rows.isEmpty || cols.isEmpty then none
  else some ⟨blk.r0 + minL rows, blk.c0 + minL cols, maxL rows - minL rows + 1, maxL cols - minL cols + 1⟩

/-- one step of the accumulation `im_data_win = union(im_data_win, w) if im_data_win else w`, skipping empty tiles -/
def accWindow (acc : Option Win) (w : Option Win) : Option Win :=
  match acc, w with
  | none, x => x
  | some a, none => some a
  | some a, some x => some (a.union x)

/-- `_get_data_window`: over the tiles in the order they complete -/
def dataWindow (mask : Nat → Nat → Bool) (tiles : List Win) : Option Win :=
  tiles.foldl (fun acc t => accWindow acc (blockDataWindow mask t)) none

/-- the dataset mask: valid where any band is valid -/
def anyBand (bands : List (Nat → Nat → Bool)) (r c : Nat) : Bool := bands.any fun b => b r c

/-- the tiles `stats()` reads of a band: those meeting the data window (all of them when nothing is valid anywhere: the report
    then holds the figures of empty bands) -/
def tilesRead (bands : List (Nat → Nat → Bool)) (tiles1 : List Win) (tilesOfBand : List Win) : List Win :=
  match dataWindow (anyBand bands) tiles1 with
  | none => tilesOfBand
  | some w => tilesOfBand.filter fun t => w.intersects t

/-- the steps of `_get_data_window` / `stats()` as the source states them -/
inductive WindowStep
  | datasetMaskOfTile | boundingWindowOfMask | emptyTileIsNone | offsetByTileCorner | unionInCompletionOrder
  | readTilesOfEveryBandMeetingWindow
  deriving Repr, DecidableEq

def windowStepsModel : List WindowStep :=
  [.datasetMaskOfTile, .boundingWindowOfMask, .emptyTileIsNone, .offsetByTileCorner, .unionInCompletionOrder,
   .readTilesOfEveryBandMeetingWindow]

end Homonim
