/-
  Homonim.Model.WindowIO — boundless windowed reads and cropped windowed writes (`RasterArray.from_rio_dataset`,
  `bounded_window_slices`, `slice_to_bounds`, `to_rio_dataset`) along one axis; 2-D is the product of two axes.

  A dataset axis has `n` pixels `0..n-1`; GDAL reads/writes of a window `[lo, hi)` succeed iff `0 ≤ lo ≤ hi ≤ n`
  (measured: zero-size windows succeed, windows leaving the dataset fail).
-/
import Homonim.Model.Geom
namespace Homonim

/-- `bounded_window_slices` along one axis **as originally coded**: (dataset window, array slice).
    For an empty intersection the dataset window has negative size. -/
def boundedCoded (n lo hi : Int) : Win1 × Win1 :=
  let ul := max lo 0
  let br := min hi n
  (⟨ul, br⟩, ⟨ul - lo, ul - lo + (br - ul)⟩)

/-- `bounded_window_slices` along one axis as repaired: corners clipped into the dataset, never negative size -/
def boundedFixed (n lo hi : Int) : Win1 × Win1 :=
  let ul := min (max lo 0) n
  let br := min (max hi ul) n
  (⟨ul, br⟩, ⟨max (ul - lo) 0, max (ul - lo) 0 + (br - ul)⟩)

/-- GDAL accepts a dataset window iff it lies inside the dataset and has non-negative size -/
def dsWindowOk (n : Int) (w : Win1) : Bool := decide (0 ≤ w.lo) && decide (w.lo ≤ w.hi) && decide (w.hi ≤ n)

/-- boundless read along one axis: pixel `i` of the result (`0 ≤ i < hi - lo`), given the bounded window/slice:
    inside the slice it is the dataset pixel at the matching offset of the bounded window, elsewhere nodata -/
def readPixel {α : Type} (img : Int → α) (nodata : α) (b : Win1 × Win1) (i : Int) : α :=
  if b.2.lo ≤ i ∧ i < b.2.hi then img (b.1.lo + (i - b.2.lo)) else nodata

/-- boundless read of `[lo, hi)` from an `n`-pixel axis with the repaired window logic; `none` = the read fails -/
def readWindow {α : Type} (n : Int) (img : Int → α) (nodata : α) (lo hi : Int) : Option (List α) :=
  let b := boundedFixed n lo hi
  if dsWindowOk n b.1 then some ((List.range (hi - lo).toNat).map fun (i : Nat) => readPixel img nodata b (i : Int)) else none

/-- the same with the window logic as originally coded -/
def readWindowCoded {α : Type} (n : Int) (img : Int → α) (nodata : α) (lo hi : Int) : Option (List α) :=
  let b := boundedCoded n lo hi
  if dsWindowOk n b.1 then some ((List.range (hi - lo).toNat).map fun (i : Nat) => readPixel img nodata b (i : Int)) else none

/-- geo-referencing of the result: the window's own axis -/
def windowAxis (P : Axis) (lo hi : Int) : Axis := ⟨P.edge lo, P.p, hi - lo⟩

/-- nodata value carried by the array that was read: the internal NaN (`none`) when the dataset has a mask or no
    nodata value, else the dataset's own nodata value -/
def readNodata (isMasked : Bool) (dsNodata : Option Int) : Option Int := if isMasked then none else dsNodata

/-- `to_rio_dataset` along one axis: a block holding pixels `[b0, b0 + len)` (dataset pixel coordinates, same
    grid) is written through window `[lo, hi)`: the window is cropped to the dataset; an empty cropped window means
    there is nothing to write (the call returns); otherwise the block is sliced to the cropped window (it must contain
    it, else `ValueError`) and the slice is stored.  Result: the cropped window, or `none` (error). -/
def writeTarget (n b0 blen lo hi : Int) : Option Win1 :=
  let w := (boundedFixed n lo hi).1
  if w.len ≤ 0 then some w else
  -- slice_to_bounds accepts when the window's offset inside the block is non-negative and its size is at most the
  -- block's; numpy slicing then clamps to the block, and to_rio_dataset requires the sliced size to equal the window's
  let off := w.lo - b0
  if 0 ≤ off ∧ w.len ≤ blen ∧ min (off + w.len) blen - min off blen = w.len then some w else none

/-- `to_rio_dataset` **before the second repair** (D13): an empty cropped window still had to lie inside the block -/
def writeTargetCoded (n b0 blen lo hi : Int) : Option Win1 :=
  let w := (boundedFixed n lo hi).1
  let off := w.lo - b0
  if 0 ≤ off ∧ w.len ≤ blen ∧ min (off + w.len) blen - min off blen = w.len then some w else none

/-- dataset content after the write -/
def writeWindow {α : Type} (n : Int) (ds : Int → α) (b0 blen : Int) (block : Int → α) (lo hi : Int) :
    Option (Int → α) :=
  match writeTarget n b0 blen lo hi with
  | none => none
  | some w => some fun x => if w.lo ≤ x ∧ x < w.hi then block (x - b0) else ds x

/-- the 2-D write: when the cropped window is empty along either axis nothing is written and the call succeeds
    whatever the other axis looks like; otherwise both axes must pass the containment test -/
def writeWindow2 {α : Type} (nr nc : Int) (ds : Int → Int → α) (br0 brlen bc0 bclen : Int) (block : Int → Int → α)
    (rlo rhi clo chi : Int) : Option (Int → Int → α) :=
  if (boundedFixed nr rlo rhi).1.len ≤ 0 ∨ (boundedFixed nc clo chi).1.len ≤ 0 then some ds else
  match writeTarget nr br0 brlen rlo rhi, writeTarget nc bc0 bclen clo chi with
  | some wr, some wc =>
    some fun r c => if (wr.lo ≤ r ∧ r < wr.hi) ∧ (wc.lo ≤ c ∧ c < wc.hi) then block (r - br0) (c - bc0) else ds r c
  | _, _ => none

/-- the steps of `to_rio_dataset` after its argument checks, as the write model (`writeTarget` / `writeWindow2`) reads them:
    crop the window to the dataset; an empty crop is a no-op; slice the block to the cropped window; the slice must have the
    window's shape; convert to the dataset's type; write the data; write the mask *of the slice* when the dataset has no
    nodata value (once, with band 1) -/
inductive WriteStep
  | cropToDataset | emptyIsNoop | sliceBlockToWindow | shapeMustMatch | convertDtype | writeData
  | writeCroppedMaskIfNoNodataBand1
  deriving Repr, DecidableEq

def writeStepsModel : List WriteStep :=
  [.cropToDataset, .emptyIsNoop, .sliceBlockToWindow, .shapeMustMatch, .convertDtype, .writeData, .writeCroppedMaskIfNoNodataBand1]

end Homonim
