/-
  BandInfo — theorems about `bandInfo`, the model of `MatchedPairReader._get_band_info` (serves C15).
-/
import Homonim.Model.Bands
import Homonim.Lemmas.BandInfo
namespace Homonim
open BandInfo

/-- is 1-based band `b` of the file a candidate (neither an alpha band nor a geedim mask band)? -/
def isCandidate (bands : List BandMeta) (b : Nat) : Prop :=
  1 ≤ b ∧ ∃ m, bands[b - 1]? = some m ∧ m.alpha = false ∧ m.maskDescr = false

theorem mem_cand_iff_isCandidate {bands : List BandMeta} {b : Nat} : b ∈ cand bands ↔ isCandidate bands b := mem_cand

/-- the tagged candidates are the members of `refl` -/
private theorem tagged_iff_mem_refl {bands : List BandMeta} {b : Nat} :
    (isCandidate bands b ∧ ∃ m, bands[b - 1]? = some m ∧ m.wl.isSome) ↔ b ∈ refl bands := by
  rw [mem_refl, mem_cand_iff_isCandidate]

/-- what the `k`-th entry of an accepted result is: a candidate band `b = i + 1` and the final wavelength of band `i` -/
private theorem entry {bands : List BandMeta} {sel : Option (List Nat)} {bs : List Nat} {ws : List (Option Rat)}
    (h : bandInfo bands sel = .ok (bs, ws)) {k : Nat} (hk : k < bs.length) :
    ∃ i, bs.getD k 0 - 1 = i ∧ i + 1 ∈ cand bands ∧ ws.getD k none = (cw1 bands (cand bands)).getD i none := by
  obtain ⟨_, hsub, rfl, _, _⟩ := bandInfo_ok h
  have hb : bs.getD k 0 = bs[k] := by simp [List.getD_eq_getElem?_getD, List.getElem?_eq_getElem hk]
  have hc : bs[k] ∈ cand bands := hsub _ (List.getElem_mem hk)
  have h1 : 1 ≤ bs[k] := (mem_cand.1 hc).1
  refine ⟨bs[k] - 1, by rw [hb], by rw [Nat.sub_add_cancel h1]; exact hc, ?_⟩
  simp [List.getD_eq_getElem?_getD, List.getElem?_map, List.getElem?_eq_getElem hk]

/-- **Only candidate bands are ever selected, and every selected band gets exactly one wavelength entry**: alpha and
    mask bands are never used, indices are in range. -/
theorem bandInfo_selected_are_candidates (bands : List BandMeta) (sel : Option (List Nat)) (bs : List Nat)
    (ws : List (Option Rat)) (h : bandInfo bands sel = .ok (bs, ws)) :
    ws.length = bs.length ∧ bs ≠ [] ∧ ∀ b ∈ bs, isCandidate bands b := by
  obtain ⟨hne, hsub, rfl, _, _⟩ := bandInfo_ok h
  exact ⟨by simp, hne, fun b hb => mem_cand_iff_isCandidate.1 (hsub b hb)⟩

/-- **A user selection is kept as given** (same bands, same order) whenever it is accepted. -/
theorem bandInfo_user_selection_kept (bands : List BandMeta) (s : List Nat) (hs : s ≠ []) (bs : List Nat)
    (ws : List (Option Rat)) (h : bandInfo bands (some s) = .ok (bs, ws)) : bs = s := by
  exact (bandInfo_ok h).2.2.2.1 s rfl hs

/-- **A user selection naming an alpha / mask band or an index outside the file is rejected.** -/
theorem bandInfo_rejects_bad_selection (bands : List BandMeta) (s : List Nat) (b : Nat) (hb : b ∈ s)
    (hbad : ¬ isCandidate bands b) : ∃ e, bandInfo bands (some s) = .error e := by
  exact bandInfo_error_of_not_cand hb (fun hc => hbad (mem_cand_iff_isCandidate.1 hc))

/-- **Without a selection, the bands that carry a wavelength tag are used if there are any, else all candidates**, in
    file order. -/
theorem bandInfo_default_selection (bands : List BandMeta) (bs : List Nat) (ws : List (Option Rat))
    (h : bandInfo bands none = .ok (bs, ws)) :
    bs.Pairwise (· < ·) ∧
    ((∃ b, isCandidate bands b ∧ ∃ m, bands[b - 1]? = some m ∧ m.wl.isSome) →
      ∀ b, b ∈ bs ↔ (isCandidate bands b ∧ ∃ m, bands[b - 1]? = some m ∧ m.wl.isSome)) ∧
    ((¬ ∃ b, isCandidate bands b ∧ ∃ m, bands[b - 1]? = some m ∧ m.wl.isSome) → ∀ b, b ∈ bs ↔ isCandidate bands b) := by
  obtain ⟨_, _, _, _, hd⟩ := bandInfo_ok h
  have hbs := hd rfl
  subst hbs
  refine ⟨dflt_pairwise bands, ?_, ?_⟩
  · rintro ⟨b, hb⟩ b'
    rw [dflt_of_tagged ⟨b, tagged_iff_mem_refl.1 hb⟩]
    exact tagged_iff_mem_refl.symm
  · intro hno b'
    rw [dflt_of_untagged (fun ⟨b, hb⟩ => hno ⟨b, tagged_iff_mem_refl.2 hb⟩)]
    exact mem_cand_iff_isCandidate

/-- **A wavelength tag is never overwritten**: the wavelength reported for a selected band that carries a
    `center_wavelength` tag is that tag - whatever the other bands carry, whatever the colour interpretations, whether or
    not the RGB defaults apply to other bands. -/
theorem bandInfo_tag_kept (bands : List BandMeta) (sel : Option (List Nat)) (bs : List Nat) (ws : List (Option Rat))
    (h : bandInfo bands sel = .ok (bs, ws)) (k : Nat) (hk : k < bs.length) (m : BandMeta) (w : Rat)
    (hm : bands[bs.getD k 0 - 1]? = some m) (hw : m.wl = some w) : ws.getD k none = some w := by
  obtain ⟨i, hi, hc, he⟩ := entry h hk
  rw [hi] at hm
  rw [he]
  exact cw1_tag hm hw hc

/-- **The RGB defaults only fill gaps of three-band images**: a selected band without a wavelength tag is given a wavelength
    only if the file has exactly three candidate bands, and then it is one of the standard R, G, B wavelengths. -/
theorem bandInfo_defaults_only_rgb (bands : List BandMeta) (sel : Option (List Nat)) (bs : List Nat) (ws : List (Option Rat))
    (h : bandInfo bands sel = .ok (bs, ws)) (k : Nat) (hk : k < bs.length) (m : BandMeta)
    (hm : bands[bs.getD k 0 - 1]? = some m) (hw : m.wl = none) (w : Rat) (hws : ws.getD k none = some w) :
    (∃ l : List Nat, l.length = 3 ∧ ∀ b, b ∈ l ↔ isCandidate bands b) ∧ (w = 650 / 1000 ∨ w = 560 / 1000 ∨ w = 480 / 1000) := by
  obtain ⟨i, hi, _, he⟩ := entry h hk
  rw [hi] at hm
  rw [he] at hws
  obtain ⟨h3, hw'⟩ := cw1_untagged hm hw hws
  exact ⟨⟨cand bands, h3, fun b => mem_cand_iff_isCandidate⟩, hw'⟩

/-- **The file-order R, G, B assumption is made only when no candidate band of a three-band image has any wavelength
    information** (tag or red/green/blue colour interpretation): if some candidate band has a tag, a selected untagged band
    whose colour interpretation is not red/green/blue stays without a wavelength. -/
theorem bandInfo_no_assumption_when_partly_tagged (bands : List BandMeta) (sel : Option (List Nat)) (bs : List Nat)
    (ws : List (Option Rat)) (h : bandInfo bands sel = .ok (bs, ws))
    (htag : ∃ b, isCandidate bands b ∧ ∃ m, bands[b - 1]? = some m ∧ m.wl.isSome)
    (k : Nat) (hk : k < bs.length) (m : BandMeta) (hm : bands[bs.getD k 0 - 1]? = some m) (hw : m.wl = none)
    (hci : m.ci = .other) : ws.getD k none = none := by
  obtain ⟨i, hi, _, he⟩ := entry h hk
  rw [hi] at hm
  rw [he]
  obtain ⟨b, hb, m', hm', hw'⟩ := htag
  exact cw1_other hm hw hci ⟨b, mem_cand_iff_isCandidate.2 hb, m', hm', hw'⟩

/-! ### two sharper variants (additions to the seven statements above) -/

/-- `bandInfo_defaults_only_rgb` with "exactly three candidate bands" said without a loophole: the witness list is
    strictly increasing (so duplicate-free), hence the file has exactly three candidate bands.  (In the statement above
    a list like `[1, 1, 2]` would also be a witness for a file with two candidates.) -/
theorem bandInfo_defaults_only_rgb_strict (bands : List BandMeta) (sel : Option (List Nat)) (bs : List Nat)
    (ws : List (Option Rat)) (h : bandInfo bands sel = .ok (bs, ws)) (k : Nat) (hk : k < bs.length) (m : BandMeta)
    (hm : bands[bs.getD k 0 - 1]? = some m) (hw : m.wl = none) (w : Rat) (hws : ws.getD k none = some w) :
    (∃ l : List Nat, l.length = 3 ∧ l.Pairwise (· < ·) ∧ ∀ b, b ∈ l ↔ isCandidate bands b) ∧
      (w = 650 / 1000 ∨ w = 560 / 1000 ∨ w = 480 / 1000) := by
  obtain ⟨i, hi, _, he⟩ := entry h hk
  rw [hi] at hm
  rw [he] at hws
  obtain ⟨h3, hw'⟩ := cw1_untagged hm hw hws
  exact ⟨⟨cand bands, h3, cand_pairwise bands, fun b => mem_cand_iff_isCandidate⟩, hw'⟩

/-- `bandInfo_no_assumption_when_partly_tagged` with the weaker premise of its doc-string: it is enough that some
    candidate band has a tag *or* a red/green/blue colour interpretation. -/
theorem bandInfo_no_assumption_when_partly_informed (bands : List BandMeta) (sel : Option (List Nat)) (bs : List Nat)
    (ws : List (Option Rat)) (h : bandInfo bands sel = .ok (bs, ws))
    (hinfo : ∃ b, isCandidate bands b ∧ ∃ m, bands[b - 1]? = some m ∧ (m.wl.isSome ∨ m.ci ≠ .other))
    (k : Nat) (hk : k < bs.length) (m : BandMeta) (hm : bands[bs.getD k 0 - 1]? = some m) (hw : m.wl = none)
    (hci : m.ci = .other) : ws.getD k none = none := by
  obtain ⟨i, hi, _, he⟩ := entry h hk
  rw [hi] at hm
  rw [he]
  obtain ⟨b, hb, m', hm', hw'⟩ := hinfo
  exact cw1_other' hm hw hci (fun b hb => (mem_cand.1 hb).1) ⟨b, mem_cand_iff_isCandidate.2 hb, m', hm', hw'⟩

/-! non-vacuity -/
example : (bandInfo [⟨false, false, .other, some (65/100)⟩, ⟨false, false, .other, none⟩, ⟨false, false, .other, none⟩] none).toOption
    = some ([1], [some (65/100)]) := by decide +kernel
example : (bandInfo [⟨false, false, .other, none⟩, ⟨false, false, .other, none⟩, ⟨false, false, .other, none⟩] none).toOption
    = some ([1, 2, 3], [some (650/1000), some (560/1000), some (480/1000)]) := by decide +kernel
example : (bandInfo [⟨false, false, .other, some (86/100)⟩, ⟨false, false, .other, none⟩, ⟨false, false, .other, none⟩]
    (some [1, 2, 3])).toOption = some ([1, 2, 3], [some (86/100), none, none]) := by decide +kernel



end Homonim
