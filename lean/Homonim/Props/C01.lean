/-
  C01 — Sliding-kernel regression equals its definition at every pixel.

  `pts = b.winPts kh kw r c` is the list of (source, reference) values over the jointly valid pixels of the
  `kh × kw` window centred on `(r, c)` and clipped to the block.  All statements are for every block shape, pixel
  values, masks, kernel shape and position.
-/
import Homonim.Lemmas.Kernel

namespace Homonim

/-- **The window is kernel-shaped, height × width, centred on the pixel** (odd kernels): `(i, j)` contributes iff it
    lies in the block and `|i - r| ≤ kh/2` (rows) and `|j - c| ≤ kw/2` (columns). -/
theorem window_is_kernel_shaped (kh kw h w r c i j : Nat) (hkh : kh % 2 = 1) (hkw : kw % 2 = 1) :
    (i, j) ∈ winPos kh kw h w r c ↔
      i < h ∧ j < w ∧ (r ≤ i + kh / 2 ∧ i ≤ r + kh / 2) ∧ (c ≤ j + kw / 2 ∧ j ≤ c + kw / 2) :=
  mem_winPos_odd kh kw h w r c i j hkh hkw

/-- **Kernel sums are window sums over the jointly valid pixels**: the six zero-filled box sums the code computes
    equal the plain sums over `pts` - values under invalid pixels do not enter. -/
theorem sums_are_window_sums (b : Block) (kh kw r c : Nat) :
    b.sums kh kw r c = ptsSums (b.winPts kh kw r c) := sums_eq_ptsSums b kh kw r c

/-- **Pixels that are not jointly valid receive no parameters**, whatever lies under them. -/
theorem no_params_off_mask (b : Block) (model : Model) (kh kw : Nat) (fr : Bool) (th : Option ℚ) (n0 n1 : ℚ)
    (oF : Nat → Nat → Option ℚ) (r c : Nat) (h : b.m r c = false) :
    fitAt b model kh kw fr th n0 n1 oF r c = none := by
  unfold fitAt; simp [h]

/-- **Gain model = ratio of sums** over the window's jointly valid pixels, offset 0. -/
theorem gain_def (b : Block) (kh kw : Nat) (fr : Bool) (th : Option ℚ) (n0 n1 : ℚ) (oF : Nat → Nat → Option ℚ)
    (r c : Nat) (hm : b.m r c = true) (hS : sS (b.winPts kh kw r c) ≠ 0) :
    ∃ q, fitAt b .gain kh kw fr th n0 n1 oF r c =
      some ⟨sR (b.winPts kh kw r c) / sS (b.winPts kh kw r c), 0, q⟩ := by
  unfold fitAt
  simp only [hm, if_true]
  rw [sums_eq_ptsSums]
  unfold fitGainS divO ptsSums
  simp only [hS, if_false, Option.map_some]
  exact ⟨_, rfl⟩

/-- the code's OLS gain and offset from the sums -/
def olsG (p : Pts) : ℚ := (sN p * sSR p - sS p * sR p) / (sN p * sSS p - sS p * sS p)
def olsO (p : Pts) : ℚ := (sR p - olsG p * sS p) / sN p

/-- **Gain-offset model = the closed-form OLS solution** (no in-painting), for non-degenerate windows. -/
theorem gain_offset_def (b : Block) (kh kw : Nat) (fr : Bool) (n0 n1 : ℚ) (oF : Nat → Nat → Option ℚ)
    (r c : Nat) (hm : b.m r c = true) (hN : sN (b.winPts kh kw r c) ≠ 0)
    (hD : sN (b.winPts kh kw r c) * sSS (b.winPts kh kw r c) - sS (b.winPts kh kw r c) * sS (b.winPts kh kw r c) ≠ 0) :
    ∃ q, fitAt b .gainOffset kh kw fr none n0 n1 oF r c =
      some ⟨olsG (b.winPts kh kw r c), olsO (b.winPts kh kw r c), q⟩ := by
  unfold fitAt
  simp only [hm, if_true]
  rw [sums_eq_ptsSums]
  unfold fitGainOffsetS ols olsGain olsOffset divO ptsSums
  simp only [hD, hN, if_false, Option.bind_some, Option.map_some]
  exact ⟨_, rfl⟩

/-- **Normal equations**: the coded gain/offset make the residuals sum to zero and be orthogonal to the source. -/
theorem gain_offset_normal_eqs (p : Pts) (hN : sN p ≠ 0) (hD : sN p * sSS p - sS p * sS p ≠ 0) :
    sR p - olsG p * sS p - sN p * olsO p = 0 ∧ sSR p - olsG p * sSS p - olsO p * sS p = 0 := by
  have hD' : sN p * sSS p - sS p ^ 2 ≠ 0 := by rwa [pow_two]
  constructor
  · unfold olsO; field_simp; ring
  · unfold olsO olsG; rw [← pow_two]; field_simp; ring

/-- **Ordinary least squares**: no other line has a smaller residual sum of squares over the window. -/
theorem gain_offset_minimises_rss (p : Pts) (hN : sN p ≠ 0) (hD : sN p * sSS p - sS p * sS p ≠ 0) (g' o' : ℚ) :
    rss p (olsG p) (olsO p) ≤ rss p g' o' := by
  have h := rss_diff p (olsG p) (olsO p) g' o'
  obtain ⟨e1, e2⟩ := gain_offset_normal_eqs p hN hD
  rw [e2, e1] at h
  have := sum_sq_nonneg p (g' - olsG p) (o' - olsO p)
  linarith

/-- **R² of the two-parameter model = 1 - RSS/TSS of that same window** (the code's expansion in the six sums). -/
theorem r2_gain_offset_def (p : Pts) (g o : ℚ) (hN : sN p ≠ 0) (hT : tss p ≠ 0) :
    r2GainOffset (ptsSums p) g o = some (1 - rss p g o / tss p) := by
  have hden : sN p * sRR p - sR p * sR p ≠ 0 := by
    have := tss_expand p hN
    intro h0
    have : sN p * tss p = 0 := by rw [this]; linarith [h0]
    rcases mul_eq_zero.mp this with h | h
    · exact hN h
    · exact hT h
  unfold r2GainOffset divO ptsSums
  simp only [hden, if_false, Option.map_some, Option.some.injEq]
  have e := tss_expand p hN
  have r := rss_expand p g o
  have hden' : sN p * sRR p - sR p * sR p = sN p * tss p := by rw [e]; ring
  rw [hden', r]
  field_simp
  try ring

/-- **R² of the one-parameter models = 1 - RSS/TSS** with the line `g·x` (offset 0). -/
theorem r2_gain_def (p : Pts) (g : ℚ) (hN : sN p ≠ 0) (hT : tss p ≠ 0) :
    r2Gain (ptsSums p) g = some (1 - rss p g 0 / tss p) := by
  have hden : sN p * sRR p - sR p * sR p ≠ 0 := by
    have := tss_expand p hN
    intro h0
    have : sN p * tss p = 0 := by rw [this]; linarith [h0]
    rcases mul_eq_zero.mp this with h | h
    · exact hN h
    · exact hT h
  unfold r2Gain divO ptsSums
  simp only [hden, if_false, Option.map_some, Option.some.injEq]
  have e := tss_expand p hN
  have r := rss_expand p g 0
  have hden' : sN p * sRR p - sR p * sR p = sN p * tss p := by rw [e]; ring
  rw [hden', r]
  field_simp
  try ring

/-- the normalised block has the same joint mask and its window points are the normalised window points -/
theorem winPts_normalised (b : Block) (n0 n1 : ℚ) (kh kw r c : Nat) :
    (b.normalised n0 n1).winPts kh kw r c = (b.winPts kh kw r c).map fun x => (x.1 * n0 + n1, x.2) := by
  unfold Block.winPts Block.normalised Block.m
  simp [List.map_map, Function.comp_def]

theorem sums_normalised (p : Pts) (n0 n1 : ℚ) :
    sS (p.map fun x => (x.1 * n0 + n1, x.2)) = n0 * sS p + n1 * sN p ∧
    sR (p.map fun x => (x.1 * n0 + n1, x.2)) = sR p ∧ sN (p.map fun x => (x.1 * n0 + n1, x.2)) = sN p := by
  induction p with
  | nil => simp [sS, sR, sN]
  | cons x xs ih =>
    obtain ⟨h1, h2, h3⟩ := ih
    simp only [sS, sR, sN, List.map_cons, List.sum_cons, List.map_map] at *
    refine ⟨?_, ?_, ?_⟩
    · rw [h1]; ring
    · rw [h2]
    · rw [h3]

/-- **Gain-blk-offset = block-normalised ratio of sums**: parameters are `(n0·R/S', n1·R/S')` with
    `S' = Σ (n0·src + n1)` over the window's jointly valid pixels. -/
theorem blk_offset_def (b : Block) (kh kw : Nat) (fr : Bool) (th : Option ℚ) (n0 n1 : ℚ)
    (oF : Nat → Nat → Option ℚ) (r c : Nat) (hm : b.m r c = true)
    (hS : n0 * sS (b.winPts kh kw r c) + n1 * sN (b.winPts kh kw r c) ≠ 0) :
    ∃ q, fitAt b .gainBlkOffset kh kw fr th n0 n1 oF r c =
      some ⟨sR (b.winPts kh kw r c) / (n0 * sS (b.winPts kh kw r c) + n1 * sN (b.winPts kh kw r c)) * n0,
            sR (b.winPts kh kw r c) / (n0 * sS (b.winPts kh kw r c) + n1 * sN (b.winPts kh kw r c)) * n1, q⟩ := by
  unfold fitAt
  simp only [hm, if_true]
  rw [sums_eq_ptsSums, winPts_normalised]
  obtain ⟨e1, e2, e3⟩ := sums_normalised (b.winPts kh kw r c) n0 n1
  unfold fitGainBlkOffsetS fitGainS divO ptsSums
  simp only [e1, e2, hS, if_false, Option.map_some]
  exact ⟨_, rfl⟩

/-- **The fitted line maps the window's mean source value to its mean reference value** - for every model, with or
    without R², with or without in-painting (also at pixels whose offset was in-painted, whatever the in-painted
    offset is), for every block normalisation. -/
theorem line_through_means (b : Block) (model : Model) (kh kw : Nat) (fr : Bool) (th : Option ℚ) (n0 n1 : ℚ)
    (oF : Nat → Nat → Option ℚ) (r c : Nat) (p : Params)
    (hfit : fitAt b model kh kw fr th n0 n1 oF r c = some p) (hN : sN (b.winPts kh kw r c) ≠ 0) :
    p.gain * (sS (b.winPts kh kw r c) / sN (b.winPts kh kw r c)) + p.offset =
      sR (b.winPts kh kw r c) / sN (b.winPts kh kw r c) := by
  unfold fitAt at hfit
  split at hfit
  · cases model with
    | gain =>
      simp only at hfit
      rw [sums_eq_ptsSums] at hfit
      obtain ⟨hS, hg, ho⟩ := fitGainS_some _ _ _ hfit
      simp only [ptsSums] at hS hg
      rw [hg, ho]
      field_simp
      try ring
    | gainBlkOffset =>
      simp only at hfit
      rw [sums_eq_ptsSums, winPts_normalised] at hfit
      obtain ⟨e1, e2, e3⟩ := sums_normalised (b.winPts kh kw r c) n0 n1
      unfold fitGainBlkOffsetS at hfit
      cases hq : fitGainS (ptsSums ((b.winPts kh kw r c).map fun x => (x.1 * n0 + n1, x.2))) fr with
      | none => simp [hq] at hfit
      | some q =>
        simp only [hq, Option.map_some, Option.some.injEq] at hfit
        obtain ⟨hS, hg, _⟩ := fitGainS_some _ _ _ hq
        simp only [ptsSums, e1, e2] at hS hg
        subst hfit
        simp only
        rw [hg]
        field_simp
        try ring
    | gainOffset =>
      simp only at hfit
      rw [sums_eq_ptsSums] at hfit
      rcases fitGainOffsetS_some _ _ _ _ _ hfit with ⟨_, ho⟩ | ⟨hS, hg⟩
      · simp only [ptsSums] at ho
        rw [ho]; field_simp; ring
      · simp only [ptsSums] at hS hg
        rw [hg]; field_simp; ring
  · cases hfit

/-- **Constant reference block** (gain-blk-offset): when the reference is constant `c ≠ 0` over the block, the block normalisation
    is `(n0, n1) = (std ref / std src, p1(ref) - p1(src)·n0) = (0, c)`; the normalised source is `c` everywhere, so a window with
    `N ≠ 0` jointly valid pixels has sums `S = R = N·c`, and the fitted parameters are gain `0`, offset `c` - a line that maps
    every source value, in particular the window's mean, to the (mean) reference value `c`.  No division by the block gain occurs. -/
theorem blk_offset_constant_reference (s : Sums) (c : ℚ) (hc : c ≠ 0) (hN : s.N ≠ 0) (hS : s.S = s.N * c) (hR : s.R = s.N * c)
    (findR2 : Bool) :
    ∃ p, fitGainBlkOffsetS s findR2 0 c = some p ∧ p.gain = 0 ∧ p.offset = c ∧ ∀ x : ℚ, applyParams p x = c := by
  have hne : s.N * c ≠ 0 := mul_ne_zero hN hc
  unfold fitGainBlkOffsetS fitGainS divO
  rw [hS, hR]
  simp only [hne, if_false, Option.map_some]
  refine ⟨_, rfl, by simp, by simp [div_self hne], fun x => ?_⟩
  simp [applyParams, div_self hne]

/-- **Kernel shape validation**: accepted iff both dimensions are odd and at least one, and the area is at least two
    for the gain-offset model. -/
theorem validate_kernel_shape_spec (kh kw : Int) (model : Model) :
    validKernelShape kh kw model = true ↔
      kh % 2 = 1 ∧ kw % 2 = 1 ∧ 1 ≤ kh ∧ 1 ≤ kw ∧ (model = .gainOffset → 2 ≤ kh * kw) := by
  unfold validKernelShape
  cases model <;> simp [and_assoc]

/-! ### Non-vacuity: a concrete 2 × 3 block with a hole, kernel 1 × 3 -/

def exBlock : Block :=
  { h := 2, w := 3
    src := fun r c => (r * 3 + c + 1 : Nat)
    ref := fun r c => (2 * (r * 3 + c) + 3 : Nat)
    sm := fun r c => !(r == 1 && c == 1)
    rm := fun _ _ => true }

example : exBlock.m 0 1 = true ∧ sS (exBlock.winPts 1 3 0 1) ≠ 0 ∧ sN (exBlock.winPts 1 3 0 1) ≠ 0 := by
  decide +kernel

example : fitAt exBlock .gainOffset 1 3 true none 1 0 (fun _ _ => none) 0 1 = some ⟨2, 1, some 1⟩ := by decide +kernel

example : exBlock.winPts 1 3 1 0 = [(4, 9)] := by decide +kernel   -- the hole at (1,1) is not in the window of (1,0)

end Homonim
