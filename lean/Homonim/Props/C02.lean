/-
  C02 — End-to-end: an exact linear source-reference relation is recovered in place.

  The chain is: (source seen on the processing grid) → fit → up-sample the parameters → apply at the source pixel.
  If `ref = a·x + b` on the jointly valid pixels of a window, the fit returns exactly `(a, b)` (for every model able to
  express it), a normalised resampler maps constant parameters to the same constants, and applying them to the source
  pixel gives `a·src + b` at that pixel's own location.
-/
import Homonim.Props.C01
import Homonim.Model.Resample

namespace Homonim

/-- the points lie on the line `ref = a·src + b` -/
def OnLine (a b : ℚ) (p : Pts) : Prop := ∀ x ∈ p, x.2 = a * x.1 + b

theorem sums_of_line (a b : ℚ) (p : Pts) (h : OnLine a b p) :
    sR p = a * sS p + b * sN p ∧ sSR p = a * sSS p + b * sS p ∧
      sRR p = a ^ 2 * sSS p + 2 * a * b * sS p + b ^ 2 * sN p := by
  induction p with
  | nil => simp [sR, sS, sN, sSR, sSS, sRR]
  | cons x xs ih =>
    have hx : x.2 = a * x.1 + b := h x (List.mem_cons_self)
    obtain ⟨i1, i2, i3⟩ := ih (fun y hy => h y (List.mem_cons_of_mem _ hy))
    simp only [sR, sS, sN, sSR, sSS, sRR, List.map_cons, List.sum_cons] at *
    refine ⟨?_, ?_, ?_⟩
    · rw [i1, hx]; ring
    · rw [i2, hx]; ring
    · rw [i3, hx]; ring

/-- **Gain-offset recovers the line**: OLS over a non-degenerate window on the line returns exactly `(a, b)` -/
theorem fit_recovers_line_gain_offset (a b : ℚ) (p : Pts) (h : OnLine a b p) (hN : sN p ≠ 0)
    (hD : sN p * sSS p - sS p * sS p ≠ 0) : olsG p = a ∧ olsO p = b := by
  obtain ⟨e1, e2, _⟩ := sums_of_line a b p h
  have hg : olsG p = a := by
    unfold olsG
    rw [e1, e2]
    have : sN p * (a * sSS p + b * sS p) - sS p * (a * sS p + b * sN p) = a * (sN p * sSS p - sS p * sS p) := by ring
    rw [this]
    exact mul_div_cancel_right₀ a hD
  refine ⟨hg, ?_⟩
  unfold olsO
  rw [hg, e1]
  field_simp
  ring

/-- **Gain recovers a proportional relation** (`b = 0`): the ratio of sums is exactly `a` -/
theorem fit_recovers_line_gain (a : ℚ) (p : Pts) (h : OnLine a 0 p) (hS : sS p ≠ 0) : sR p / sS p = a := by
  obtain ⟨e1, _, _⟩ := sums_of_line a 0 p h
  rw [e1]; field_simp; ring

/-- **Gain-blk-offset recovers the line** when the block normalisation is `(a, b)` (which it is when std and the
    first percentile behave as for numpy: std(a x + b) = a std x, pct(a x + b) = a pct x + b, a > 0): the normalised
    source equals the reference, the kernel gain is 1, and the parameters are exactly `(a, b)`. -/
theorem fit_recovers_line_blk (a b : ℚ) (p : Pts) (h : OnLine a b p) (hR : sR p ≠ 0) :
    sR p / (a * sS p + b * sN p) * a = a ∧ sR p / (a * sS p + b * sN p) * b = b := by
  obtain ⟨e1, _, _⟩ := sums_of_line a b p h
  rw [← e1]
  constructor <;> field_simp

/-- the residuals of the true line vanish, hence **R² = 1** wherever it is defined -/
theorem rss_zero_of_line (a b : ℚ) (p : Pts) (h : OnLine a b p) : rss p a b = 0 := by
  unfold rss
  have : (p.map fun x => (x.2 - (a * x.1 + b)) ^ 2) = p.map fun _ => (0 : ℚ) := by
    apply List.map_congr_left
    intro x hx
    rw [h x hx]; ring
  rw [this]
  simp

theorem r2_one_of_line (a b : ℚ) (p : Pts) (h : OnLine a b p) (hN : sN p ≠ 0) (hT : tss p ≠ 0) :
    r2GainOffset (ptsSums p) a b = some 1 := by
  rw [r2_gain_offset_def p a b hN hT, rss_zero_of_line a b p h]
  simp

/-- **The fitted block**: at a jointly valid pixel whose window lies on the line and is non-degenerate, `fitAt` for
    the gain-offset model (no in-painting) returns gain `a`, offset `b`. -/
theorem fitAt_recovers_line (blk : Block) (a b : ℚ) (kh kw : Nat) (fr : Bool) (n0 n1 : ℚ)
    (oF : Nat → Nat → Option ℚ) (r c : Nat) (hm : blk.m r c = true)
    (h : OnLine a b (blk.winPts kh kw r c)) (hN : sN (blk.winPts kh kw r c) ≠ 0)
    (hD : sN (blk.winPts kh kw r c) * sSS (blk.winPts kh kw r c) -
      sS (blk.winPts kh kw r c) * sS (blk.winPts kh kw r c) ≠ 0) :
    ∃ q, fitAt blk .gainOffset kh kw fr none n0 n1 oF r c = some ⟨a, b, q⟩ := by
  obtain ⟨q, hq⟩ := gain_offset_def blk kh kw fr n0 n1 oF r c hm hN hD
  obtain ⟨hg, ho⟩ := fit_recovers_line_gain_offset a b _ h hN hD
  exact ⟨q, by rw [hq, hg, ho]⟩

/-- **Normalised resampling keeps constants**: if every valid pixel of the support carries the value `k` and the
    weights do not cancel, the resampled value is `k`. -/
theorem resample_const (k : ℚ) (l : List (ℚ × ℚ)) (hk : ∀ p ∈ l, p.2 = k) (hw : (l.map fun p => p.1).sum ≠ 0) :
    wmean l = some k := by
  unfold wmean divO
  simp only [hw, if_false, Option.some.injEq]
  have : (l.map fun p => p.1 * p.2) = (l.map fun p => p.1).map fun w => w * k := by
    simp only [List.map_map, Function.comp_def]
    apply List.map_congr_left
    intro p hp; rw [hk p hp]
  rw [this]
  have hs : ∀ m : List ℚ, (m.map fun w => w * k).sum = m.sum * k := by
    intro m; induction m with
    | nil => simp
    | cons y ys ih => simp only [List.map_cons, List.sum_cons, ih]; ring
  rw [hs]
  field_simp

/-- resampling commutes with an affine map of the values (the relation `ref = a·x + b` is stated for `x` = the
    source as seen on the processing grid, and survives any further normalised resampling) -/
theorem resample_affine (a b : ℚ) (l : List (ℚ × ℚ)) (hw : (l.map fun p => p.1).sum ≠ 0) :
    wmean (l.map fun p => (p.1, a * p.2 + b)) = (wmean l).map fun v => a * v + b := by
  unfold wmean divO
  have h2 : ((l.map fun p => (p.1, a * p.2 + b)).map fun p => p.1) = l.map fun p => p.1 := by
    simp [List.map_map, Function.comp_def]
  have h1 : ((l.map fun p => (p.1, a * p.2 + b)).map fun p => p.1 * p.2).sum =
      a * (l.map fun p => p.1 * p.2).sum + b * (l.map fun p => p.1).sum := by
    induction l with
    | nil => simp
    | cons x xs ih =>
      by_cases hx : (xs.map fun p => p.1).sum ≠ 0
      · simp only [List.map_cons, List.sum_cons] at ih ⊢
        have := ih hx (by simp [List.map_map, Function.comp_def])
        rw [this]; ring
      · -- the induction hypothesis is not needed in closed form: prove directly
        simp only [List.map_cons, List.sum_cons, List.map_map, Function.comp_def]
        have gen : ∀ ys : List (ℚ × ℚ), (ys.map fun p => p.1 * (a * p.2 + b)).sum =
            a * (ys.map fun p => p.1 * p.2).sum + b * (ys.map fun p => p.1).sum := by
          intro ys; induction ys with
          | nil => simp
          | cons y ys ih2 => simp only [List.map_cons, List.sum_cons, ih2]; ring
        rw [gen xs]; ring
  rw [h2, h1]
  simp only [hw, if_false, Option.map_some, Option.some.injEq]
  field_simp

/-- **Up-sampled parameters are recovered**: if every processing pixel in the support of a source pixel carries
    `(a, b)`, the parameters at the source pixel are `(a, b)`. -/
theorem upsample_recovers (a b : ℚ) (l : List (ℚ × Params)) (h : ∀ p ∈ l, p.2.gain = a ∧ p.2.offset = b)
    (hw : (l.map fun p => p.1).sum ≠ 0) : upsampleParams l = some (a, b) := by
  unfold upsampleParams
  have hg : wmean (l.map fun p => (p.1, p.2.gain)) = some a := by
    apply resample_const
    · intro q hq
      simp only [List.mem_map] at hq
      obtain ⟨p, hp, rfl⟩ := hq
      exact (h p hp).1
    · simpa [List.map_map, Function.comp_def] using hw
  have ho : wmean (l.map fun p => (p.1, p.2.offset)) = some b := by
    apply resample_const
    · intro q hq
      simp only [List.mem_map] at hq
      obtain ⟨p, hp, rfl⟩ := hq
      exact (h p hp).2
    · simpa [List.map_map, Function.comp_def] using hw
  rw [hg, ho]

/-- **The corrected pixel**: with recovered parameters in its support, the corrected value at a source pixel is
    `a·src + b` for that very pixel's source value - at its own location, whatever the geometry. -/
theorem corrected_recovers_line (a b : ℚ) (l : List (ℚ × Params)) (h : ∀ p ∈ l, p.2.gain = a ∧ p.2.offset = b)
    (hw : (l.map fun p => p.1).sum ≠ 0) (x : ℚ) :
    (upsampleParams l).map (fun go => go.1 * x + go.2) = some (a * x + b) := by
  rw [upsample_recovers a b l h hw]; rfl

/-! non-vacuity -/
example : OnLine 2 1 [(1, 3), (2, 5), (4, 9)] ∧ sN [((1:ℚ), (3:ℚ)), (2, 5), (4, 9)] ≠ 0 := by
  constructor
  · intro x hx; simp at hx; rcases hx with rfl | rfl | rfl <;> norm_num
  · decide +kernel

end Homonim
