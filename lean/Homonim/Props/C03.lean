/-
  C03 — Valid-data mask fidelity: no invented pixels, no lost pixels.
-/
import Homonim.Model.Fuse
import Homonim.Props.C01

namespace Homonim

/-- **No invented pixels** (reference-grid processing): a corrected pixel is valid only if the source pixel is -
    unconditionally: any data, any parameters, any resampling weights. -/
theorem corrected_valid_imp_src_valid (s : Option ℚ) (c : Bool) (l : List (ℚ × Params)) (v : ℚ)
    (h : correctedPx s c l = some v) : s.isSome = true := by
  unfold correctedPx at h
  cases s with
  | none => cases h
  | some x => rfl

/-- **No invented pixels** (source-grid processing) -/
theorem corrected_valid_imp_src_valid_srcGrid (s : Option ℚ) (p : Option Params) (v : ℚ)
    (h : correctedPxSrcGrid s p = some v) : s.isSome = true := by
  unfold correctedPxSrcGrid at h
  cases s with
  | none => cases p <;> cases h
  | some x => rfl

theorem sum_pos_of_pos (l : List ℚ) (hne : l ≠ []) (h : ∀ x ∈ l, 0 < x) : 0 < l.sum := by
  induction l with
  | nil => exact absurd rfl hne
  | cons x xs ih =>
    simp only [List.sum_cons]
    by_cases hx : xs = []
    · subst hx; simpa using h x (List.mem_cons_self)
    · have := ih hx (fun y hy => h y (List.mem_cons_of_mem _ hy))
      have := h x (List.mem_cons_self)
      linarith

theorem sum_nonneg_of_nonneg (l : List ℚ) (h : ∀ x ∈ l, 0 ≤ x) : 0 ≤ l.sum := by
  induction l with
  | nil => simp
  | cons x xs ih =>
    simp only [List.sum_cons]
    have := ih (fun y hy => h y (List.mem_cons_of_mem _ hy))
    have := h x (List.mem_cons_self)
    linarith

/-- **R1, validity of the averaged source**: a normalised mean over a non-empty support with positive weights exists -/
theorem wmean_isSome_of_pos (l : List (ℚ × ℚ)) (hne : l ≠ []) (hw : ∀ p ∈ l, 0 < p.1) : (wmean l).isSome = true := by
  unfold wmean divO
  have : 0 < (l.map fun p => p.1).sum := by
    apply sum_pos_of_pos
    · simpa using hne
    · intro x hx; simp only [List.mem_map] at hx; obtain ⟨p, hp, rfl⟩ := hx; exact hw p hp
  simp [ne_of_gt this]

/-- ... and is positive when the data are positive (so kernel sums of the down-sampled source are positive) -/
theorem wmean_pos (l : List (ℚ × ℚ)) (hne : l ≠ []) (hw : ∀ p ∈ l, 0 < p.1) (hv : ∀ p ∈ l, 0 < p.2) (v : ℚ)
    (h : wmean l = some v) : 0 < v := by
  unfold wmean divO at h
  have hden : 0 < (l.map fun p => p.1).sum := by
    apply sum_pos_of_pos
    · simpa using hne
    · intro x hx; simp only [List.mem_map] at hx; obtain ⟨p, hp, rfl⟩ := hx; exact hw p hp
  have hnum : 0 < (l.map fun p => p.1 * p.2).sum := by
    apply sum_pos_of_pos
    · simpa using hne
    · intro x hx; simp only [List.mem_map] at hx; obtain ⟨p, hp, rfl⟩ := hx; exact mul_pos (hw p hp) (hv p hp)
  simp only [ne_of_gt hden, if_false, Option.some.injEq] at h
  rw [← h]; exact div_pos hnum hden

/-- **Parameters exist on positive data** (gain model): at a jointly valid pixel whose window holds at least one
    jointly valid pixel with positive source values, the kernel source sum is positive and the fit succeeds. -/
theorem gain_exists_of_pos (b : Block) (kh kw : Nat) (fr : Bool) (th : Option ℚ) (n0 n1 : ℚ)
    (oF : Nat → Nat → Option ℚ) (r c : Nat) (hm : b.m r c = true) (hne : b.winPts kh kw r c ≠ [])
    (hpos : ∀ x ∈ b.winPts kh kw r c, 0 < x.1) :
    (fitAt b .gain kh kw fr th n0 n1 oF r c).isSome = true := by
  have hS : 0 < sS (b.winPts kh kw r c) := by
    unfold sS
    apply sum_pos_of_pos
    · simpa using hne
    · intro x hx; simp only [List.mem_map] at hx; obtain ⟨p, hp, rfl⟩ := hx; exact hpos p hp
  obtain ⟨q, hq⟩ := gain_def b kh kw fr th n0 n1 oF r c hm (ne_of_gt hS)
  rw [hq]; rfl

/-- the pixel itself is in its own window (so `winPts ≠ []` at every jointly valid pixel of the block) -/
theorem self_mem_winPos (kh kw h w r c : Nat) (hr : r < h) (hc : c < w) (hkh : 1 ≤ kh) (hkw : 1 ≤ kw) :
    (r, c) ∈ winPos kh kw h w r c := by
  rw [mem_winPos]
  refine ⟨⟨hr, by omega, by omega⟩, ⟨hc, by omega, by omega⟩⟩

theorem winPts_ne_nil (b : Block) (kh kw r c : Nat) (hr : r < b.h) (hc : c < b.w) (hkh : 1 ≤ kh) (hkw : 1 ≤ kw)
    (hm : b.m r c = true) : b.winPts kh kw r c ≠ [] := by
  unfold Block.winPts
  intro h
  have hmem : (r, c) ∈ (winPos kh kw b.h b.w r c).filter fun p => b.m p.1 p.2 := by
    rw [List.mem_filter]; exact ⟨self_mem_winPos kh kw b.h b.w r c hr hc hkh hkw, hm⟩
  have := List.map_eq_nil_iff.mp h
  rw [this] at hmem
  cases hmem

/-- **Non-negative up-sampling keeps validity**: with non-negative kernel weights that do not all vanish, the
    up-sampled parameters exist -/
theorem upsample_isSome_of_nonneg (l : List (ℚ × Params)) (hw : ∀ p ∈ l, 0 ≤ p.1)
    (hpos : ∃ p ∈ l, 0 < p.1) : (upsampleParams l).isSome = true := by
  have hsum : 0 < (l.map fun p => p.1).sum := by
    obtain ⟨p, hp, hpp⟩ := hpos
    induction l with
    | nil => cases hp
    | cons x xs ih =>
      simp only [List.map_cons, List.sum_cons]
      rcases List.mem_cons.mp hp with rfl | hmem
      · have := sum_nonneg_of_nonneg (xs.map fun p => p.1) (by
          intro y hy; simp only [List.mem_map] at hy; obtain ⟨q, hq, rfl⟩ := hy
          exact hw q (List.mem_cons_of_mem _ hq))
        linarith
      · have := ih (fun q hq => hw q (List.mem_cons_of_mem _ hq)) hmem
        have := hw x (List.mem_cons_self)
        linarith
  unfold upsampleParams wmean divO
  simp only [List.map_map, Function.comp_def]
  simp [ne_of_gt hsum]

/-- **No lost pixels**: a valid source pixel whose centre falls in a processing pixel that carries parameters, with a
    non-negative up-sampling kernel, is valid in the corrected image. -/
theorem src_valid_imp_corrected_valid (x : ℚ) (l : List (ℚ × Params)) (hw : ∀ p ∈ l, 0 ≤ p.1)
    (hpos : ∃ p ∈ l, 0 < p.1) : (correctedPx (some x) true l).isSome = true := by
  unfold correctedPx
  simp only [if_true, Option.isSome_map]
  exact upsample_isSome_of_nonneg l hw hpos

/-- **No lost pixels** (source-grid processing) -/
theorem src_valid_imp_corrected_valid_srcGrid (x : ℚ) (p : Params) :
    (correctedPxSrcGrid (some x) (some p)).isSome = true := rfl

/-- **The converse fails for the two-parameter model without in-painting** (finding D17): a kernel window that holds a
    single jointly valid pixel has no least-squares solution - `N·ΣS² − (ΣS)² = 0` - whatever its values, so that pixel
    carries no parameters and is lost.  (With the gain model the same window gives the gain `y / x`: `gain_exists_of_pos`.) -/
theorem gain_offset_single_point_no_fit (x y : ℚ) (fr : Bool) (oF : Option ℚ) :
    fitGainOffsetS ⟨1, x, y, x * x, y * y, x * y⟩ fr none oF = none := by
  unfold fitGainOffsetS ols olsGain divO
  simp

/-- **When the gain model has a solution** (findings D33, D51): exactly when the window's source sum is not zero.  A window of valid
    zero-valued source pixels (or mixed-sign data summing to zero) has none, whatever the reference holds - the pixel carries no
    parameters and is lost; so does every window of a block whose normalised source sums to zero. -/
theorem gain_fit_exists_iff (s : Sums) (fr : Bool) : (fitGainS s fr).isSome = true ↔ s.S ≠ 0 := by
  unfold fitGainS divO
  by_cases h : s.S = 0 <;> simp [h]

/-- **A constant source window has no least-squares solution** (findings D34, D36, D66; D17 is the case `N = 1`): if every
    jointly valid source value of the window equals `c`, then `N·ΣS² − (ΣS)² = N·(N c²) − (N c)² = 0` and the two-parameter model
    without in-painting gives no parameters, whatever the reference holds and however large the window is. -/
theorem gain_offset_constant_source_no_fit (n c r rr sr : ℚ) (fr : Bool) (oF : Option ℚ) :
    fitGainOffsetS ⟨n, n * c, r, n * (c * c), rr, sr⟩ fr none oF = none := by
  unfold fitGainOffsetS ols olsGain divO
  have : n * (n * (c * c)) - n * c * (n * c) = 0 := by ring
  simp [this]

/-- … and with in-painting on, such a window is always handed to the in-painter (its R² does not exist), so whether the pixel
    survives is decided by what `fillnodata` finds around it (finding D34: nothing beyond its search distance; D25: nothing in the
    block) -/
theorem gain_offset_constant_source_inpainted (n c r rr sr t : ℚ) (fr : Bool) (oF : Option ℚ) :
    fitGainOffsetS ⟨n, n * c, r, n * (c * c), rr, sr⟩ fr (some t) oF = inpainted ⟨n, n * c, r, n * (c * c), rr, sr⟩ oF none := by
  unfold fitGainOffsetS ols olsGain divO
  have : n * (n * (c * c)) - n * c * (n * c) = 0 := by ring
  simp [this]

/-- **A block whose jointly valid source values are all equal has variance 0** (findings D51, D68): the block normalisation of
    the default model, `std(ref) / std(src)`, then divides by zero - every parameter of the block is inf / NaN, the whole block
    comes out as nodata, and whether a saturated area loses its pixels depends on whether a block fits inside it. -/
theorem variance_of_constant (xs : List ℚ) (c : ℚ) (h : ∀ x ∈ xs, x = c) (hne : xs ≠ []) : variance xs = 0 := by
  have hsum : ∀ ys : List ℚ, (∀ x ∈ ys, x = c) → ys.sum = (ys.length : ℚ) * c := by
    intro ys
    induction ys with
    | nil => intro _; simp
    | cons y t ih =>
      intro hy
      rw [List.sum_cons, List.length_cons, ih (fun x hx => hy x (List.mem_cons_of_mem _ hx)), hy y List.mem_cons_self]
      push_cast
      ring
  have hlen : (xs.length : ℚ) ≠ 0 := by
    have : xs.length ≠ 0 := fun h0 => hne (List.length_eq_zero_iff.mp h0)
    exact_mod_cast this
  unfold variance
  simp only
  rw [hsum xs h, mul_div_cancel_left₀ c hlen]
  have hz : (xs.map fun x => (x - c) * (x - c)) = xs.map fun _ => (0 : ℚ) := by
    apply List.map_congr_left
    intro x hx
    rw [h x hx]
    ring
  rw [hz]
  simp

/-! non-vacuity -/
example : (correctedPx (some 3) true [((1:ℚ)/4, ⟨2, 1, none⟩), (3/4, ⟨4, 0, none⟩)]) = some (43/4) := by
  decide +kernel

end Homonim
