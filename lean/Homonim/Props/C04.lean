/-
  C04 — Results do not depend on thread count or block interleaving.
  C09 (scheduling part) — fail loud, no deadlock, locks free, every block written when the outcome is ok.

  All statements quantify over every number of threads, every job list, every fault plan and every schedule (a
  schedule is any list of thread ids; steps that are not enabled are skipped, so every list is a legal schedule and every
  execution of the machine is the run of some list).
-/
import Homonim.Lemmas.Sched

namespace Homonim

/-- the lock invariant: a lock's owner is exactly the thread that is between `acq` and `rel` of that lock -/
def SInv (param : Bool) (s : SState) : Prop :=
  ∀ r t, s.owner r = some t ↔ ∃ ts, s.threads[t]? = some (some ts) ∧ holdsAt param ts.pc r = true

/-- reachable states: runs of arbitrary schedules from the initial state -/
def Reachable (param : Bool) (faults : Faults) (jobs : List Nat) (T : Nat) (s : SState) : Prop :=
  ∃ sched : List Nat, s = runSched param faults (initState jobs T) sched

/-- **Lock invariant holds in every reachable state** -/
theorem reachable_inv (param : Bool) (faults : Faults) (jobs : List Nat) (T : Nat) (s : SState)
    (h : Reachable param faults jobs T s) : SInv param s := by
  obtain ⟨sched, rfl⟩ := h
  exact lockInv_run param faults jobs T sched

/-- **Mutual exclusion**: in every reachable state at most one thread is inside the critical section of a file -/
theorem mutex_invariant (param : Bool) (faults : Faults) (jobs : List Nat) (T : Nat) (s : SState)
    (h : Reachable param faults jobs T s) (r : Res) (t1 t2 : Nat) (ts1 ts2 : TState)
    (h1 : s.threads[t1]? = some (some ts1)) (h2 : s.threads[t2]? = some (some ts2))
    (hh1 : holdsAt param ts1.pc r = true) (hh2 : holdsAt param ts2.pc r = true) : t1 = t2 := by
  have hinv := reachable_inv param faults jobs T s h
  have a := (hinv r t1).2 ⟨ts1, h1, hh1⟩
  have b := (hinv r t2).2 ⟨ts2, h2, hh2⟩
  rw [a] at b; exact Option.some.inj b

/-- **Every file access happens under the file's lock**: a thread about to do `io r` owns the lock of `r` -/
theorem io_under_lock (param : Bool) (faults : Faults) (jobs : List Nat) (T : Nat) (s : SState)
    (h : Reachable param faults jobs T s) (t : Nat) (ts : TState) (r : Res)
    (ht : s.threads[t]? = some (some ts)) (hio : instrAt param ts.pc = some (.io r)) : s.owner r = some t := by
  have hinv := reachable_inv param faults jobs T s h
  refine (hinv r t).2 ⟨ts, ht, ?_⟩
  simp [holdsAt, hio]

/-- **Locks are never nested**: a thread holds at most one lock at a time -/
theorem no_nested_locks (param : Bool) (pc : Nat) (r r' : Res)
    (h : holdsAt param pc r = true) (h' : holdsAt param pc r' = true) : r = r' := by
  rcases holdsAt_instr h with h1 | h1 <;> rcases holdsAt_instr h' with h2 | h2 <;>
    rw [h1] at h2 <;> cases h2 <;> rfl

/-- **No deadlock**: every reachable state that is not final has a thread whose next step is enabled - under every
    fault plan -/
theorem progress (param : Bool) (faults : Faults) (jobs : List Nat) (T : Nat) (hT : 0 < T) (s : SState)
    (h : Reachable param faults jobs T s) (hnf : s.final = false) : ∃ t, (step param faults s t).isSome = true := by
  obtain ⟨sched, rfl⟩ := h
  exact progress_of_inv hT (lockInv_run param faults jobs T sched) (jinv_run param faults jobs T sched).len hnf

/-- the remaining work of a state: queued jobs and the unexecuted instructions of running jobs -/
def remaining (param : Bool) (s : SState) : Nat :=
  s.queue.length * ((prog param).length + 2) +
    (s.threads.map fun th => match th with | none => 0 | some ts => (prog param).length + 1 - ts.pc).sum

/-- **Termination**: every enabled step strictly decreases the remaining work, so every execution is finite -/
theorem step_decreases (param : Bool) (faults : Faults) (s s' : SState) (t : Nat)
    (hpc : ∀ (t : Nat) (ts : TState), s.threads[t]? = some (some ts) → ts.pc ≤ (prog param).length)
    (h : step param faults s t = some s') : remaining param s' < remaining param s := by
  have hlen : ∀ {pc : Nat} {i : Instr}, instrAt param pc = some i → pc < (prog param).length := instrAt_lt_len
  unfold remaining
  rcases step_shape h with ⟨j, rest, hth, hq, hq', hth', _, _⟩ |
      ⟨ts, i, hth, hi, hq', hth', _, _, _⟩ | ⟨ts, res, hth, hq', hth', _, _, _⟩
  · have e := sum_map_set (fun th : Option TState => match th with
        | none => 0 | some ts => (prog param).length + 1 - ts.pc) s.threads t none (some ⟨j, 0⟩) hth
    rw [hq', hth', hq]
    simp only [List.length_cons] at e ⊢
    have : (rest.length + 1) * ((prog param).length + 2) =
        rest.length * ((prog param).length + 2) + ((prog param).length + 2) := Nat.succ_mul _ _
    omega
  · have e := sum_map_set (fun th : Option TState => match th with
        | none => 0 | some ts => (prog param).length + 1 - ts.pc) s.threads t (some ts) (some ⟨ts.job, ts.pc + 1⟩) hth
    have := hlen hi
    rw [hq', hth']
    simp only at e ⊢
    omega
  · have e := sum_map_set (fun th : Option TState => match th with
        | none => 0 | some ts => (prog param).length + 1 - ts.pc) s.threads t (some ts) none hth
    have := hpc t ts hth
    rw [hq', hth']
    simp only at e ⊢
    omega

/-- **Each block is written at most once per file** -/
theorem writes_nodup (param : Bool) (faults : Faults) (jobs : List Nat) (hnd : jobs.Nodup) (T : Nat) (s : SState)
    (h : Reachable param faults jobs T s) : s.writes.Nodup := by
  obtain ⟨sched, rfl⟩ := h
  exact (jwinv_run param faults jobs hnd T sched).2.nodup

-- `hnd` is not needed by the proof; it is kept so that the statement is unchanged
set_option linter.unusedVariables false in
/-- **Order independence of disjoint writes**: if the blocks' windows are pairwise disjoint (C06) and each block is
    written once, the final array is the same for every order of the writes -/
theorem applyWrites_order_indep {α : Type} (cover : Nat → Nat → Bool) (val : Nat → Nat → α) (init : Nat → α)
    (ws ws' : List Nat) (hperm : ws.Perm ws') (hnd : ws.Nodup)
    (hdisj : ∀ b ∈ ws, ∀ b' ∈ ws, b ≠ b' → ∀ x, ¬ (cover b x = true ∧ cover b' x = true)) :
    applyWrites cover val init ws = applyWrites cover val init ws' := by
  exact applyWrites_perm cover val init ws ws' hperm hdisj

/-- **Schedule independence**: without faults, any two complete schedules - with any numbers of threads - leave the same
    corrected array (and the same parameter array), given pairwise disjoint output windows -/
theorem schedule_independent {α : Type} (param : Bool) (jobs : List Nat) (hnd : jobs.Nodup) (T1 T2 : Nat) (s1 s2 : SState)
    (h1 : Reachable param (fun _ _ => false) jobs T1 s1) (h2 : Reachable param (fun _ _ => false) jobs T2 s2)
    (hf1 : s1.final = true) (hf2 : s2.final = true)
    (cover : Nat → Nat → Bool) (val : Nat → Nat → α) (init : Nat → α)
    (hdisj : ∀ b ∈ jobs, ∀ b' ∈ jobs, b ≠ b' → ∀ x, ¬ (cover b x = true ∧ cover b' x = true)) (r : Res) :
    applyWrites cover val init ((s1.writes.filter fun w => w.2 = r).map Prod.fst) =
      applyWrites cover val init ((s2.writes.filter fun w => w.2 = r).map Prod.fst) := by
  obtain ⟨sched1, rfl⟩ := h1
  obtain ⟨sched2, rfl⟩ := h2
  have a1 := jwinv_run param (fun _ _ => false) jobs hnd T1 sched1
  have a2 := jwinv_run param (fun _ _ => false) jobs hnd T2 sched2
  have hperm := final_fileWrites_perm a1.1 a1.2 a2.1 a2.2 hf1 hf2 r
  refine applyWrites_perm cover val init _ _ hperm ?_
  intro b hb b' hb'
  have m := fun j (hj : j ∈ fileWrites (runSched param (fun _ _ => false) (initState jobs T1) sched1) r) =>
    (a1.1.wr_sound j r ((mem_fileWrites _ r j).mp hj)).2.2
  exact hdisj b (m b hb) b' (m b' hb')

/-! ### The shared model object (round 12) -/

/-- **A model that stores nothing is interleaving-independent**: whatever the order of the blocks' `fit` and `apply` steps - any
    number of other blocks fitted between a block's own fit and its correction - every corrected block is what the model computes
    for that block alone from the initial state -/
theorem stateless_compute_interleaving_independent {σ P V : Type} (m : SharedModel σ P V) (h : m.Stateless) (s0 : σ)
    (es : List CEv) (ps : Nat → Option P) (hps : ∀ k p, ps k = some p → p = (m.fit s0 k).2) :
    ∀ jv ∈ runCompute m s0 ps es, jv.2 = m.apply s0 jv.1 (m.fit s0 jv.1).2 := by
  induction es generalizing ps with
  | nil => intro jv hjv; simp [runCompute] at hjv
  | cons e es ih =>
    cases e with
    | fit j =>
      intro jv hjv
      simp only [runCompute] at hjv
      rw [h s0 j] at hjv
      refine ih _ ?_ jv hjv
      intro k p hk
      by_cases hkj : k = j
      · subst hkj; simp at hk; exact hk.symm
      · simp [hkj] at hk; exact hps k p hk
    | apply j =>
      intro jv hjv
      simp only [runCompute] at hjv
      cases hp : ps j with
      | none => rw [hp] at hjv; exact ih ps hps jv hjv
      | some p =>
        rw [hp] at hjv
        rcases List.mem_cons.mp hjv with rfl | hmem
        · simp only; rw [hps j p hp]
        · exact ih ps hps jv hmem

/-- the pattern of seeded change C04-k: `fit` notes on the object whether the block it just fitted was empty (here: block 1 is),
    `apply` returns a nodata block (0) when the note is set and the correction (`p + 1`) otherwise -/
def notingModel : SharedModel Bool Nat Nat where
  fit := fun _ j => (j == 1, j)
  apply := fun s _ p => if s then 0 else p + 1

/-- **A model that stores into itself is not**: block 0 is corrected properly when its own steps are adjacent, and comes out as
    nodata when block 1 is fitted in between - two schedules of the same two blocks, two results -/
theorem noting_model_schedule_dependent :
    runCompute notingModel false (fun _ => none) [.fit 0, .apply 0, .fit 1, .apply 1] = [(0, 1), (1, 0)] ∧
    runCompute notingModel false (fun _ => none) [.fit 0, .fit 1, .apply 0, .apply 1] = [(0, 0), (1, 0)] ∧
    ¬ notingModel.Stateless := by
  refine ⟨by decide, by decide, ?_⟩
  intro h
  have := h false 1
  simp [notingModel] at this

/-- non-vacuity: a model that only reads its configuration is stateless -/
example : (⟨fun s j => (s, j + s), fun s _ p => p * s⟩ : SharedModel Nat Nat Nat).Stateless := fun _ _ => rfl


end Homonim
