/-
  C04 — Results do not depend on thread count or block interleaving (interim theorem set; the full set - lock invariant
  over all schedules, mutual exclusion, progress, termination, job accounting, order/schedule independence - replaces
  this file when its proofs are complete).
-/
import Homonim.Lemmas.Sched

namespace Homonim

theorem instrAt_lt (param : Bool) (pc : Nat) (i : Instr) (h : instrAt param pc = some i) : pc < 15 := by
  unfold instrAt at h
  have := (List.getElem?_eq_some_iff.mp h).1
  cases param <;> simp [prog] at this <;> omega

/-- **Locks are never nested**: a thread holds at most one lock at a time (so lock-order deadlocks cannot arise) -/
theorem no_nested_locks (param : Bool) (pc : Nat) (r r' : Res)
    (h : holdsAt param pc r = true) (h' : holdsAt param pc r' = true) : r = r' := by
  unfold holdsAt at h h'
  cases hi : instrAt param pc with
  | none => simp [hi] at h
  | some i =>
    cases i with
    | acq _ => simp [hi] at h
    | compute => simp [hi] at h
    | io x => simp [hi] at h h'; rw [h, h']
    | rel x => simp [hi] at h h'; rw [h, h']

/-- every `io r` step of the per-block program lies between `acq r` and `rel r` of the same resource (finite check of
    both program variants) -/
theorem io_is_bracketed : ∀ param : Bool, ∀ pc, pc < 15 → ∀ r ∈ [Res.S, .R, .C, .P],
    instrAt param pc = some (.io r) → instrAt param (pc - 1) = some (.acq r) ∧ instrAt param (pc + 1) = some (.rel r) := by
  decide

/-- a single write of a block stores the block's value on its window and leaves the rest -/
theorem applyWrites_single {α : Type} (cover : Nat → Nat → Bool) (val : Nat → Nat → α) (init : Nat → α) (b x : Nat) :
    applyWrites cover val init [b] x = if cover b x then val b x else init x := rfl

end Homonim
