/-
  C05 — Blocking is transparent: block overlap gives full kernel coverage at seams.
-/
import Homonim.Lemmas.KernelLocal
import Homonim.Lemmas.Geom
import Homonim.Model.Resample

namespace Homonim

/-- **Overlap**: `overlap_for_kernel` is `ceil(k/2)`, i.e. kernel radius + 1 for an odd kernel -/
theorem overlap_for_kernel_spec (k : Nat) :
    overlapForKernel k = (k + 1) / 2 ∧ (k % 2 = 1 → overlapForKernel k = k / 2 + 1) := by
  unfold overlapForKernel
  constructor
  · rfl
  · intro h; omega

/-- **The kernel window of every pixel within one pixel of a block's output window lies inside the block's input
    window** (clipped to the processing window): radius `k/2`, plus the one-pixel ring the 2 x 2 up-sampling support can
    reach, is at most the overlap `v = k/2 + 1`.  One axis; `[A, B)` is the processing window. -/
theorem kernel_window_inside_in_block (A B s v : Int) (k : Nat) (hk : ((k / 2 : Nat) : Int) + 1 ≤ v) (j : Nat)
    (p : Int) (hp : (procOut A B s v j).lo - 1 ≤ p ∧ p ≤ (procOut A B s v j).hi)
    (i : Int) (hi : p - ((k / 2 : Nat) : Int) ≤ i ∧ i ≤ p + ((k / 2 : Nat) : Int)) (hAB : A ≤ i ∧ i < B) :
    (procIn A B s v j).lo ≤ i ∧ i < (procIn A B s v j).hi := by
  have hv : 0 ≤ v := by omega
  rw [in_contains_out_plus_overlap_eq A B s v hv j]
  simp only
  omega

/-- **The fit depends only on the pixel's window**: a sub-block `[r0, r0+h) x [c0, c0+w)` of the processing window that
    contains the (clipped) kernel window of `(r, c)` yields exactly the parameters the whole window yields - for all
    three models, given the same block normalisation and in-painted offsets. -/
theorem fit_depends_only_on_window (b : Block) (model : Model) (kh kw : Nat) (fr : Bool) (th : Option ℚ) (n0 n1 : ℚ)
    (oF : Nat → Nat → Option ℚ) (r0 c0 h w r c : Nat) (hr : r0 ≤ r) (hc : c0 ≤ c)
    (hrin : ∀ i, i ∈ axisWin kh b.h r → r0 ≤ i ∧ i < r0 + h) (hcin : ∀ j, j ∈ axisWin kw b.w c → c0 ≤ j ∧ j < c0 + w)
    (hrs : r0 + h ≤ b.h) (hcs : c0 + w ≤ b.w) :
    fitAt (b.crop r0 c0 h w) model kh kw fr th n0 n1 (fun i j => oF (i + r0) (j + c0)) (r - r0) (c - c0) =
      fitAt b model kh kw fr th n0 n1 oF r c := by
  have hm : (b.crop r0 c0 h w).m (r - r0) (c - c0) = b.m r c := by
    unfold Block.crop Block.m; simp only
    rw [Nat.sub_add_cancel hr, Nat.sub_add_cancel hc]
  have hoF : oF (r - r0 + r0) (c - c0 + c0) = oF r c := by rw [Nat.sub_add_cancel hr, Nat.sub_add_cancel hc]
  unfold fitAt
  rw [hm]
  by_cases hmm : b.m r c = true
  · simp only [hmm, if_true]
    cases model with
    | gain =>
      simp only
      rw [sums_eq_ptsSums, sums_eq_ptsSums, winPts_crop b kh kw r0 c0 h w r c hr hc hrin hcin hrs hcs]
    | gainOffset =>
      simp only
      rw [sums_eq_ptsSums, sums_eq_ptsSums, winPts_crop b kh kw r0 c0 h w r c hr hc hrin hcin hrs hcs, hoF]
    | gainBlkOffset =>
      simp only
      have : (b.crop r0 c0 h w).normalised n0 n1 = (b.normalised n0 n1).crop r0 c0 h w := rfl
      rw [this, sums_eq_ptsSums, sums_eq_ptsSums,
        winPts_crop (b.normalised n0 n1) kh kw r0 c0 h w r c hr hc hrin hcin hrs hcs]
  · simp [hmm]

/-- **2 x 2 up-sampling support stays within one pixel of the centre pixel** (nearest: the centre pixel itself;
    bilinear: the two bracketing pixels), so source pixels of an output block read parameters only from the block's
    output window grown by one processing pixel - which `kernel_window_inside_in_block` covers. -/
theorem bilinear_support_near_centre (S D : Axis) (hS : 0 < S.p) (hD : 0 ≤ D.p) (j : Int) :
    ∀ iw ∈ bilinWeights1 S D j, nearestIdx S D j - 1 ≤ iw.1 ∧ iw.1 ≤ nearestIdx S D j + 1 := by
  intro iw hiw
  unfold bilinWeights1 at hiw
  simp only [List.mem_cons, List.mem_nil_iff, or_false] at hiw
  unfold nearestIdx
  have hden : 0 < 2 * S.p := by omega
  -- floor((n - S.p)/(2 S.p)) = floor(n/(2 S.p) - 1/2) lies in {floor(n/(2 S.p)) - 1, floor(n/(2 S.p))}
  have key : (2 * (D.edge j - S.o) + D.p) / (2 * S.p) - 1 ≤ (2 * (D.edge j - S.o) + D.p - S.p) / (2 * S.p) ∧
      (2 * (D.edge j - S.o) + D.p - S.p) / (2 * S.p) ≤ (2 * (D.edge j - S.o) + D.p) / (2 * S.p) := by
    constructor
    · have h1 : (2 * (D.edge j - S.o) + D.p - 2 * S.p) / (2 * S.p) ≤ (2 * (D.edge j - S.o) + D.p - S.p) / (2 * S.p) :=
        Int.ediv_le_ediv hden (by omega)
      have h2 : (2 * (D.edge j - S.o) + D.p - 2 * S.p) / (2 * S.p) = (2 * (D.edge j - S.o) + D.p) / (2 * S.p) - 1 := by
        have : 2 * (D.edge j - S.o) + D.p - 2 * S.p = 2 * (D.edge j - S.o) + D.p + (2 * S.p) * (-1) := by ring
        rw [this, Int.add_mul_ediv_left _ _ (ne_of_gt hden)]; ring
      omega
    · exact Int.ediv_le_ediv hden (by omega)
  rcases hiw with rfl | rfl <;> simp only <;> omega

/-- weights of the bilinear support are non-negative and sum to the full denominator (a normalised kernel) -/
theorem bilinear_weights_nonneg (S D : Axis) (hS : 0 < S.p) (j : Int) :
    (∀ iw ∈ bilinWeights1 S D j, 0 ≤ iw.2) ∧ ((bilinWeights1 S D j).map (·.2)).sum = 2 * S.p := by
  unfold bilinWeights1
  have hden : 0 < 2 * S.p := by omega
  have h1 := Int.ediv_mul_le (2 * (D.edge j - S.o) + D.p - S.p) (ne_of_gt hden)
  have h2 := Int.lt_ediv_add_one_mul_self (2 * (D.edge j - S.o) + D.p - S.p) hden
  constructor
  · intro iw hiw
    simp only [List.mem_cons, List.mem_nil_iff, or_false] at hiw
    rcases hiw with rfl | rfl <;> simp only <;> nlinarith
  · simp only [List.map_cons, List.map_nil, List.sum_cons, List.sum_nil]; ring

/-! non-vacuity: 5 x 5 kernel, overlap 3, block 1 of a window [0, 20) with block length 8 -/
example : (procOut 0 20 8 3 1).lo - 1 ≤ (7 : Int) ∧ (7 : Int) ≤ (procOut 0 20 8 3 1).hi ∧
    (procIn 0 20 8 3 1).lo ≤ 7 - 2 := by decide

end Homonim
