/-
  C06 — Output blocks tile the source exactly; paired windows cover the same ground.

  Property theorems only (helper lemmas live in Homonim/Lemmas).  Every statement is for all origins, pixel sizes,
  image sizes, block lengths and overlaps; 2-D statements are products of the two independent axes.
-/
import Homonim.Lemmas.Geom
import Mathlib.Tactic.Ring
import Mathlib.Tactic.Linarith
import Mathlib.Tactic.Positivity
import Mathlib.Algebra.Order.Floor.Ring
import Mathlib.Data.Rat.Floor

namespace Homonim

/-- the processing-grid output window of block `k` is `[A + k*s, min (A + (k+1)*s) B)` -/
theorem procOut_eq (A B s v : Int) (hs : 0 ≤ s) (hv : 0 ≤ v) (k : Nat) :
    procOut A B s v k = ⟨A + k * s, min (A + (k + 1) * s) B⟩ := by
  unfold procOut blockUl
  have hk : (0 : Int) ≤ (k : Int) * s := Int.mul_nonneg (Int.natCast_nonneg k) hs
  congr 1
  · omega
  · have : A - v + (k : Int) * s + s + 2 * v - v = A + ((k : Int) + 1) * s := by ring
    rw [this]

/-- **Processing-grid partition**: every pixel of the processing window lies in the output window of exactly
    one block (no gap, no double cover), for every block length `s > 0` and overlap `v ≥ 0`. -/
theorem out_blocks_partition_proc (A B s v : Int) (hs : 0 < s) (hv : 0 ≤ v) (x : Int) (hx : A ≤ x ∧ x < B) :
    ∃! k : Nat, k < nBlocks A B s ∧ (procOut A B s v k).mem x := by
  have hq : 0 ≤ (x - A) / s := Int.ediv_nonneg (by omega) (by omega)
  have h1 : (x - A) / s * s ≤ x - A := fdiv_mul_le _ _ hs
  have h2 : x - A < ((x - A) / s + 1) * s := fdiv_mul_gt _ _ hs
  refine ⟨((x - A) / s).toNat, ⟨?_, ?_⟩, ?_⟩
  · unfold nBlocks
    have hc : (x - A) / s + 1 ≤ cdiv (B - A) s := by
      by_contra hcon
      have hle : cdiv (B - A) s ≤ (x - A) / s := by omega
      have := cdiv_mul_ge (B - A) s hs
      have : cdiv (B - A) s * s ≤ (x - A) / s * s := Int.mul_le_mul_of_nonneg_right hle (le_of_lt hs)
      linarith
    omega
  · rw [procOut_eq A B s v (le_of_lt hs) hv]
    have hk : ((((x - A) / s).toNat : Nat) : Int) = (x - A) / s := Int.toNat_of_nonneg hq
    unfold Win1.mem
    simp only [hk, lt_min_iff]
    refine ⟨by linarith, by linarith, hx.2⟩
  · rintro j ⟨_, hj⟩
    rw [procOut_eq A B s v (le_of_lt hs) hv] at hj
    unfold Win1.mem at hj
    simp only [lt_min_iff] at hj
    have hj0 : (0 : Int) ≤ j := Int.natCast_nonneg j
    have e1 : (j : Int) ≤ (x - A) / s := le_fdiv_of_mul_le _ _ _ hs (by linarith)
    have e2 : (x - A) / s < (j : Int) + 1 := by
      by_contra hcon
      have hle : (j : Int) + 1 ≤ (x - A) / s := by omega
      have : ((j : Int) + 1) * s ≤ (x - A) / s * s := Int.mul_le_mul_of_nonneg_right hle (le_of_lt hs)
      linarith
    omega

/-- **Input windows**: the input window is the output window grown by the overlap on both sides, clipped to the
    processing window. -/
theorem in_contains_out_plus_overlap (A B s v : Int) (hv : 0 ≤ v) (k : Nat) :
    procIn A B s v k = ⟨max ((procOut A B s v k).lo - v) A, min ((procOut A B s v k).hi + v) B⟩ := by
  unfold procIn procOut blockUl
  simp only [Win1.mk.injEq]
  constructor <;> omega

/-- consecutive processing output windows are exactly adjacent -/
theorem procOut_adjacent (A B s v : Int) (hs : 0 < s) (hv : 0 ≤ v) (k : Nat) (hk : k + 1 < nBlocks A B s) :
    (procOut A B s v k).hi = (procOut A B s v (k + 1)).lo := by
  rw [procOut_eq A B s v (le_of_lt hs) hv, procOut_eq A B s v (le_of_lt hs) hv]
  simp only
  unfold nBlocks at hk
  have hc : ((k : Int) + 1) + 1 ≤ cdiv (B - A) s := by omega
  have h3 := cdiv_mul_lt (B - A) s hs
  have : (((k : Int) + 1) + 1 - 1) * s ≤ (cdiv (B - A) s - 1) * s :=
    Int.mul_le_mul_of_nonneg_right (by omega) (le_of_lt hs)
  have hlt : A + ((k : Int) + 1) * s < B := by linarith
  push_cast
  omega

/-- the rounded boundary sequence of the other grid: boundary `k` is the rounded image of the processing boundary
    `min (A + k*s) B` - one function of one integer, shared by both neighbours. -/
def otherBoundary (P O : Axis) (A B s : Int) (k : Nat) : Int :=
  rhe (toOther P O (min (A + k * s) B)) O.p

theorem otherBoundary_mono (P O : Axis) (A B s : Int) (hs : 0 < s) (hP : 0 < P.p) (hO : 0 < O.p) (k : Nat) :
    otherBoundary P O A B s k ≤ otherBoundary P O A B s (k + 1) := by
  unfold otherBoundary toOther Axis.edge
  apply rhe_mono _ _ _ hO
  have : min (A + (k : Int) * s) B ≤ min (A + ((k + 1 : Nat) : Int) * s) B := by
    push_cast
    have : A + (k : Int) * s ≤ A + ((k : Int) + 1) * s := by nlinarith
    omega
  nlinarith

/-- the other-grid output window of block `k` is `[boundary k, boundary (k+1))` whenever the block is non-empty -/
theorem oout_eq_boundaries (P O : Axis) (A B s v : Int) (hs : 0 < s) (hv : 0 ≤ v) (k : Nat)
    (hk : k < nBlocks A B s) :
    (block1 P O A B s v k).oout = ⟨otherBoundary P O A B s k, otherBoundary P O A B s (k + 1)⟩ := by
  unfold block1 roundTo otherBoundary
  simp only
  rw [procOut_eq A B s v (le_of_lt hs) hv]
  simp only
  unfold nBlocks at hk
  have hc : (k : Int) + 1 ≤ cdiv (B - A) s := by omega
  have h3 := cdiv_mul_lt (B - A) s hs
  have : ((k : Int) + 1 - 1) * s ≤ (cdiv (B - A) s - 1) * s :=
    Int.mul_le_mul_of_nonneg_right (by omega) (le_of_lt hs)
  have hlt : A + (k : Int) * s < B := by linarith
  have hmin : min (A + (k : Int) * s) B = A + (k : Int) * s := by omega
  rw [hmin]
  push_cast
  rfl

/-- **Same ground, output windows**: every boundary of the other image's output windows lies within half a pixel (of the other
    grid) of the processing boundary it was rounded from, on the ground - on either axis, whatever the pixel sizes (the predicate
    the check evaluates on the real windows; a boundary computed with the wrong axis' pixel size violates it) -/
theorem other_boundary_within_half_pixel (P O : Axis) (A B s : Int) (hO : 0 < O.p) (k : Nat) :
    2 * (O.edge (otherBoundary P O A B s k) - P.edge (min (A + k * s) B)) ≤ O.p ∧
      -O.p ≤ 2 * (O.edge (otherBoundary P O A B s k) - P.edge (min (A + k * s) B)) := by
  unfold otherBoundary toOther Axis.edge
  -- `rhe a d` is a nearest integer to `a / d`
  have key : ∀ a d : Int, 0 < d → 2 * (rhe a d * d - a) ≤ d ∧ -d ≤ 2 * (rhe a d * d - a) := by
    intro a d hd
    have h1 := Int.emod_nonneg a (ne_of_gt hd)
    have h2 := Int.emod_lt_of_pos a hd
    have h3 := Int.mul_ediv_add_emod a d
    unfold rhe
    simp only
    have e : a / d * d = d * (a / d) := Int.mul_comm _ _
    split
    · constructor <;> omega
    · split
      · have : (a / d + 1) * d = d * (a / d) + d := by rw [Int.add_mul, Int.one_mul, e]
        constructor <;> omega
      · split
        · constructor <;> omega
        · have : (a / d + 1) * d = d * (a / d) + d := by rw [Int.add_mul, Int.one_mul, e]
          constructor <;> omega
  have := key (P.o + min (A + (k : Int) * s) B * P.p - O.o) O.p hO
  constructor <;> omega

example : otherBoundary ⟨0, 3, 10⟩ ⟨1, 2, 20⟩ 0 10 4 1 = 6 := by decide

/-- **Other-grid partition**: the rounded output windows on the other grid partition
    `[round(A), round(B))` - every pixel in exactly one block - because both neighbours derive a shared boundary
    by the same monotone function of the same integer corner. -/
theorem other_out_partition (P O : Axis) (A B s v : Int) (hs : 0 < s) (hv : 0 ≤ v) (hP : 0 < P.p) (hO : 0 < O.p)
    (hAB : A < B) (x : Int)
    (hx : rhe (toOther P O A) O.p ≤ x ∧ x < rhe (toOther P O B) O.p) :
    ∃! k : Nat, k < nBlocks A B s ∧ (block1 P O A B s v k).oout.mem x := by
  have hmono := otherBoundary_mono P O A B s hs hP hO
  have hK : otherBoundary P O A B s (nBlocks A B s) = rhe (toOther P O B) O.p := by
    unfold otherBoundary nBlocks
    have hc0 : 0 ≤ cdiv (B - A) s := by
      have := cdiv_mul_ge (B - A) s hs
      by_contra hcon
      have : cdiv (B - A) s * s ≤ (-1) * s := Int.mul_le_mul_of_nonneg_right (by omega) (le_of_lt hs)
      linarith
    rw [Int.toNat_of_nonneg hc0]
    have := cdiv_mul_ge (B - A) s hs
    have : min (A + cdiv (B - A) s * s) B = B := by omega
    rw [this]
  have h0 : otherBoundary P O A B s 0 = rhe (toOther P O A) O.p := by
    unfold otherBoundary
    have : min (A + ((0 : Nat) : Int) * s) B = A := by simp; omega
    rw [this]
  obtain ⟨k, hk, hk1, hk2⟩ := tile_of_mono (otherBoundary P O A B s) hmono (nBlocks A B s) x
    (by rw [h0]; exact hx.1) (by rw [hK]; exact hx.2)
  refine ⟨k, ⟨hk, ?_⟩, ?_⟩
  · rw [oout_eq_boundaries P O A B s v hs hv k hk]; exact ⟨hk1, hk2⟩
  · rintro j ⟨hj, hjm⟩
    rw [oout_eq_boundaries P O A B s v hs hv j hj] at hjm
    exact tile_unique (otherBoundary P O A B s) hmono j k x hjm ⟨hk1, hk2⟩

/-- the processing window on the reference grid, rounded back to the source grid, contains the whole source image -/
theorem refWin_round_covers_src (S R : Axis) (hS : 0 < S.p) (hR : 0 < R.p) (hn : 0 ≤ S.n) :
    rhe (toOther R S (refWin S R).lo) S.p ≤ 0 ∧ S.n ≤ rhe (toOther R S (refWin S R).hi) S.p := by
  unfold refWin expandTo Axis.full toOther Axis.edge
  simp only
  constructor
  · apply rhe_le_of_le_mul _ _ _ hS
    have := fdiv_mul_le (S.o + 0 * S.p - R.o) R.p hR
    linarith
  · apply le_rhe_of_mul_le _ _ _ hS
    have := cdiv_mul_ge (S.o + S.n * S.p - R.o) R.p hR
    linarith

/-- `_src_win` contains the whole source image -/
theorem srcWin_covers_src (S R : Axis) (hS : 0 < S.p) (hR : 0 < R.p) :
    (srcWin S R).lo ≤ 0 ∧ S.n ≤ (srcWin S R).hi := by
  unfold srcWin refWin expandTo Axis.full toOther Axis.edge
  simp only
  constructor
  · have h1 := fdiv_mul_le (S.o + 0 * S.p - R.o) R.p hR
    have : (R.o + (S.o + 0 * S.p - R.o) / R.p * R.p - S.o) ≤ 0 * S.p := by linarith
    have h2 := fdiv_mul_le (R.o + (S.o + 0 * S.p - R.o) / R.p * R.p - S.o) S.p hS
    by_contra hcon
    have : 1 * S.p ≤ (R.o + (S.o + 0 * S.p - R.o) / R.p * R.p - S.o) / S.p * S.p :=
      Int.mul_le_mul_of_nonneg_right (by omega) (le_of_lt hS)
    linarith
  · have h1 := cdiv_mul_ge (S.o + S.n * S.p - R.o) R.p hR
    have h2 := cdiv_mul_ge (R.o + cdiv (S.o + S.n * S.p - R.o) R.p * R.p - S.o) S.p hS
    by_contra hcon
    have : cdiv (R.o + cdiv (S.o + S.n * S.p - R.o) R.p * R.p - S.o) S.p * S.p ≤ (S.n - 1) * S.p :=
      Int.mul_le_mul_of_nonneg_right (by omega) (le_of_lt hS)
    nlinarith

/-- **Source partition, processing on the reference grid**: every source pixel lies in the (clipped) source output
    window of exactly one block along each axis. -/
theorem src_out_partition_procRef (S R : Axis) (s v : Int) (hs : 0 < s) (hv : 0 ≤ v) (hS : 0 < S.p) (hR : 0 < R.p)
    (x : Int) (hx : 0 ≤ x ∧ x < S.n) :
    ∃! k : Nat, k < nBlocks (refWin S R).lo (refWin S R).hi s ∧
      ((block1 R S (refWin S R).lo (refWin S R).hi s v k).srcOutClipped true S).mem x := by
  have hcov := refWin_round_covers_src S R hS hR (by omega)
  have hAB : (refWin S R).lo < (refWin S R).hi := by
    by_contra hcon
    have hle : (refWin S R).hi ≤ (refWin S R).lo := by omega
    have := rhe_mono _ _ S.p hS
      (show toOther R S (refWin S R).hi ≤ toOther R S (refWin S R).lo by
        unfold toOther Axis.edge; nlinarith)
    omega
  obtain ⟨k, ⟨hk, hkm⟩, huniq⟩ := other_out_partition R S (refWin S R).lo (refWin S R).hi s v hs hv hR hS hAB x
    ⟨by omega, by omega⟩
  refine ⟨k, ⟨hk, ?_⟩, ?_⟩
  · unfold Block1.srcOutClipped Win1.inter Win1.mem Axis.full
    unfold Win1.mem at hkm
    simp only [if_true]
    omega
  · rintro j ⟨hj, hjm⟩
    apply huniq j ⟨hj, ?_⟩
    unfold Block1.srcOutClipped Win1.inter Win1.mem Axis.full at hjm
    simp only [if_true] at hjm
    unfold Win1.mem
    omega

/-- **Source partition, processing on the source grid**: the source output windows are the processing output
    windows and, clipped to the image, partition it. -/
theorem src_out_partition_procSrc (S R : Axis) (s v : Int) (hs : 0 < s) (hv : 0 ≤ v) (hS : 0 < S.p) (hR : 0 < R.p)
    (x : Int) (hx : 0 ≤ x ∧ x < S.n) :
    ∃! k : Nat, k < nBlocks (srcWin S R).lo (srcWin S R).hi s ∧
      ((block1 S R (srcWin S R).lo (srcWin S R).hi s v k).srcOutClipped false S).mem x := by
  have hcov := srcWin_covers_src S R hS hR
  obtain ⟨k, ⟨hk, hkm⟩, huniq⟩ := out_blocks_partition_proc (srcWin S R).lo (srcWin S R).hi s v hs hv x
    ⟨by omega, by omega⟩
  refine ⟨k, ⟨hk, ?_⟩, ?_⟩
  · unfold Block1.srcOutClipped Win1.inter Win1.mem Axis.full block1
    unfold Win1.mem at hkm
    simp only [Bool.false_eq_true, if_false]
    omega
  · rintro j ⟨hj, hjm⟩
    apply huniq j ⟨hj, ?_⟩
    unfold Block1.srcOutClipped Win1.inter Win1.mem Axis.full block1 at hjm
    simp only [Bool.false_eq_true, if_false] at hjm
    unfold Win1.mem
    omega

/-- **Same ground**: the expanded window on the other grid covers the ground extent of the processing window,
    in whole pixels of the other grid (so the coarser grid's pixels are covered entirely). -/
theorem same_ground (P O : Axis) (w : Win1) (hO : 0 < O.p) :
    O.edge (expandTo P O w).lo ≤ P.edge w.lo ∧ P.edge w.hi ≤ O.edge (expandTo P O w).hi := by
  unfold expandTo toOther Axis.edge
  simp only
  have h1 := fdiv_mul_le (P.o + w.lo * P.p - O.o) O.p hO
  have h2 := cdiv_mul_ge (P.o + w.lo * P.p - O.o) O.p hO
  have h3 := cdiv_mul_ge (P.o + w.hi * P.p - O.o) O.p hO
  constructor <;> linarith

/-- the expansion is tight: it adds less than one other-grid pixel on either side -/
theorem same_ground_tight (P O : Axis) (w : Win1) (hO : 0 < O.p) :
    P.edge w.lo < O.edge ((expandTo P O w).lo + 1) ∧ O.edge ((expandTo P O w).hi - 1) < P.edge w.hi := by
  unfold expandTo toOther Axis.edge
  simp only
  have h1 := fdiv_mul_gt (P.o + w.lo * P.p - O.o) O.p hO
  have h3 := cdiv_mul_lt (P.o + w.hi * P.p - O.o) O.p hO
  constructor <;> linarith

/-- **Band loop**: the block list of an `nb`-band pair consists, for every band, of exactly the row × column
    block products. -/
theorem band_loop (nb : Nat) (Prow Orow Pcol Ocol : Axis) (Ar Br sr vr Ac Bc sc vc : Int) (bp : BlockPair) :
    bp ∈ blockPairs nb Prow Orow Pcol Ocol Ar Br sr vr Ac Bc sc vc ↔
      bp.band < nb ∧ bp.row ∈ blocks1 Prow Orow Ar Br sr vr ∧ bp.col ∈ blocks1 Pcol Ocol Ac Bc sc vc ∧
      bp.outer = (bp.row.outer Ar Br || bp.col.outer Ac Bc) := by
  unfold blockPairs
  simp only [List.mem_flatMap, List.mem_range, List.mem_map]
  constructor
  · rintro ⟨b, hb, r, hr, c, hc, rfl⟩
    exact ⟨hb, hr, hc, rfl⟩
  · rintro ⟨hb, hr, hc, ho⟩
    refine ⟨bp.band, hb, bp.row, hr, bp.col, hc, ?_⟩
    cases bp
    simp only at ho
    simp [ho]

theorem blockPairs_length (nb : Nat) (Prow Orow Pcol Ocol : Axis) (Ar Br sr vr Ac Bc sc vc : Int) :
    (blockPairs nb Prow Orow Pcol Ocol Ar Br sr vr Ac Bc sc vc).length =
      nb * (nBlocks Ar Br sr * nBlocks Ac Bc sc) := by
  unfold blockPairs blocks1
  simp [List.length_flatMap, Function.comp_def, List.map_const']

/-! ### Non-vacuity: concrete states meeting the hypotheses -/

example : ∃! k : Nat, k < nBlocks 3 19 8 ∧ (procOut 3 19 8 3 k).mem 11 :=
  out_blocks_partition_proc 3 19 8 3 (by decide) (by decide) 11 (by decide)

-- 0.4 m source on a 0.8 m reference at a half-pixel offset (units of 0.1 m): the D1 geometry
example : (blocks1 ⟨1, 8, 20⟩ ⟨13, 4, 31⟩ 1 17 5 0).map (·.oout) = [⟨-1, 9⟩, ⟨9, 19⟩, ⟨19, 29⟩, ⟨29, 31⟩] := by
  decide

example : (0 : Int) < (⟨13, 4, 31⟩ : Axis).p ∧ (0 : Int) < (⟨1, 8, 20⟩ : Axis).p ∧
    (0:Int) ≤ 5 ∧ 5 < (⟨13, 4, 31⟩ : Axis).n := by decide

/-! ### the block shape (`_auto_block_shape`): the block lengths `s` the theorems above quantify over -/

/-- halving the longer side halves the area -/
theorem halveLonger_area (h w : ℚ) : (halveLonger h w).1 * (halveLonger h w).2 = h * w / 2 := by
  unfold halveLonger; split <;> simp <;> ring

theorem halveLonger_le (h w : ℚ) (hh : 0 ≤ h) (hw : 0 ≤ w) :
    0 ≤ (halveLonger h w).1 ∧ (halveLonger h w).1 ≤ h ∧ 0 ≤ (halveLonger h w).2 ∧ (halveLonger h w).2 ≤ w := by
  unfold halveLonger
  split
  · exact ⟨by simp only; linarith, by simp only; linarith, hw, le_refl _⟩
  · exact ⟨hh, le_refl _, by simp only; linarith, by simp only; linarith⟩

/-- the loop only ever shrinks the shape, and keeps it non-negative -/
theorem autoShapeLoop_le (fuel : Nat) (h w m : ℚ) (hh : 0 ≤ h) (hw : 0 ≤ w) :
    0 ≤ (autoShapeLoop fuel h w m).1 ∧ (autoShapeLoop fuel h w m).1 ≤ h ∧
    0 ≤ (autoShapeLoop fuel h w m).2 ∧ (autoShapeLoop fuel h w m).2 ≤ w := by
  induction fuel generalizing h w with
  | zero => simp [autoShapeLoop, hh, hw]
  | succ n ih =>
    unfold autoShapeLoop
    split
    · obtain ⟨a, b, c, d⟩ := halveLonger_le h w hh hw
      obtain ⟨e, f, g, k⟩ := ih _ _ a c
      exact ⟨e, le_trans f b, g, le_trans k d⟩
    · exact ⟨hh, le_refl _, hw, le_refl _⟩

/-- **The block fits the budget**: when the step bound is not exhausted (`h·w·4 ≤ 2^fuel · m`), the shape the loop
    returns satisfies `height · width · 4 ≤ maxBytes` -/
theorem autoShapeLoop_fits (fuel : Nat) (h w m : ℚ) (hfuel : h * w * 4 ≤ 2 ^ fuel * m) :
    (autoShapeLoop fuel h w m).1 * (autoShapeLoop fuel h w m).2 * 4 ≤ m := by
  induction fuel generalizing h w with
  | zero => simpa [autoShapeLoop] using hfuel
  | succ n ih =>
    unfold autoShapeLoop
    split
    · apply ih
      rw [halveLonger_area]
      have : (2 : ℚ) ^ (n + 1) = 2 * 2 ^ n := by ring
      rw [this] at hfuel
      linarith
    · rename_i hnot
      exact not_lt.mp hnot

/-- a window that fits the budget is one block -/
theorem autoShapeLoop_whole (fuel : Nat) (h w m : ℚ) (hfit : h * w * 4 ≤ m) : autoShapeLoop fuel h w m = (h, w) := by
  cases fuel with
  | zero => rfl
  | succ n => unfold autoShapeLoop; rw [if_neg (not_lt.mpr hfit)]

theorem rat_ceil_eq_ceil (q : Rat) : q.ceil = ⌈q⌉ := by
  rw [Rat.ceil_eq_neg_floor_neg]; show -⌊-q⌋ = ⌈q⌉; rw [Int.floor_neg, neg_neg]

/-- **Block lengths are positive and never exceed the window** - the hypotheses `0 < s` of the partition theorems -/
theorem autoBlockShape_pos (fuel H W : Nat) (m : ℚ) (s : Int × Int) (h : autoBlockShape fuel H W m = some s) :
    1 ≤ s.1 ∧ s.1 ≤ H ∧ 1 ≤ s.2 ∧ s.2 ≤ W := by
  unfold autoBlockShape at h
  simp only at h
  split at h
  · cases h
  · rename_i hn
    cases h
    rw [not_or, not_lt, not_lt] at hn
    obtain ⟨a, b, c, d⟩ := autoShapeLoop_le fuel (H : ℚ) (W : ℚ) m (by positivity) (by positivity)
    simp only [rat_ceil_eq_ceil]
    refine ⟨?_, ?_, ?_, ?_⟩
    · exact Int.one_le_ceil_iff.mpr (by linarith [hn.1])
    · exact Int.ceil_le.mpr (by exact_mod_cast b)
    · exact Int.one_le_ceil_iff.mpr (by linarith [hn.2])
    · exact Int.ceil_le.mpr (by exact_mod_cast d)


/-! non-vacuity: 20 x 30 pixels, 600 bytes -> two halvings -> 10 x 15; a budget below one pixel is an error -/
example : autoBlockShape 50 20 30 600 = some (10, 15) := by decide +kernel
example : autoBlockShape 50 3 3 1 = none := by decide +kernel

end Homonim
