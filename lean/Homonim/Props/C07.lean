/-
  C07 — Radiometric scale laws: source gain irrelevant, reference scale carries through.

  `b.scale a c` multiplies the source of a block by `a` and its reference by `c`; `scaleParams a c` maps
  (gain, offset, R²) to (c/a · gain, c · offset, R²).  All statements are for every block, mask, kernel, model,
  in-paint threshold and positive factors.
-/
import Homonim.Lemmas.KernelScale
import Homonim.Model.Resample

namespace Homonim

/-- **Fit scale law**: fitting the scaled block gives the scaled parameters, at every pixel, for all three models,
    with or without R² and in-painting - provided the external pieces scale as measured: the block normalisation
    `(n0, n1)` becomes `(n0·c/a, n1·c)` and the in-painted offsets scale by `c`. -/
theorem fitAt_scale (b : Block) (a c : ℚ) (ha : 0 < a) (hc : 0 < c) (model : Model) (kh kw : Nat) (fr : Bool)
    (th : Option ℚ) (n0 n1 : ℚ) (oF : Nat → Nat → Option ℚ) (r c' : Nat) :
    fitAt (b.scale a c) model kh kw fr th (n0 * (c / a)) (n1 * c) (fun i j => (oF i j).map (fun o => c * o)) r c' =
      (fitAt b model kh kw fr th n0 n1 oF r c').map (scaleParams a c) := by
  have ha' := ne_of_gt ha
  have hc' := ne_of_gt hc
  unfold fitAt
  rw [m_scale]
  by_cases hm : b.m r c' = true
  · simp only [hm, if_true]
    cases model with
    | gain => simp only; rw [sums_scale_block]; exact fitGainS_scale a c ha' hc' _ fr
    | gainOffset => simp only; rw [sums_scale_block]; exact fitGainOffsetS_scale a c ha hc _ fr th _
    | gainBlkOffset =>
      simp only
      rw [normalised_scale b a c n0 n1 ha', sums_scale_block]
      unfold fitGainBlkOffsetS
      rw [fitGainS_scale c c hc' hc' _ fr]
      cases fitGainS ((b.normalised n0 n1).sums kh kw r c') fr with
      | none => rfl
      | some p =>
        simp only [Option.map_some, scaleParams, Option.some.injEq, Params.mk.injEq, and_true]
        constructor <;> field_simp
  · simp [hm]

/-- source scaled by `a`: gains divide by `a`, offsets and R² are unchanged -/
theorem fit_scale_src (b : Block) (a : ℚ) (ha : 0 < a) (model : Model) (kh kw : Nat) (fr : Bool) (th : Option ℚ)
    (n0 n1 : ℚ) (oF : Nat → Nat → Option ℚ) (r c' : Nat) :
    fitAt (b.scale a 1) model kh kw fr th (n0 * (1 / a)) n1 oF r c' =
      (fitAt b model kh kw fr th n0 n1 oF r c').map fun p => ⟨p.gain / a, p.offset, p.r2⟩ := by
  have h := fitAt_scale b a 1 ha one_pos model kh kw fr th n0 n1 oF r c'
  simp only [mul_one, one_mul, Option.map_id'] at h
  rw [show oF = (fun i j => oF i j) from rfl, h]
  congr 1
  funext p
  simp only [scaleParams, one_mul, Params.mk.injEq, and_true]
  field_simp

/-- reference scaled by `c`: gains and offsets multiply by `c`, R² is unchanged -/
theorem fit_scale_ref (b : Block) (c : ℚ) (hc : 0 < c) (model : Model) (kh kw : Nat) (fr : Bool) (th : Option ℚ)
    (n0 n1 : ℚ) (oF : Nat → Nat → Option ℚ) (r c' : Nat) :
    fitAt (b.scale 1 c) model kh kw fr th (n0 * c) (n1 * c) (fun i j => (oF i j).map (fun o => c * o)) r c' =
      (fitAt b model kh kw fr th n0 n1 oF r c').map fun p => ⟨c * p.gain, c * p.offset, p.r2⟩ := by
  have h := fitAt_scale b 1 c one_pos hc model kh kw fr th n0 n1 oF r c'
  simp only [div_one] at h
  rw [h]
  congr 1
  funext p
  simp only [scaleParams, div_one]

/-- **Validity masks do not change** under either scaling -/
theorem mask_unchanged (b : Block) (a c : ℚ) (ha : 0 < a) (hc : 0 < c) (model : Model) (kh kw : Nat) (fr : Bool)
    (th : Option ℚ) (n0 n1 : ℚ) (oF : Nat → Nat → Option ℚ) (r c' : Nat) :
    (fitAt (b.scale a c) model kh kw fr th (n0 * (c / a)) (n1 * c) (fun i j => (oF i j).map (fun o => c * o)) r c').isSome
      = (fitAt b model kh kw fr th n0 n1 oF r c').isSome := by
  rw [fitAt_scale b a c ha hc]; simp

/-- **R² values do not change** under either scaling -/
theorem r2_unchanged (b : Block) (a c : ℚ) (ha : 0 < a) (hc : 0 < c) (model : Model) (kh kw : Nat) (fr : Bool)
    (th : Option ℚ) (n0 n1 : ℚ) (oF : Nat → Nat → Option ℚ) (r c' : Nat) :
    (fitAt (b.scale a c) model kh kw fr th (n0 * (c / a)) (n1 * c) (fun i j => (oF i j).map (fun o => c * o)) r c').map
      (·.r2) = (fitAt b model kh kw fr th n0 n1 oF r c').map (·.r2) := by
  rw [fitAt_scale b a c ha hc]
  cases fitAt b model kh kw fr th n0 n1 oF r c' <;> simp [scaleParams]

/-- **Apply**: the scaled parameters applied to the scaled source give `c` times the corrected value -/
theorem apply_scale (a c : ℚ) (ha : a ≠ 0) (p : Params) (x : ℚ) :
    applyParams (scaleParams a c p) (a * x) = c * applyParams p x := applyParams_scale a c ha p x

/-- **Resampling is homogeneous**: a normalised weighted mean of values scaled by `k` is `k` times the mean, with the
    same validity (so the source seen on the processing grid, and the parameters seen on the source grid, scale). -/
theorem resample_linear (k : ℚ) (l : List (ℚ × ℚ)) :
    wmean (l.map fun p => (p.1, k * p.2)) = (wmean l).map (fun v => k * v) := by
  unfold wmean
  have h1 : ((l.map fun p => (p.1, k * p.2)).map fun p => p.1 * p.2).sum = k * (l.map fun p => p.1 * p.2).sum := by
    induction l with
    | nil => simp
    | cons x xs ih => simp only [List.map_cons, List.sum_cons] at ih ⊢; rw [ih]; ring
  have h2 : ((l.map fun p => (p.1, k * p.2)).map fun p => p.1).sum = (l.map fun p => p.1).sum := by
    simp [List.map_map, Function.comp_def]
  rw [h1, h2]
  have := divO_scale k 1 (l.map fun p => p.1 * p.2).sum (l.map fun p => p.1).sum one_ne_zero
  simp only [one_mul, div_one] at this
  exact this

/-- **Corrected pixel under scaling, through the up-sampling of the parameters**: if every processing-grid pixel in
    the support carries the scaled parameters, the corrected source pixel is unchanged for a source scaling
    (`c = 1`) and multiplied by `c` for a reference scaling. -/
theorem corrected_scale (a c : ℚ) (ha : a ≠ 0) (l : List (ℚ × Params)) (x : ℚ) :
    (upsampleParams (l.map fun p => (p.1, scaleParams a c p.2))).map (fun go => go.1 * (a * x) + go.2) =
      (upsampleParams l).map (fun go => c * (go.1 * x + go.2)) := by
  unfold upsampleParams
  have hg := resample_linear (c / a) (l.map fun p => (p.1, p.2.gain))
  have ho := resample_linear c (l.map fun p => (p.1, p.2.offset))
  simp only [List.map_map, Function.comp_def, scaleParams] at hg ho ⊢
  rw [hg, ho]
  cases wmean (l.map fun p => (p.1, p.2.gain)) with
  | none => simp
  | some g =>
    cases wmean (l.map fun p => (p.1, p.2.offset)) with
    | none => simp
    | some o =>
      simp only [Option.map_some, Option.some.injEq]
      field_simp

/-- population variance scales with the square: `std(k·x) = |k|·std(x)` (the block normalisation gain `n0` therefore
    scales by `c/a`) -/
theorem variance_scale (k : ℚ) (xs : List ℚ) : variance (xs.map fun x => k * x) = k ^ 2 * variance xs := by
  unfold variance
  have hs : ∀ l : List ℚ, (l.map fun x => k * x).sum = k * l.sum := by
    intro l; induction l with
    | nil => simp
    | cons y ys ih => simp only [List.map_cons, List.sum_cons, ih]; ring
  simp only [List.length_map, List.map_map, Function.comp_def, hs]
  have : (xs.map fun x => (k * x - k * xs.sum / (xs.length : ℚ)) * (k * x - k * xs.sum / (xs.length : ℚ))) =
      (xs.map fun x => (x - xs.sum / (xs.length : ℚ)) * (x - xs.sum / (xs.length : ℚ))).map fun y => k ^ 2 * y := by
    simp only [List.map_map, Function.comp_def]
    apply List.map_congr_left
    intro x _
    ring
  rw [this]
  have hs2 : ∀ l : List ℚ, (l.map fun y => k ^ 2 * y).sum = k ^ 2 * l.sum := by
    intro l; induction l with
    | nil => simp
    | cons y ys ih => simp only [List.map_cons, List.sum_cons, ih]; ring
  rw [hs2]
  ring

/-! non-vacuity: a concrete block scaled by (2, 3): base fit (2, 1, R² = 1) becomes (3/2·2, 3·1, 1) -/
def exBlockS : Block :=
  { h := 2, w := 3
    src := fun r c => (r * 3 + c + 1 : Nat)
    ref := fun r c => (2 * (r * 3 + c) + 3 : Nat)
    sm := fun r c => !(r == 1 && c == 1)
    rm := fun _ _ => true }

example : fitAt (exBlockS.scale 2 3) .gainOffset 1 3 true none 1 0 (fun _ _ => none) 0 1 = some ⟨3, 3, some 1⟩ := by
  decide +kernel

end Homonim
