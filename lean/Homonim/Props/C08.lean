/-
  C08 — Invalid pixels never influence any result, however the mask is encoded.
-/
import Homonim.Model.Mask
import Homonim.Lemmas.Kernel

namespace Homonim

/-- **Hidden values are overwritten before anything sees them**: under a dataset mask (internal mask or alpha band), a
    pixel whose mask bit is clear reads as invalid whatever number is stored under it. -/
theorem read_hides_values (nd : Option FVal) (s1 s2 : FVal) :
    readPx true nd s1 false = none ∧ readPx true nd s1 false = readPx true nd s2 false := by
  constructor <;> simp [readPx, FVal.nanEq]

/-- a finite value under a set mask bit is read as itself -/
theorem read_masked_valid (nd : Option FVal) (q : ℚ) : readPx true nd (.fin q) true = some q := by
  simp [readPx, FVal.nanEq]

/-- how one logical pixel (`some v` valid / `none` invalid) is stored under each encoding -/
def storeNaN (lp : Option ℚ) : FVal := match lp with | some q => .fin q | none => .nan
def storeNodata (nd : ℚ) (lp : Option ℚ) : FVal := match lp with | some q => .fin q | none => .fin nd
def storeMasked (hidden : FVal) (lp : Option ℚ) : FVal := match lp with | some q => .fin q | none => hidden

/-- **The four encodings of one validity pattern read to the same pixel**: NaN nodata, numeric nodata (distinct from
    every valid value), internal mask and alpha band (both reach the code as a per-dataset mask) with *any* hidden
    value, all yield the logical pixel. -/
theorem encodings_agree (lp : Option ℚ) (nd : ℚ) (hnd : ∀ q, lp = some q → q ≠ nd) (hidden : FVal) (anyBit : Bool) :
    readPx false (some .nan) (storeNaN lp) anyBit = lp ∧
    readPx false (some (.fin nd)) (storeNodata nd lp) anyBit = lp ∧
    readPx true none (storeMasked hidden lp) lp.isSome = lp := by
  cases lp with
  | none => simp [readPx, storeNaN, storeNodata, storeMasked, FVal.nanEq]
  | some q =>
    have := hnd q rfl
    simp [readPx, storeNaN, storeNodata, storeMasked, FVal.nanEq, this]

/-- two blocks that agree on their masks and on the values under the joint mask -/
def SameOnMask (b1 b2 : Block) : Prop :=
  b1.h = b2.h ∧ b1.w = b2.w ∧ (∀ i j, b1.sm i j = b2.sm i j) ∧ (∀ i j, b1.rm i j = b2.rm i j) ∧
    (∀ i j, b1.m i j = true → b1.src i j = b2.src i j ∧ b1.ref i j = b2.ref i j)

theorem winPts_congr_on_mask (b1 b2 : Block) (h : SameOnMask b1 b2) (kh kw r c : Nat) :
    b1.winPts kh kw r c = b2.winPts kh kw r c := by
  obtain ⟨hh, hw, hsm, hrm, hv⟩ := h
  have hm : ∀ i j, b1.m i j = b2.m i j := by intro i j; unfold Block.m; rw [hsm, hrm]
  unfold Block.winPts
  rw [hh, hw]
  have hf : (List.filter (fun p => b1.m p.1 p.2) (winPos kh kw b2.h b2.w r c)) =
      (List.filter (fun p => b2.m p.1 p.2) (winPos kh kw b2.h b2.w r c)) := by
    congr 1; funext p; exact hm p.1 p.2
  rw [hf]
  apply List.map_congr_left
  intro p hp
  rw [List.mem_filter] at hp
  have := hv p.1 p.2 (by rw [hm]; exact hp.2)
  rw [this.1, this.2]

/-- **The fit is blind to what lies under invalid pixels**: blocks that agree on the masks and on the jointly valid
    values produce identical parameters at every pixel, for all models and settings. -/
theorem fit_congr_on_mask (b1 b2 : Block) (h : SameOnMask b1 b2) (model : Model) (kh kw : Nat) (fr : Bool)
    (th : Option ℚ) (n0 n1 : ℚ) (oF : Nat → Nat → Option ℚ) (r c : Nat) :
    fitAt b1 model kh kw fr th n0 n1 oF r c = fitAt b2 model kh kw fr th n0 n1 oF r c := by
  have hm : b1.m r c = b2.m r c := by unfold Block.m; rw [h.2.2.1, h.2.2.2.1]
  unfold fitAt
  rw [hm]
  by_cases hmm : b2.m r c = true
  · simp only [hmm, if_true]
    cases model with
    | gain => simp only; rw [sums_eq_ptsSums, sums_eq_ptsSums, winPts_congr_on_mask b1 b2 h]
    | gainOffset => simp only; rw [sums_eq_ptsSums, sums_eq_ptsSums, winPts_congr_on_mask b1 b2 h]
    | gainBlkOffset =>
      simp only
      have hn : SameOnMask (b1.normalised n0 n1) (b2.normalised n0 n1) := by
        obtain ⟨hh, hw, hsm, hrm, hv⟩ := h
        refine ⟨hh, hw, hsm, hrm, ?_⟩
        intro i j hij
        have := hv i j hij
        simp only [Block.normalised]
        rw [this.1, this.2]; exact ⟨rfl, rfl⟩
      rw [sums_eq_ptsSums, sums_eq_ptsSums, winPts_congr_on_mask _ _ hn]
  · simp [hmm]

/-- **The block normalisation sees only the jointly valid values** (std and percentile are functions of this list) -/
theorem blocknorm_congr_on_mask (b1 b2 : Block) (h : SameOnMask b1 b2) :
    b1.validVals b1.src = b2.validVals b2.src ∧ b1.validVals b1.ref = b2.validVals b2.ref := by
  obtain ⟨hh, hw, hsm, hrm, hv⟩ := h
  have hm : ∀ i j, b1.m i j = b2.m i j := by intro i j; unfold Block.m; rw [hsm, hrm]
  unfold Block.validVals
  rw [hh, hw]
  constructor
  · apply List.flatMap_congr; intro r _
    apply List.filterMap_congr; intro c _
    rw [hm]
    by_cases hb : b2.m r c = true
    · simp only [hb, if_true]; rw [(hv r c (by rw [hm]; exact hb)).1]
    · simp [hb]
  · apply List.flatMap_congr; intro r _
    apply List.filterMap_congr; intro c _
    rw [hm]
    by_cases hb : b2.m r c = true
    · simp only [hb, if_true]; rw [(hv r c (by rw [hm]; exact hb)).2]
    · simp [hb]

/-! non-vacuity -/
example : readPx true none (storeMasked (.fin 340282346638528859811704183484516925440) none) false = none ∧
    readPx false (some (.fin (-9999))) (storeNodata (-9999) (some 7)) true = some 7 := by
  constructor <;> decide +kernel

end Homonim
