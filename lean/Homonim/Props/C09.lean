/-
  C09 — Fail loud: a failed block is never swallowed, and never hangs or leaks (interim theorem set on the scheduler
  machine; the reachable-state theorems - progress under faults, locks free at the end, every job finishes, ok implies
  all written - are in Props/C04.lean's full set when complete).
-/
import Homonim.Model.Sched
import Mathlib.Tactic.Linarith

namespace Homonim

/-- **Fail loud**: if any finished job failed, the caller sees an exception (`future.result()` re-raises) -/
theorem fail_loud (s : SState) (j pc : Nat) (h : (j, some pc) ∈ s.done) : s.outcome = .raised := by
  unfold SState.outcome
  have : s.done.any (fun d => d.2.isSome) = true := by
    rw [List.any_eq_true]; exact ⟨(j, some pc), h, rfl⟩
  simp [this]

/-- conversely the outcome is `ok` only if no finished job failed -/
theorem ok_imp_no_failure (s : SState) (h : s.outcome = .ok) : ∀ d ∈ s.done, d.2 = none := by
  unfold SState.outcome at h
  intro d hd
  cases hx : d.2 with
  | none => rfl
  | some pc =>
    have : s.done.any (fun d => d.2.isSome) = true := by
      rw [List.any_eq_true]; exact ⟨d, hd, by simp [hx]⟩
    simp [this] at h

/-- a faulting `io` step releases the lock it held and ends the job as failed; a faulting step never leaves a lock held -/
theorem fault_releases_lock (param : Bool) (faults : Faults) (s s' : SState) (t : Nat) (ts : TState) (r : Res)
    (hth : s.threads[t]? = some (some ts)) (hio : instrAt param ts.pc = some (.io r)) (hf : faults ts.job ts.pc = true)
    (hs : step param faults s t = some s') :
    s'.owner r = none ∧ s'.threads[t]? = some none ∧ (ts.job, some ts.pc) ∈ s'.done := by
  unfold step at hs
  simp only [hth, hio, hf, if_true, Option.some.injEq] at hs
  subst hs
  have ht : t < s.threads.length := (List.getElem?_eq_some_iff.mp hth).1
  refine ⟨by simp [setOwner], by simp [ht], by simp⟩

/-- the CLI wrapper: any exception becomes `click.Abort` (exit status 1); status 0 only without an exception -/
def cliExit (raised : Bool) : Nat := if raised then 1 else 0

theorem cli_exit_nonzero (raised : Bool) : cliExit raised = 0 ↔ raised = false := by
  cases raised <;> simp [cliExit]

end Homonim
