/-
  C09 — Fail loud: a failed block is never swallowed, and never hangs or leaks.

  On the block fan-out machine of Model/Sched.lean with an arbitrary fault plan, for every number of threads, every
  job list and every schedule (see Props/C04.lean for `Reachable`, the lock invariant and `progress`).
-/
import Homonim.Props.C04
import Homonim.Model.Cli

namespace Homonim

/-- **No deadlock under faults**: whatever steps fail, every reachable non-final state has an enabled thread -/
theorem no_deadlock_under_faults (param : Bool) (faults : Faults) (jobs : List Nat) (T : Nat) (hT : 0 < T) (s : SState)
    (h : Reachable param faults jobs T s) (hnf : s.final = false) : ∃ t, (step param faults s t).isSome = true :=
  progress param faults jobs T hT s h hnf

/-- **Locks are free at the end**: in a final reachable state no lock is held (also after failures) -/
theorem locks_free_at_end (param : Bool) (faults : Faults) (jobs : List Nat) (T : Nat) (s : SState)
    (h : Reachable param faults jobs T s) (hf : s.final = true) : s.locksFree = true := by
  exact final_locksFree (reachable_inv param faults jobs T s h) hf

/-- **Every submitted job finishes exactly once**: in a final reachable state the finished jobs are a permutation of the
    submitted ones (a failure of one job does not cancel the others) -/
theorem all_jobs_finish (param : Bool) (faults : Faults) (jobs : List Nat) (T : Nat) (s : SState)
    (h : Reachable param faults jobs T s) (hf : s.final = true) : (s.done.map Prod.fst).Perm jobs := by
  obtain ⟨sched, rfl⟩ := h
  exact final_done_perm (jinv_run param faults jobs T sched) hf

/-- **Fail loud**: if any finished job failed, the caller sees an exception -/
theorem fail_loud (s : SState) (j pc : Nat) (h : (j, some pc) ∈ s.done) : s.outcome = .raised := by
  exact outcome_raised_of_mem s j pc h

/-- a job whose program contains a faulting `io`/`compute` step does fail when it is run to completion: in a final
    reachable state it is recorded as failed at its first faulting step -/
theorem faulty_job_fails (param : Bool) (faults : Faults) (jobs : List Nat) (T : Nat) (s : SState)
    (h : Reachable param faults jobs T s) (hf : s.final = true) (j pc : Nat) (hj : j ∈ jobs)
    (hfault : faults j pc = true)
    (hinstr : (∃ r, instrAt param pc = some (.io r)) ∨ instrAt param pc = some .compute) :
    ∃ pc', (j, some pc') ∈ s.done := by
  obtain ⟨sched, rfl⟩ := h
  exact final_faulty_fails (jinv_run param faults jobs T sched) hf hj hfault hinstr

/-- **Outcome ok implies every block was written**: in a final reachable state with outcome `ok`, every submitted job
    completed its corrected write (and its parameter write when a parameter image is requested) -/
theorem ok_imp_all_written (param : Bool) (faults : Faults) (jobs : List Nat) (T : Nat) (s : SState)
    (h : Reachable param faults jobs T s) (hf : s.final = true) (hok : s.outcome = .ok) (j : Nat) (hj : j ∈ jobs) :
    (j, Res.C) ∈ s.writes ∧ (param = true → (j, Res.P) ∈ s.writes) := by
  obtain ⟨sched, rfl⟩ := h
  exact final_ok_written (jinv_run param faults jobs T sched) hf hok hj


/-- conversely the outcome is `ok` only if no finished job failed -/
theorem ok_imp_no_failure (s : SState) (h : s.outcome = .ok) : ∀ d ∈ s.done, d.2 = none := by
  unfold SState.outcome at h
  intro d hd
  cases hx : d.2 with
  | none => rfl
  | some pc =>
    have : s.done.any (fun d => d.2.isSome) = true := by
      rw [List.any_eq_true]; exact ⟨d, hd, by simp [hx]⟩
    simp [this] at h

/-- a faulting `io` step releases the lock it held and ends the job as failed; a faulting step never leaves a lock held -/
theorem fault_releases_lock (param : Bool) (faults : Faults) (s s' : SState) (t : Nat) (ts : TState) (r : Res)
    (hth : s.threads[t]? = some (some ts)) (hio : instrAt param ts.pc = some (.io r)) (hf : faults ts.job ts.pc = true)
    (hs : step param faults s t = some s') :
    s'.owner r = none ∧ s'.threads[t]? = some none ∧ (ts.job, some ts.pc) ∈ s'.done := by
  unfold step at hs
  simp only [hth, hio, hf, if_true, Option.some.injEq] at hs
  subst hs
  have ht : t < s.threads.length := (List.getElem?_eq_some_iff.mp hth).1
  refine ⟨by simp [setOwner], by simp [ht], by simp⟩

/-- the CLI wrapper: any exception becomes `click.Abort` (exit status 1); status 0 only without an exception -/
def cliExit (raised : Bool) : Nat := if raised then 1 else 0

theorem cli_exit_nonzero (raised : Bool) : cliExit raised = 0 ↔ raised = false := by
  cases raised <;> simp [cliExit]

/-! ### The commands' handlers (round 12) -/

/-- **Fail loud at the command line, whatever the run's conditions**: with the handler the three commands have, an exception
    gives exit status 1 under every assignment of the conditions (verbosity, …), and status 0 means nothing was raised -/
theorem command_exit_zero_iff (env : String → Bool) (raised : Bool) :
    commandExit cliHandler env raised = 0 ↔ raised = false := by
  cases raised <;> simp [commandExit, cliHandler, HBody.exit]

theorem command_exit_is_cliExit (env : String → Bool) (raised : Bool) : commandExit cliHandler env raised = cliExit raised := by
  cases raised <;> simp [commandExit, cliHandler, HBody.exit, cliExit]

/-- the pattern of seeded change C09-k: the abort sits in the branch for quiet runs only; a verbose run that fails exits 0 -/
theorem conditional_abort_fails_silently :
    let h : HBody := .ite "not verbose" (.log .abort) (.log .fallthrough)
    commandExit h (fun _ => true) true = 1 ∧ commandExit h (fun _ => false) true = 0 := by
  simp [commandExit, HBody.exit]

/-- a handler aborts under every condition iff every path through it ends in `abort` -/
def HBody.allAbort : HBody → Bool
  | .abort => true
  | .fallthrough => false
  | .log n => n.allAbort
  | .ite _ t e => t.allAbort && e.allAbort

theorem allAbort_exit (h : HBody) (hh : h.allAbort = true) (env : String → Bool) : h.exit env = 1 := by
  induction h with
  | abort => rfl
  | fallthrough => simp [HBody.allAbort] at hh
  | log n ih => exact ih hh
  | ite c t e iht ihe =>
    simp only [HBody.allAbort, Bool.and_eq_true] at hh
    simp only [HBody.exit]
    split
    · exact iht hh.1
    · exact ihe hh.2


end Homonim
