/-
  C10 — No clobbering, no touching inputs, no dependence on what was there before.
-/
import Homonim.Model.FS
import Mathlib.Tactic.Linarith

namespace Homonim

theorem get_put_same (fs : FS) (p : String) (c : Nat) : (fs.put p c).get p = some c := by
  simp [FS.put, FS.get, List.find?]

theorem find_filter_ne (es : FS) (p q : String) (h : q ≠ p) :
    (es.filter fun e => e.1 != p).find? (fun e => e.1 == q) = es.find? (fun e => e.1 == q) := by
  induction es with
  | nil => rfl
  | cons e es ih =>
    by_cases he : e.1 = p
    · have hq : (e.1 == q) = false := by
        rw [beq_eq_false_iff_ne]; intro e'; exact h (by rw [← e', he])
      have hf : (e.1 != p) = false := by simp [he]
      rw [List.filter_cons, hf, List.find?_cons, hq]
      simpa using ih
    · have hf : (e.1 != p) = true := by simp [he]
      rw [List.filter_cons, hf]
      simp only [if_true, List.find?_cons]
      cases (e.1 == q) <;> simp [ih]

theorem get_put_other (fs : FS) (p q : String) (c : Nat) (h : q ≠ p) : (fs.put p c).get q = fs.get q := by
  unfold FS.put FS.get
  have hqp : ((p, c).1 == q) = false := by
    rw [beq_eq_false_iff_ne]; exact fun e => h e.symm
  rw [List.find?_cons, hqp]
  simp only
  rw [find_filter_ne fs p q h]

/-- **No clobbering**: without `overwrite`, if the corrected file or the parameter file exists the call fails with
    FileExistsError and the file system is exactly as before - nothing created, nothing truncated. -/
theorem no_overwrite_no_change (fs : FS) (c : Call) (hov : c.overwrite = false)
    (hex : fs.exists' c.corr = true ∨ ∃ p, c.param = some p ∧ fs.exists' p = true) :
    processCall fs c = (fs, .fileExists) := by
  unfold processCall
  rcases hex with h | ⟨p, hp, h⟩
  · simp [hov, h]
  · by_cases hc : fs.exists' c.corr = true
    · simp [hov, hc]
    · simp [hov, hc, hp, h, FS.paramExists]

/-- **Inputs (and every other file) are untouched**: a path that is not one of the two requested outputs has the same
    content after the call, whatever the outcome -/
theorem inputs_untouched (fs : FS) (c : Call) (q : String) (hq : q ≠ c.corr) (hqp : ∀ p, c.param = some p → q ≠ p) :
    (processCall fs c).1.get q = fs.get q := by
  unfold processCall
  by_cases h1 : (!c.overwrite && fs.exists' c.corr) = true
  · rw [if_pos h1]
  · rw [if_neg h1]
    by_cases h2 : (!c.overwrite && fs.paramExists c.param) = true
    · rw [if_pos h2]
    · rw [if_neg h2]
      cases hp : c.param with
      | none => simp only [FS.putParam]; exact get_put_other fs c.corr q _ hq
      | some p =>
        simp only [FS.putParam]
        rw [get_put_other _ p q _ (hqp p hp), get_put_other fs c.corr q _ hq]

/-- **No files other than the requested outputs appear** -/
theorem only_requested_outputs (fs : FS) (c : Call) (q : String) (hnew : (processCall fs c).1.exists' q = true)
    (hold : fs.exists' q = false) : q = c.corr ∨ c.param = some q := by
  by_contra hcon
  push Not at hcon
  have := inputs_untouched fs c q hcon.1 (fun p hp hqp => hcon.2 (by rw [hp, hqp]))
  unfold FS.exists' at hnew hold
  rw [this] at hnew
  rw [hnew] at hold
  cases hold

/-- **A successful call leaves exactly this configuration's content in the outputs** (whatever was there) -/
theorem overwrite_replaces (fs : FS) (c : Call) (hok : (processCall fs c).2 = .ok)
    (hdist : ∀ p, c.param = some p → p ≠ c.corr) :
    (processCall fs c).1.get c.corr = some c.corrContent ∧
      ∀ p, c.param = some p → (processCall fs c).1.get p = some c.paramContent := by
  unfold processCall at hok ⊢
  by_cases h1 : (!c.overwrite && fs.exists' c.corr) = true
  · rw [if_pos h1] at hok; cases hok
  · rw [if_neg h1] at hok ⊢
    by_cases h2 : (!c.overwrite && fs.paramExists c.param) = true
    · rw [if_pos h2] at hok; cases hok
    · rw [if_neg h2]
      cases hp : c.param with
      | none => exact ⟨get_put_same _ _ _, by intro p h; cases h⟩
      | some p =>
        simp only [FS.putParam]
        refine ⟨?_, ?_⟩
        · rw [get_put_other _ p c.corr _ (fun e => hdist p hp e.symm)]; exact get_put_same _ _ _
        · intro p' hp'; cases hp'; exact get_put_same _ _ _

/-- **History independence**: after any history, a successful call leaves in its outputs what the same call leaves on an
    empty directory - the result never depends on earlier runs with the same object or path. -/
theorem history_independent (fs : FS) (hist : List Call) (c : Call)
    (hok : (processCall (runHistory fs hist).1 c).2 = .ok) (hdist : ∀ p, c.param = some p → p ≠ c.corr) :
    (processCall (runHistory fs hist).1 c).1.get c.corr = (processCall [] c).1.get c.corr ∧
      ∀ p, c.param = some p → (processCall (runHistory fs hist).1 c).1.get p = (processCall [] c).1.get p := by
  have hfresh : (processCall [] c).2 = .ok := by
    unfold processCall
    cases c.param <;> simp [FS.exists', FS.get, FS.paramExists]
  obtain ⟨a1, a2⟩ := overwrite_replaces _ c hok hdist
  obtain ⟨b1, b2⟩ := overwrite_replaces [] c hfresh hdist
  exact ⟨by rw [a1, b1], fun p hp => by rw [a2 p hp, b2 p hp]⟩

/-- other files survive every history: a path never named as an output keeps its content -/
theorem history_untouched (fs : FS) (hist : List Call) (q : String)
    (hq : ∀ c ∈ hist, q ≠ c.corr ∧ ∀ p, c.param = some p → q ≠ p) : (runHistory fs hist).1.get q = fs.get q := by
  induction hist generalizing fs with
  | nil => rfl
  | cons c cs ih =>
    simp only [runHistory]
    rw [ih _ (fun c' hc' => hq c' (List.mem_cons_of_mem _ hc'))]
    exact inputs_untouched fs c q (hq c List.mem_cons_self).1 (hq c List.mem_cons_self).2

/-! non-vacuity -/
example : runHistory [("src.tif", 1), ("out.tif", 9)]
    [⟨"out.tif", some "out_PARAM.tif", false, 5, 6⟩, ⟨"out.tif", some "out_PARAM.tif", true, 5, 6⟩] =
    ([("out_PARAM.tif", 6), ("out.tif", 5), ("src.tif", 1)], [.fileExists, .ok]) := by decide

/-- **Witness (finding D44)**: the refusal is atomic per `process()` call (`no_overwrite_no_change`), not per command line - the
    `fuse` command calls `process()` once per source, so an invocation over two sources of which the *second* one's output exists
    creates the first one's outputs and only then fails: the file system after the refused invocation is not the one before it. -/
theorem multi_source_invocation_not_atomic :
    let fs : FS := [("b_FUSE.tif", 7)]
    let calls : List Call := [⟨"a_FUSE.tif", none, false, 1, 0⟩, ⟨"b_FUSE.tif", none, false, 2, 0⟩]
    (runHistory fs calls).2 = [.ok, .fileExists] ∧ (runHistory fs calls).1 ≠ fs ∧ (runHistory fs calls).1.get "b_FUSE.tif" = some 7 := by
  decide

end Homonim
