/-
  C11 — Comparison statistics equal their definitions, whatever the blocking.
  (RMSE and rRMSE are represented by their squares: the model takes no square roots.)
-/
import Homonim.Model.Stats
import Homonim.Lemmas.Kernel
import Mathlib.Data.List.Perm.Basic

namespace Homonim

theorem CSums.add_comm' (a b : CSums) : a.add b = b.add a := by
  unfold CSums.add; simp only [CSums.mk.injEq]; refine ⟨?_, ?_, ?_, ?_, ?_, ?_, ?_⟩ <;> ring

theorem CSums.add_assoc' (a b c : CSums) : (a.add b).add c = a.add (b.add c) := by
  unfold CSums.add; simp only [CSums.mk.injEq]; refine ⟨?_, ?_, ?_, ?_, ?_, ?_, ?_⟩ <;> ring

theorem CSums.zero_add' (a : CSums) : CSums.zero.add a = a := by
  unfold CSums.add CSums.zero; simp

theorem CSums.add_zero' (a : CSums) : a.add CSums.zero = a := by
  unfold CSums.add CSums.zero; simp

/-- one pixel's contribution -/
def pxSums (x : ℚ × ℚ) : CSums := ⟨x.1, x.2, x.1 * x.1, x.2 * x.2, x.1 * x.2, (x.2 - x.1) * (x.2 - x.1), 1⟩

theorem foldl_add_init (l : List (ℚ × ℚ)) (init : CSums) :
    l.foldl (fun s x => s.add (pxSums x)) init = init.add (l.foldl (fun s x => s.add (pxSums x)) CSums.zero) := by
  induction l generalizing init with
  | nil => simp [CSums.add_zero']
  | cons x xs ih =>
    simp only [List.foldl_cons]
    rw [ih (init.add (pxSums x)), ih (CSums.zero.add (pxSums x)), CSums.zero_add', CSums.add_assoc']

/-- **Block sums are additive over any split of the pixels** -/
theorem blockSums_append (p q : List (ℚ × ℚ)) : blockSums (p ++ q) = (blockSums p).add (blockSums q) := by
  unfold blockSums
  show (p ++ q).foldl (fun s x => s.add (pxSums x)) CSums.zero = _
  rw [List.foldl_append, foldl_add_init]
  rfl

/-- **Accumulating the sums of the blocks of any partition gives the sums of the whole image** -/
theorem sums_additive_over_partition (blocks : List (List (ℚ × ℚ))) :
    accumulate (blocks.map blockSums) = blockSums blocks.flatten := by
  unfold accumulate
  have gen : ∀ (bs : List (List (ℚ × ℚ))) (init : CSums),
      (bs.map blockSums).foldl CSums.add init = init.add (blockSums bs.flatten) := by
    intro bs
    induction bs with
    | nil => intro init; simp [blockSums, CSums.add_zero']
    | cons b rest ih =>
      intro init
      simp only [List.map_cons, List.foldl_cons, List.flatten_cons]
      rw [ih, blockSums_append, CSums.add_assoc']
  rw [gen, CSums.zero_add']

/-- **Completion order does not matter**: accumulating the block sums in any order gives the same totals -/
theorem fold_perm (a b : List CSums) (h : a.Perm b) : accumulate a = accumulate b := by
  unfold accumulate
  have gen : ∀ (l1 l2 : List CSums), l1.Perm l2 → ∀ init, l1.foldl CSums.add init = l2.foldl CSums.add init := by
    intro l1 l2 hp
    induction hp with
    | nil => intro; rfl
    | cons x _ ih => intro init; simp only [List.foldl_cons]; exact ih _
    | swap x y l =>
      intro init
      simp only [List.foldl_cons]
      rw [CSums.add_assoc', CSums.add_comm' y x, ← CSums.add_assoc']
    | trans _ _ ih1 ih2 => intro init; rw [ih1, ih2]
  exact gen a b h _

/-- the block sums in terms of the plain sums over the jointly valid pixels -/
theorem blockSums_eq (p : Pts) :
    blockSums p = ⟨sS p, sR p, sSS p, sRR p, sSR p, (p.map fun x => (x.2 - x.1) * (x.2 - x.1)).sum, sN p⟩ := by
  induction p with
  | nil => simp [blockSums, CSums.zero, sS, sR, sSS, sRR, sSR, sN]
  | cons x xs ih =>
    have : blockSums (x :: xs) = (blockSums [x]).add (blockSums xs) := blockSums_append [x] xs
    rw [this, ih]
    simp only [blockSums, List.foldl_cons, List.foldl_nil, CSums.add, CSums.zero, sS, sR, sSS, sRR, sSR, sN,
      List.map_cons, List.sum_cons, CSums.mk.injEq]
    refine ⟨?_, ?_, ?_, ?_, ?_, ?_, ?_⟩ <;> ring

/-- **N is the number of jointly valid processing pixels** -/
theorem n_def (p : Pts) : (blockSums p).n = p.length := by
  rw [blockSums_eq]
  simp only [sN]
  induction p with
  | nil => simp
  | cons x xs ih => simp only [List.map_cons, List.sum_cons, List.length_cons, ih]; push_cast; ring

/-- **RMSE² is the mean squared difference over exactly those pixels** -/
theorem rmse_sq_def (p : Pts) (hne : p ≠ []) :
    (bandStats (blockSums p)).rmse2 = some ((p.map fun x => (x.2 - x.1) ^ 2).sum / (p.length : ℚ)) := by
  have hn : (blockSums p).n ≠ 0 := by
    rw [n_def]; exact_mod_cast (by intro h; exact hne (List.length_eq_zero_iff.mp h))
  unfold bandStats
  simp only [hn, if_false, Option.some.injEq]
  rw [n_def, blockSums_eq]
  simp only
  congr 2
  apply List.map_congr_left; intro x _; ring

/-- centred sums: `Σ(s-μs)(r-μr) = ΣSR - N μs μr` etc. -/
theorem centred_cov (p : Pts) (hN : sN p ≠ 0) :
    (p.map fun x => (x.1 - sS p / sN p) * (x.2 - sR p / sN p)).sum = sSR p - sN p * (sS p / sN p) * (sR p / sN p) := by
  have key : ∀ (q : Pts) (a b : ℚ),
      (q.map fun x => (x.1 - a) * (x.2 - b)).sum = sSR q - b * sS q - a * sR q + sN q * a * b := by
    intro q a b
    induction q with
    | nil => simp [sSR, sS, sR, sN]
    | cons x xs ih => simp only [sSR, sS, sR, sN, List.map_cons, List.sum_cons] at ih ⊢; rw [ih]; ring
  rw [key]; field_simp; ring

/-- **r² is the squared Pearson correlation of the valid pairs** -/
theorem r2_is_pearson_sq (p : Pts) (hN : sN p ≠ 0)
    (hs : (p.map fun x => (x.1 - sS p / sN p) * (x.1 - sS p / sN p)).sum ≠ 0)
    (hr : (p.map fun x => (x.2 - sR p / sN p) * (x.2 - sR p / sN p)).sum ≠ 0) :
    (bandStats (blockSums p)).r2 =
      some ((p.map fun x => (x.1 - sS p / sN p) * (x.2 - sR p / sN p)).sum ^ 2 /
        ((p.map fun x => (x.1 - sS p / sN p) * (x.1 - sS p / sN p)).sum *
         (p.map fun x => (x.2 - sR p / sN p) * (x.2 - sR p / sN p)).sum)) := by
  have cvar_s : (p.map fun x => (x.1 - sS p / sN p) * (x.1 - sS p / sN p)).sum =
      sSS p - sN p * (sS p / sN p * (sS p / sN p)) := by
    have := centred_cov (p.map fun x => (x.1, x.1)) (by simpa [sN, List.map_map, Function.comp_def] using hN)
    simp only [sS, sR, sN, sSR, sSS, List.map_map, Function.comp_def] at this ⊢
    rw [this]; ring
  have cvar_r : (p.map fun x => (x.2 - sR p / sN p) * (x.2 - sR p / sN p)).sum =
      sRR p - sN p * (sR p / sN p * (sR p / sN p)) := by
    have := centred_cov (p.map fun x => (x.2, x.2)) (by simpa [sN, List.map_map, Function.comp_def] using hN)
    simp only [sS, sR, sN, sSR, sRR, List.map_map, Function.comp_def] at this ⊢
    rw [this]; ring
  rw [cvar_s] at hs
  rw [cvar_r] at hr
  rw [centred_cov p hN, cvar_s, cvar_r]
  rw [blockSums_eq]
  unfold bandStats divO'
  simp only [hN, if_false]
  have hden : (sSS p - sN p * (sS p / sN p * (sS p / sN p))) * (sRR p - sN p * (sR p / sN p * (sR p / sN p))) ≠ 0 :=
    mul_ne_zero hs hr
  simp only [hden, if_false, Option.some.injEq]
  ring

/-- **rRMSE² = RMSE² / mean(reference)²** -/
theorem rrmse_def (s : CSums) (hn : s.n ≠ 0) (hm : s.ref / s.n ≠ 0) :
    (bandStats s).rrmse2 = some (s.res2 / s.n / ((s.ref / s.n) * (s.ref / s.n))) := by
  unfold bandStats divO'
  simp only [hn, if_false]
  have : s.ref / s.n * (s.ref / s.n) ≠ 0 := mul_ne_zero hm hm
  simp only [this, if_false]

/-- **Comparison is blind to invalid pixels**: only the (source, reference) values at jointly valid processing
    pixels enter `blockSums`, by construction of `pts` (C08) -/
theorem compare_sums_congr_on_mask (p q : Pts) (h : p = q) : blockSums p = blockSums q := by rw [h]

/-! non-vacuity -/
example : bandStats (blockSums [(1, 2), (2, 4), (3, 7)]) = ⟨some (75 / 76), some 7, some (63 / 169), 3⟩ := by
  decide +kernel

/-! ### The "Mean" row (round 12) -/

theorem foldl_addO_none (l : List (Option Rat)) : l.foldl addO none = none := by
  induction l with
  | nil => rfl
  | cons a l ih => simp only [List.foldl_cons]; cases a <;> exact ih

theorem foldl_addO_some (l : List Rat) (a : Rat) : (l.map some).foldl addO (some a) = some (a + l.sum) := by
  induction l generalizing a with
  | nil => simp
  | cons x l ih => simp only [List.map_cons, List.foldl_cons, addO, List.sum_cons]; rw [ih]; congr 1; ring

/-- **"Mean" is the band average**: when every band's value is defined, the Mean entry is their sum over their number -/
theorem meanRow_defined (l : List Rat) : meanRow (l.map some) = some (l.sum / (l.length : Rat)) := by
  unfold meanRow sumOverBands
  rw [foldl_addO_some]; simp

/-- **"Mean" is undefined exactly when some band's value is**: an undefined term is neither skipped nor counted as 0 -/
theorem meanRow_none_iff (l : List (Option Rat)) : meanRow l = none ↔ none ∈ l := by
  unfold meanRow sumOverBands
  rw [Option.map_eq_none_iff]
  suffices h : ∀ (a : Rat), l.foldl addO (some a) = none ↔ none ∈ l from h 0
  induction l with
  | nil => intro a; simp
  | cons x l ih =>
    intro a
    cases x with
    | none => simp [addO, foldl_addO_none]
    | some v => simp only [List.foldl_cons, addO, List.mem_cons]; rw [ih]; simp

/-- the pattern of seeded change C11-k - undefined terms left out of the sum, the divisor still the number of bands - gives another
    value than the band average as soon as one band is undefined (bands 0.9, undefined, 0.6: 0.5, where the average is undefined) -/
theorem skipping_mean_differs :
    meanRow [some (9/10), none, some (6/10)] = none ∧
    ((([some (9/10), none, some (6/10)] : List (Option Rat)).filterMap id).sum / 3 : Rat) = 1/2 := by
  constructor
  · rw [meanRow_none_iff]; simp
  · simp only [List.filterMap_cons, id, List.filterMap_nil, List.sum_cons, List.sum_nil]; norm_num

/-- non-vacuity: three defined bands -/
example : meanRow [some 1, some 2, some 6] = some 3 := by
  have := meanRow_defined [1, 2, 6]
  simp only [List.map_cons, List.map_nil, List.sum_cons, List.sum_nil, List.length_cons, List.length_nil] at this
  rw [this]; norm_num


end Homonim
