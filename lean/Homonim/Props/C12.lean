/-
  C12 — Parameter statistics equal their definitions and agree with what fuse wrote.
  (std is represented by its square: the model takes no square roots.)
-/
import Homonim.Model.Stats
import Mathlib.Tactic.Ring
import Mathlib.Tactic.Linarith
import Mathlib.Tactic.FieldSimp
import Mathlib.Algebra.BigOperators.Group.List.Basic
import Mathlib.Algebra.Order.Field.Basic
import Mathlib.Data.Rat.Defs
import Mathlib.Data.List.Perm.Basic

namespace Homonim

theorem optMin_comm (a b : Option ℚ) : optMin a b = optMin b a := by
  cases a <;> cases b <;> simp only [optMin]
  rename_i x y
  by_cases h : x ≤ y <;> by_cases h' : y ≤ x <;> simp [h, h'] <;> linarith

theorem optMax_comm (a b : Option ℚ) : optMax a b = optMax b a := by
  cases a <;> cases b <;> simp only [optMax]
  rename_i x y
  by_cases h : x ≤ y <;> by_cases h' : y ≤ x <;> simp [h, h'] <;> linarith

theorem optMin_assoc (a b c : Option ℚ) : optMin (optMin a b) c = optMin a (optMin b c) := by
  cases a <;> cases b <;> cases c <;> simp only [optMin]
  rename_i x y z
  by_cases h1 : x ≤ y <;> by_cases h2 : y ≤ z <;> by_cases h3 : x ≤ z <;> simp [h1, h2, h3] <;> linarith

theorem optMax_assoc (a b c : Option ℚ) : optMax (optMax a b) c = optMax a (optMax b c) := by
  cases a <;> cases b <;> cases c <;> simp only [optMax]
  rename_i x y z
  by_cases h1 : x ≤ y <;> by_cases h2 : y ≤ z <;> by_cases h3 : x ≤ z <;> simp [h1, h2, h3] <;> linarith

theorem PAcc.add_comm' (a b : PAcc) : a.add b = b.add a := by
  unfold PAcc.add
  simp only [PAcc.mk.injEq]
  exact ⟨optMin_comm _ _, optMax_comm _ _, by ring, by ring, by omega, by omega⟩

theorem PAcc.add_assoc' (a b c : PAcc) : (a.add b).add c = a.add (b.add c) := by
  unfold PAcc.add
  simp only [PAcc.mk.injEq]
  exact ⟨optMin_assoc _ _ _, optMax_assoc _ _ _, by ring, by ring, by omega, by omega⟩

theorem PAcc.zero_add' (a : PAcc) : PAcc.zero.add a = a := by
  unfold PAcc.add PAcc.zero; cases a; simp [optMin, optMax]

theorem PAcc.add_zero' (a : PAcc) : a.add PAcc.zero = a := by
  rw [PAcc.add_comm', PAcc.zero_add']

/-- one pixel's contribution to the accumulator -/
def pxAcc (thresh : Option ℚ) (v : ℚ) : PAcc :=
  ⟨some v, some v, v, v * v, 1, match thresh with | some t => if v < t then 1 else 0 | none => 0⟩

theorem foldl_pacc_init (th : Option ℚ) (l : List ℚ) (init : PAcc) :
    l.foldl (fun a v => a.add (pxAcc th v)) init = init.add (l.foldl (fun a v => a.add (pxAcc th v)) PAcc.zero) := by
  induction l generalizing init with
  | nil => simp [PAcc.add_zero']
  | cons x xs ih =>
    simp only [List.foldl_cons]
    rw [ih (init.add (pxAcc th x)), ih (PAcc.zero.add (pxAcc th x)), PAcc.zero_add', PAcc.add_assoc']

theorem tileAcc_append (th : Option ℚ) (a b : List ℚ) : tileAcc th (a ++ b) = (tileAcc th a).add (tileAcc th b) := by
  show (a ++ b).foldl (fun acc v => acc.add (pxAcc th v)) PAcc.zero = _
  rw [List.foldl_append, foldl_pacc_init]
  rfl

/-- **Tiling does not matter**: accumulating tile by tile over any tiling of the band gives the accumulator of all its
    valid pixels -/
theorem tile_partition_invariant (th : Option ℚ) (tiles : List (List ℚ)) :
    (tiles.map (tileAcc th)).foldl PAcc.add PAcc.zero = tileAcc th tiles.flatten := by
  have gen : ∀ (ts : List (List ℚ)) (init : PAcc),
      (ts.map (tileAcc th)).foldl PAcc.add init = init.add (tileAcc th ts.flatten) := by
    intro ts
    induction ts with
    | nil => intro init; simp [tileAcc, PAcc.add_zero']
    | cons t rest ih =>
      intro init
      simp only [List.map_cons, List.foldl_cons, List.flatten_cons]
      rw [ih, tileAcc_append, PAcc.add_assoc']
  rw [gen, PAcc.zero_add']

/-- **Completion order does not matter** -/
theorem pacc_fold_perm (a b : List PAcc) (h : a.Perm b) : a.foldl PAcc.add PAcc.zero = b.foldl PAcc.add PAcc.zero := by
  have gen : ∀ (l1 l2 : List PAcc), l1.Perm l2 → ∀ init, l1.foldl PAcc.add init = l2.foldl PAcc.add init := by
    intro l1 l2 hp
    induction hp with
    | nil => intro; rfl
    | cons x _ ih => intro init; simp only [List.foldl_cons]; exact ih _
    | swap x y l =>
      intro init
      simp only [List.foldl_cons]
      rw [PAcc.add_assoc', PAcc.add_comm' y x, ← PAcc.add_assoc']
    | trans _ _ ih1 ih2 => intro init; rw [ih1, ih2]
  exact gen a b h _

/-- **Skipping tiles without valid pixels is sound**: an empty tile contributes the neutral accumulator -/
theorem skip_sound (th : Option ℚ) (acc : PAcc) : acc.add (tileAcc th []) = acc := by
  simp [tileAcc, PAcc.add_zero']

/-- ... but deciding *which* tiles to skip from the first band's mask is not: a tile that is empty in band 1 can hold
    valid pixels of another band, and skipping it changes that band's statistics (defect D6, kept as a witness) -/
theorem skip_sound_band1_counterexample :
    ∃ (band2_tiles : List (List ℚ)),
      -- tile 0 is empty in band 1 (so it was skipped for every band) but not in band 2
      (band2_tiles.map (tileAcc none)).foldl PAcc.add PAcc.zero ≠
        ((band2_tiles.drop 1).map (tileAcc none)).foldl PAcc.add PAcc.zero :=
  ⟨[[5], [1]], by decide +kernel⟩

/-- the accumulator in closed form -/
theorem tileAcc_sums (th : Option ℚ) (l : List ℚ) :
    (tileAcc th l).sum = l.sum ∧ (tileAcc th l).sum2 = (l.map fun v => v * v).sum ∧ (tileAcc th l).n = l.length ∧
    (tileAcc th l).inpaint = match th with | some t => (l.filter fun v => decide (v < t)).length | none => 0 := by
  induction l with
  | nil => cases th <;> simp [tileAcc, PAcc.zero]
  | cons x xs ih =>
    have h : tileAcc th (x :: xs) = (tileAcc th [x]).add (tileAcc th xs) := tileAcc_append th [x] xs
    have hx : tileAcc th [x] = pxAcc th x := by
      show ([x] : List ℚ).foldl (fun acc v => acc.add (pxAcc th v)) PAcc.zero = _
      simp [PAcc.zero_add']
    obtain ⟨i1, i2, i3, i4⟩ := ih
    rw [h, hx]
    simp only [PAcc.add, pxAcc]
    rw [i1, i2, i3, i4]
    simp only [List.sum_cons, List.map_cons, List.length_cons]
    refine ⟨trivial, trivial, by omega, ?_⟩
    cases th with
    | none => simp
    | some t =>
      simp only [List.filter_cons]
      by_cases hx' : x < t <;> simp [hx'] <;> omega

/-- **Mean** = sum of the valid pixels / their number -/
theorem mean_def (th : Option ℚ) (l : List ℚ) (hne : l ≠ []) (wi : Bool) :
    (paramStats (tileAcc th l) wi).mean = some (l.sum / (l.length : ℚ)) := by
  obtain ⟨h1, _, h3, _⟩ := tileAcc_sums th l
  have hl : l.length ≠ 0 := by intro h; exact hne (List.length_eq_zero_iff.mp h)
  unfold paramStats
  simp only [h1, h3, hl, if_false]

/-- **One-pass variance = population variance**: `Σx²/n - (Σx)²/n² = (1/n) Σ (x - μ)²` -/
theorem var_one_pass_eq_population_var (th : Option ℚ) (l : List ℚ) (hne : l ≠ []) (wi : Bool) :
    (paramStats (tileAcc th l) wi).var =
      some ((l.map fun x => (x - l.sum / (l.length : ℚ)) ^ 2).sum / (l.length : ℚ)) := by
  obtain ⟨h1, h2, h3, _⟩ := tileAcc_sums th l
  have hl : l.length ≠ 0 := by intro h; exact hne (List.length_eq_zero_iff.mp h)
  have hlen : (l.length : ℚ) ≠ 0 := by exact_mod_cast hl
  unfold paramStats
  simp only [h1, h2, h3, hl, if_false, Option.some.injEq]
  have key : ∀ (m : List ℚ) (mu : ℚ), (m.map fun x => (x - mu) ^ 2).sum =
      (m.map fun v => v * v).sum - 2 * mu * m.sum + (m.length : ℚ) * mu ^ 2 := by
    intro m mu
    induction m with
    | nil => simp
    | cons y ys ih => simp only [List.map_cons, List.sum_cons, List.length_cons, ih]; push_cast; ring
  -- the clamp at 0 never bites in exact arithmetic: the one-pass expression is the (non-negative) population variance
  have hpos : 0 ≤ (l.map fun x => (x - l.sum / (l.length : ℚ)) ^ 2).sum / (l.length : ℚ) := by
    apply div_nonneg
    · have nn : ∀ m : List ℚ, (∀ y ∈ m, 0 ≤ y) → 0 ≤ m.sum := by
        intro m
        induction m with
        | nil => intro _; simp
        | cons y ys ih =>
          intro h
          rw [List.sum_cons]
          exact add_nonneg (h y List.mem_cons_self) (ih fun z hz => h z (List.mem_cons_of_mem _ hz))
      apply nn
      intro y hy
      obtain ⟨x, _, rfl⟩ := List.mem_map.mp hy
      positivity
    · positivity
  have heq : (l.map fun v => v * v).sum / (l.length : ℚ) - l.sum * l.sum / ((l.length : ℚ) * (l.length : ℚ)) =
      (l.map fun x => (x - l.sum / (l.length : ℚ)) ^ 2).sum / (l.length : ℚ) := by
    rw [key]
    field_simp
    ring
  rw [heq, max_eq_left hpos]

/-- **In-paint percentage** = 100 · #{valid R² < threshold} / n -/
theorem inpaint_pct_def (t : ℚ) (l : List ℚ) (hne : l ≠ []) :
    (paramStats (tileAcc (some t) l) true).inpaintP =
      some (100 * ((l.filter fun v => decide (v < t)).length : ℚ) / (l.length : ℚ)) := by
  obtain ⟨_, _, h3, h4⟩ := tileAcc_sums (some t) l
  have hl : l.length ≠ 0 := by intro h; exact hne (List.length_eq_zero_iff.mp h)
  unfold paramStats
  simp only [h3, h4, hl, if_false, if_true]

/-- **Min / max**: the reported minimum is a lower bound attained by some valid pixel (and dually the maximum) -/
theorem min_max_def (th : Option ℚ) (l : List ℚ) (hne : l ≠ []) :
    (∃ m, (tileAcc th l).min = some m ∧ m ∈ l ∧ ∀ x ∈ l, m ≤ x) ∧
    (∃ M, (tileAcc th l).max = some M ∧ M ∈ l ∧ ∀ x ∈ l, x ≤ M) := by
  induction l with
  | nil => exact absurd rfl hne
  | cons x xs ih =>
    have h : tileAcc th (x :: xs) = (tileAcc th [x]).add (tileAcc th xs) := tileAcc_append th [x] xs
    have hx : tileAcc th [x] = pxAcc th x := by
      show ([x] : List ℚ).foldl (fun acc v => acc.add (pxAcc th v)) PAcc.zero = _
      simp [PAcc.zero_add']
    by_cases hxs : xs = []
    · subst hxs
      rw [hx]
      exact ⟨⟨x, rfl, List.mem_cons_self, by intro y hy; simp at hy; rw [hy]⟩,
        ⟨x, rfl, List.mem_cons_self, by intro y hy; simp at hy; rw [hy]⟩⟩
    · obtain ⟨⟨m, hm, hmm, hml⟩, ⟨M, hM, hMm, hMl⟩⟩ := ih hxs
      rw [h, hx]
      constructor
      · simp only [PAcc.add, pxAcc, hm, optMin]
        by_cases hc : x ≤ m
        · refine ⟨x, by simp [hc], List.mem_cons_self, ?_⟩
          intro y hy; rcases List.mem_cons.mp hy with rfl | hy'
          · exact le_refl _
          · exact le_trans hc (hml y hy')
        · refine ⟨m, by simp [hc], List.mem_cons_of_mem _ hmm, ?_⟩
          intro y hy; rcases List.mem_cons.mp hy with rfl | hy'
          · linarith
          · exact hml y hy'
      · simp only [PAcc.add, pxAcc, hM, optMax]
        by_cases hc : x ≤ M
        · refine ⟨M, by simp [hc], List.mem_cons_of_mem _ hMm, ?_⟩
          intro y hy; rcases List.mem_cons.mp hy with rfl | hy'
          · exact hc
          · exact hMl y hy'
        · refine ⟨x, by simp [hc], List.mem_cons_self, ?_⟩
          intro y hy; rcases List.mem_cons.mp hy with rfl | hy'
          · exact le_refl _
          · have := hMl y hy'; linarith

/-- **Which bands are R² bands**: of a 3n-band image exactly the last n (0-based index ≥ 2n) -/
theorem r2_bands (n b : Nat) : isR2Band (3 * n) b = decide (2 * n ≤ b) := by
  unfold isR2Band
  by_cases h : 2 * n ≤ b <;> simp [h] <;> omega

/-! non-vacuity -/
example : paramStats (tileAcc (some (1/4)) [1/2, 1/8, 3/4]) true =
    ⟨some (11/24), some (19/288), some (1/8), some (3/4), some (100/3)⟩ := by decide +kernel

end Homonim
