/-
  C13 — Output encoding is transparent: rounding, saturation and masks only.
-/
import Homonim.Model.Convert
import Homonim.Lemmas.Geom

namespace Homonim

/-- **Rounded to nearest**: `rhe a d` is within half a unit of `a/d`: `2·|rhe a d · d - a| ≤ d` -/
theorem rhe_nearest (a d : Int) (hd : 0 < d) : 2 * (rhe a d * d - a) ≤ d ∧ -d ≤ 2 * (rhe a d * d - a) := by
  have h1 := Int.emod_add_mul_ediv a d
  have h2 := Int.emod_nonneg a (ne_of_gt hd)
  have h3 := Int.emod_lt_of_pos a hd
  unfold rhe
  simp only
  split_ifs <;> constructor <;> nlinarith

/-- **Half-up is not half-even** (seeded change C13-j): away from ties `floor(x + 1/2)` and round-half-even agree - in exact
    arithmetic - but at a tie whose lower neighbour is even they differ by one (0.5 → 0 vs 1, 2.5 → 2 vs 3, 254.5 → 254 vs 255, the
    last one turning a valid pixel into the nodata value 255) -/
theorem rhe_eq_half_up_off_ties (a d : Int) (hd : 0 < d) (hnt : 2 * (a % d) ≠ d) : rhe a d = (2 * a + d) / (2 * d) := by
  have h1 := Int.emod_nonneg a (ne_of_gt hd)
  have h2 := Int.emod_lt_of_pos a hd
  have h3 := Int.mul_ediv_add_emod a d
  have hb : 0 < 2 * d := by omega
  have key : ∀ q : Int, q * (2 * d) ≤ 2 * a + d → 2 * a + d < (q + 1) * (2 * d) → (2 * a + d) / (2 * d) = q := by
    intro q hlo hhi
    have l1 := Int.le_ediv_of_mul_le hb hlo
    have l2 := Int.ediv_lt_of_lt_mul hb hhi
    omega
  have e1 : a / d * (2 * d) = 2 * (d * (a / d)) := by ring
  have e2 : (a / d + 1) * (2 * d) = 2 * (d * (a / d)) + 2 * d := by ring
  have e3 : (a / d + 1 + 1) * (2 * d) = 2 * (d * (a / d)) + 4 * d := by ring
  unfold rhe
  simp only
  split
  · exact (key (a / d) (by rw [e1]; omega) (by rw [e2]; omega)).symm
  · split
    · exact (key (a / d + 1) (by rw [e2]; omega) (by rw [e3]; omega)).symm
    · exfalso; omega

theorem half_up_differs_at_even_ties : rhe 1 2 = 0 ∧ (2 * 1 + 2) / (2 * 2) = (1 : Int) ∧ rhe 509 2 = 254 ∧ (2 * 509 + 2) / (2 * 2) = (255 : Int) := by
  decide

/-- **Ties go to even** -/
theorem rhe_tie_even (a d : Int) (hd : 0 < d) (htie : 2 * (a % d) = d) : rhe a d % 2 = 0 := by
  unfold rhe
  simp only
  have : ¬ (2 * (a % d) < d) := by omega
  have h2 : ¬ (d < 2 * (a % d)) := by omega
  simp only [this, h2, if_false]
  split_ifs with he
  · exact he
  · omega

/-- **Valid pixels**: a finite float32 value becomes the nearest integer (ties to even) clamped into the range -/
theorem convert_valid (lo hi : Int) (nd : OutNodata) (q : ℚ) :
    convertPx (.int lo hi) nd (.fin q) = (.ival (clampInt lo hi (roundRat q)), true) := by
  simp [convertPx]

/-- **Never wraps**: whatever the input (finite of any size, ±∞) the stored integer lies in the type's range -/
theorem never_wraps (lo hi : Int) (hlh : lo ≤ hi) (nd : OutNodata) (x : XVal) (hx : x ≠ .nan) (n : Int) (b : Bool)
    (h : convertPx (.int lo hi) nd x = (.ival n, b)) : lo ≤ n ∧ n ≤ hi := by
  cases x with
  | fin q =>
    simp only [convertPx, Prod.mk.injEq, Stored.ival.injEq] at h
    rw [← h.1]; unfold clampInt; omega
  | pinf => simp only [convertPx, Prod.mk.injEq, Stored.ival.injEq] at h; omega
  | ninf => simp only [convertPx, Prod.mk.injEq, Stored.ival.injEq] at h; omega
  | nan => exact absurd rfl hx

/-- **Saturation**: +∞ and values at or above the maximum map to the maximum, -∞ and values at or below the minimum
    to the minimum -/
theorem convert_saturates (lo hi : Int) (hlh : lo ≤ hi) (nd : OutNodata) :
    convertPx (.int lo hi) nd .pinf = (.ival hi, true) ∧ convertPx (.int lo hi) nd .ninf = (.ival lo, true) ∧
    (∀ q : ℚ, hi ≤ roundRat q → convertPx (.int lo hi) nd (.fin q) = (.ival hi, true)) ∧
    (∀ q : ℚ, roundRat q ≤ lo → convertPx (.int lo hi) nd (.fin q) = (.ival lo, true)) := by
  refine ⟨by simp [convertPx], by simp [convertPx], ?_, ?_⟩
  · intro q hq
    have : clampInt lo hi (roundRat q) = hi := by unfold clampInt; omega
    simp [convertPx, this]
  · intro q hq
    have : clampInt lo hi (roundRat q) = lo := by unfold clampInt; omega
    simp [convertPx, this]

/-- **Invalid pixels** carry the nodata value, or a cleared bit in the internal mask when nodata is null -/
theorem convert_invalid (dt : DType) (q : ℚ) :
    (convertPx dt .null .nan).2 = false ∧
    (∀ lo hi, convertPx (.int lo hi) (.num q) .nan = (.ival q.num, false)) ∧
    convertPx .float (.num q) .nan = (.val (.fin q), false) ∧ convertPx .float .nan .nan = (.val .nan, false) := by
  refine ⟨?_, ?_, ?_, ?_⟩
  · cases dt <;> simp [convertPx]
  · intro lo hi; simp [convertPx]
  · simp [convertPx]
  · simp [convertPx]

/-- **Float targets are the identity on valid pixels** (no rounding, no clipping) -/
theorem float_targets_identity (nd : OutNodata) (x : XVal) (hx : x ≠ .nan) :
    convertPx .float nd x = (.val x, true) := by
  cases x <;> simp_all [convertPx]

/-- **A valid pixel is lost only by coinciding with the nodata value**: what a reader sees is invalid iff the float32
    pixel was invalid or its stored value equals the chosen nodata value -/
theorem valid_lost_only_by_coincidence (lo hi : Int) (k : Int) (x : XVal) (hx : x ≠ .nan) :
    readBack (.num (k : ℚ)) (convertPx (.int lo hi) (.num (k : ℚ)) x) = none ↔
      (convertPx (.int lo hi) (.num (k : ℚ)) x).1 = .ival k := by
  have hk : ((k : ℚ)).num = k := Rat.num_intCast k
  cases x with
  | nan => exact absurd rfl hx
  | fin q => simp [readBack, convertPx, hk]
  | pinf => simp [readBack, convertPx, hk]
  | ninf => simp [readBack, convertPx, hk]

/-- with a null nodata the internal mask alone decides: no valid pixel is ever lost -/
theorem null_nodata_keeps_all_valid (dt : DType) (x : XVal) (hx : x ≠ .nan) :
    (readBack .null (convertPx dt .null x)).isSome = true := by
  cases dt <;> cases x <;> simp_all [readBack, convertPx]

/-- **Nodata guard**: for an integer type the nodata value must be an integer inside the range; NaN never is -/
theorem nodata_castable_guard (lo hi : Int) (q : ℚ) :
    (nodataCastable (.int lo hi) (.num q) = true ↔ q.den = 1 ∧ lo ≤ q.num ∧ q.num ≤ hi) ∧
    nodataCastable (.int lo hi) .nan = false := by
  constructor
  · simp [nodataCastable, and_assoc]
  · rfl

/-! non-vacuity -/
example : convertPx .uint8 (.num 0) (.fin (5/2)) = (.ival 2, true) ∧ convertPx .uint8 (.num 0) (.fin (7/2)) = (.ival 4, true) ∧
    convertPx .uint8 (.num 0) (.fin 300) = (.ival 255, true) ∧ convertPx .int16 (.num 0) (.fin (-40000)) = (.ival (-32768), true) := by
  decide +kernel

end Homonim
