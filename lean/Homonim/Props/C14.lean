/-
  C14 — The parameter image is the model that was applied (band layout, labels, source-grid identity).
-/
import Homonim.Model.Layout
import Homonim.Model.Fuse
import Mathlib.Tactic.Linarith
import Mathlib.Data.List.Basic

namespace Homonim

/-- **Layout**: gain, offset and R² of the i-th of n matched bands sit in bands i, n+i and 2n+i (1-based: i+1, ...) -/
theorem param_index_layout (n i : Nat) :
    paramIndex n i 0 = i + 1 ∧ paramIndex n i 1 = n + i + 1 ∧ paramIndex n i 2 = 2 * n + i + 1 := by
  unfold paramIndex; omega

/-- **Bijection**: every band 1..3n of the parameter image holds exactly one (pair, parameter) -/
theorem param_index_bijective (n : Nat) (hn : 0 < n) (b : Nat) (hb : 1 ≤ b ∧ b ≤ 3 * n) :
    ∃! ik : Nat × Nat, ik.1 < n ∧ ik.2 < 3 ∧ paramIndex n ik.1 ik.2 = b := by
  refine ⟨((b - 1) % n, (b - 1) / n), ⟨Nat.mod_lt _ hn, ?_, ?_⟩, ?_⟩
  · exact (Nat.div_lt_iff_lt_mul hn).mpr (by omega)
  · unfold paramIndex
    have := Nat.div_add_mod' (b - 1) n
    simp only
    omega
  · rintro ⟨i, k⟩ ⟨hi, hk, hik⟩
    unfold paramIndex at hik
    simp only at hi hk hik ⊢
    have hb1 : b - 1 = k * n + i := by omega
    have hk' : (b - 1) / n = k := by
      rw [hb1, Nat.mul_comm, Nat.mul_add_div hn, Nat.div_eq_of_lt hi, Nat.add_zero]
    have hi' : (b - 1) % n = i := by
      rw [hb1, Nat.mul_comm, Nat.mul_add_mod, Nat.mod_eq_of_lt hi]
    rw [hk', hi']

/-- distinct (pair, parameter) never share a band: block writes of different bands/parameters do not collide -/
theorem param_index_injective (n i k i' k' : Nat) (hi : i < n) (hi' : i' < n)
    (h : paramIndex n i k = paramIndex n i' k') : i = i' ∧ k = k' := by
  unfold paramIndex at h
  have hk : k = k' := by
    by_contra hne
    rcases Nat.lt_or_gt_of_ne hne with hlt | hlt
    · have : (k + 1) * n ≤ k' * n := Nat.mul_le_mul_right n hlt
      nlinarith
    · have : (k' + 1) * n ≤ k * n := Nat.mul_le_mul_right n hlt
      nlinarith
  subst hk
  exact ⟨by omega, rfl⟩

theorem pyRange_three (n bi : Nat) (hn : 0 < n) (hbi : bi < n) : pyRange bi (3 * n) n = [bi, bi + n, bi + 2 * n] := by
  unfold pyRange
  have : (3 * n - bi + n - 1) / n = 3 := by
    apply Nat.div_eq_of_lt_le
    · omega
    · omega
  rw [this]
  simp [List.range_succ, Nat.mul_comm]

/-- **Labels match the layout**: the metadata loop labels band `paramIndex n i k` with parameter `k`, for every pair
    and parameter, and nothing else -/
theorem descriptions_match_layout (n : Nat) (hn : 0 < n) :
    descrAssignments n (3 * n) =
      (List.range n).flatMap fun i => [(paramIndex n i 0, 0), (paramIndex n i 1, 1), (paramIndex n i 2, 2)] := by
  unfold descrAssignments
  apply List.flatMap_congr
  intro bi hbi
  rw [List.mem_range] at hbi
  rw [pyRange_three n bi hn hbi]
  simp only [List.zip_cons_cons, List.zip_nil_right, List.map_cons, List.map_nil, paramIndex]
  simp only [Nat.zero_mul, Nat.zero_add, Nat.one_mul, List.cons.injEq, Prod.mk.injEq, and_true]
  refine ⟨trivial, by omega, by omega⟩

/-- **Accepted by stats**: the suffix expected by `validate_param_image` on band `paramIndex n i k` is `k` -/
theorem layout_accepted_by_validate (n i k : Nat) (hi : i < n) (hk : k < 3) :
    expectedSuffix n (paramIndex n i k) = k ∧ validCount (3 * n) = (n != 0) := by
  constructor
  · unfold expectedSuffix paramIndex
    have : k * n + i + 1 - 1 = n * k + i := by rw [Nat.mul_comm]; omega
    rw [this, Nat.mul_add_div (by omega), Nat.div_eq_of_lt hi, Nat.add_zero]
  · unfold validCount
    cases n with
    | zero => rfl
    | succ m => simp [Nat.mul_mod_right]

/-- **Source-grid identity**: when processing on the source grid the corrected pixel is `gain·source + offset` with
    the very parameters stored for that pixel (whatever the block partition: the parameters are per pixel) -/
theorem src_grid_apply_identity (x : ℚ) (p : Params) :
    correctedPxSrcGrid (some x) (some p) = some (p.gain * x + p.offset) := rfl

/-! non-vacuity -/
example : descrAssignments 2 6 = [(1, 0), (3, 1), (5, 2), (2, 0), (4, 1), (6, 2)] := by decide

end Homonim
