/-
  C15 — Band matching is sound: one-to-one, in range, within tolerance, order preserving.

  `matchBands srcB srcW refB refW force tol` is `_match_pair_bands` after `_get_band_info`: `srcB`/`refB` are the
  candidate 1-based band numbers (the user's selections, or the default candidates) and `srcW`/`refW` their
  wavelengths (`none` = no wavelength).  `.ok (S, R)` are the matched source / reference band lists.
-/
import Homonim.Lemmas.Bands

namespace Homonim

/-- **Equal length** -/
theorem match_lengths_eq (srcB : List Nat) (srcW : List (Option ℚ)) (refB : List Nat) (refW : List (Option ℚ))
    (force : Bool) (tol : ℚ) (S R : List Nat) (h : matchBands srcB srcW refB refW force tol = .ok (S, R)) :
    S.length = R.length := by
  obtain ⟨_, mb, mb2, _, _, rfl, rfl⟩ := matchBands_ok h
  simp

/-- **Source order is kept**: the matched source bands are a sub-list of the given order -/
theorem match_src_order (srcB : List Nat) (srcW : List (Option ℚ)) (refB : List Nat) (refW : List (Option ℚ))
    (force : Bool) (tol : ℚ) (S R : List Nat) (h : matchBands srcB srcW refB refW force tol = .ok (S, R)) :
    S.Sublist srcB := by
  obtain ⟨_, mb, mb2, _, _, rfl, rfl⟩ := matchBands_ok h
  exact pairsOf_fst_sublist _ _

/-- **Only candidate reference bands are used** -/
theorem match_ref_subset (srcB : List Nat) (srcW : List (Option ℚ)) (refB : List Nat) (refW : List (Option ℚ))
    (force : Bool) (tol : ℚ) (S R : List Nat) (hs : srcW.length = srcB.length) (hr : refW.length = refB.length)
    (h : matchBands srcB srcW refB refW force tol = .ok (S, R)) : ∀ r ∈ R, r ∈ refB := by
  obtain ⟨_, mb, mb2, h1, h2, rfl, rfl⟩ := matchBands_ok h
  have hout := stage2_mbOut _ _ _ _ _ _ (stage1_mbOut _ _ _ _ _ _ _ hs hr h1) h2
  intro r hr'
  have := (pairsOf_snd_sublist srcB mb2).subset hr'
  apply hout.sub
  simpa using this

/-- **No reference band is used twice** (for a duplicate-free reference selection) -/
theorem match_ref_nodup (srcB : List Nat) (srcW : List (Option ℚ)) (refB : List Nat) (refW : List (Option ℚ))
    (force : Bool) (tol : ℚ) (S R : List Nat) (hs : srcW.length = srcB.length) (hr : refW.length = refB.length)
    (hnd : refB.Nodup) (h : matchBands srcB srcW refB refW force tol = .ok (S, R)) : R.Nodup := by
  obtain ⟨_, mb, mb2, h1, h2, rfl, rfl⟩ := matchBands_ok h
  have hout := stage2_mbOut _ _ _ _ _ _ (stage1_mbOut _ _ _ _ _ _ _ hs hr h1) h2
  exact (hout.nodup hnd).sublist (pairsOf_snd_sublist srcB mb2)

/-- **No selected source band is silently dropped** unless matching is forced -/
theorem match_no_silent_drop (srcB : List Nat) (srcW : List (Option ℚ)) (refB : List Nat) (refW : List (Option ℚ))
    (tol : ℚ) (S R : List Nat) (hs : srcW.length = srcB.length) (hr : refW.length = refB.length) (hnd : refB.Nodup)
    (h : matchBands srcB srcW refB refW false tol = .ok (S, R)) : S = srcB := by
  obtain ⟨_, _, _, _, h, _⟩ := matchBands_ok_unforced hs hr hnd h
  exact h

/-- **Within tolerance**: unless matching is forced, every matched pair that has a wavelength on both sides differs by at
    most `tol` relative to the source wavelength - including pairs made by the file-order fallback.

    Changed with respect to the first draft of this statement:
    * new hypothesis `hrany : npAny refW = true` (the reference wavelengths are not all `0.0`).  Without it the statement
      is false: when every reference wavelength is `0.0`, numpy's `any()` is falsy, the wavelength stage is skipped and
      the file-order fallback pairs the bands with no tolerance check, e.g.
      `matchBands [1] [some 1] [1] [some 0] false (1/10) = .ok ([1], [1])` although `|1 - 0| > 1/10 * 1`.
    * binder types `(k i j : Nat) (a b : ℚ)` written out (the draft did not elaborate: `S[k]?` with `k` of unknown type). -/
theorem match_within_tol (srcB : List Nat) (srcW : List (Option ℚ)) (refB : List Nat) (refW : List (Option ℚ))
    (tol : ℚ) (S R : List Nat) (hs : srcW.length = srcB.length) (hr : refW.length = refB.length)
    (hnds : srcB.Nodup) (hnd : refB.Nodup) (hpos : ∀ a, some a ∈ srcW → 0 < a)
    (hrany : npAny refW = true)
    (h : matchBands srcB srcW refB refW false tol = .ok (S, R)) :
    ∀ (k i j : Nat) (a b : ℚ), S[k]? = some (srcB.getD i 0) → R[k]? = some (refB.getD j 0) → i < srcB.length →
      j < refB.length →
      srcW[i]? = some (some a) → refW[j]? = some (some b) → |a - b| ≤ tol * a := by
  intro k i j a b hS hR hi hj hwi hwj
  obtain ⟨_, mb, h1, h2, rfl, _⟩ := matchBands_ok_unforced hs hr hnd h
  have hki : k = i := by
    obtain ⟨hk, hk'⟩ := List.getElem?_eq_some_iff.1 hS
    rw [getD_eq_getElem' _ _ hi] at hk'
    exact (hnds.getElem_inj_iff).1 hk'
  subst hki
  exact within_tol_core S srcW refB refW tol mb _ hs hr hnd hrany h1 h2 k j a b hj
    (hpos a (List.mem_of_getElem? hwi)) (by rw [List.getElem?_map, hR]; rfl) hwi hwj

/-- **Nearest band wins**: with wavelengths on every band, if every source band's nearest reference band is strictly
    nearest, distinct from the other source bands' nearest bands and within tolerance, each source band gets exactly
    that band. -/
theorem match_nearest (srcB : List Nat) (srcW : List (Option ℚ)) (refB : List Nat) (refW : List (Option ℚ)) (tol : ℚ)
    (hs : srcW.length = srcB.length) (hr : refW.length = refB.length) (hnm : srcB.length ≤ refB.length)
    (hnd : refB.Nodup) (hne : srcB ≠ [])
    (sw rw : Nat → ℚ) (hsw : ∀ i, i < srcB.length → srcW[i]? = some (some (sw i)) ∧ 0 < sw i)
    (hrw : ∀ j, j < refB.length → refW[j]? = some (some (rw j)))
    (assign : Nat → Nat) (hin : ∀ i, i < srcB.length → assign i < refB.length)
    (hinj : ∀ i i', i < srcB.length → i' < srcB.length → assign i = assign i' → i = i')
    (hnear : ∀ i j, i < srcB.length → j < refB.length → j ≠ assign i →
      |sw i - rw (assign i)| / sw i < |sw i - rw j| / sw i)
    (htol : ∀ i, i < srcB.length → |sw i - rw (assign i)| / sw i ≤ tol) :
    matchBands srcB srcW refB refW false tol =
      .ok (srcB, (List.range srcB.length).map fun i => refB.getD (assign i) 0) := by
  have hn0 : 0 < srcB.length := List.length_pos_iff.2 hne
  have hsany : npAny srcW = true := npAny_of_pos _ 0 _ (hsw 0 hn0).1 (ne_of_gt (hsw 0 hn0).2)
  rw [matchBands_eq, if_neg (by simp; omega)]
  cases hrany : npAny refW with
  | true =>
    obtain ⟨hlen, hg⟩ := nearest_greedy srcW refW srcB.length refB.length hs hr sw rw hsw hrw assign hin hinj hnear
    simp only [distOf] at hlen hg
    have h1 : stage1 srcB srcW refB refW false tol =
        .ok (((List.range srcB.length).map fun i => refB.getD (assign i) 0).map some) := by
      unfold stage1
      simp only [hsany, hrany, Bool.and_self, Bool.not_false, if_true]
      rw [if_neg]
      · congr 1
        apply List.ext_getElem?
        intro i
        by_cases hi : i < srcB.length
        · have := hg i hi
          simp [List.getElem?_map, this, List.getElem?_range hi]
        · have h1 : srcB.length ≤ i := not_lt.1 hi
          rw [List.getElem?_eq_none (by rw [List.length_map, hlen]; exact h1),
            List.getElem?_eq_none (by simpa using h1)]
      · simp only [Bool.not_eq_true, List.any_eq_false]
        intro e he
        obtain ⟨i, hi⟩ := List.getElem?_of_mem he
        have hilt : i < srcB.length := by
          have := (List.getElem?_eq_some_iff.1 hi).1
          omega
        have := hg i hilt
        rw [this] at hi
        simp only [Option.some.injEq] at hi
        subst hi
        simpa using htol i hilt
    rw [h1]
    exact finish_all_matched srcB refB _ refB.length (by simp) hnm
  | false =>
    -- every reference wavelength is `0.0`: only possible with a single band on both sides
    have hrw0 : ∀ j, j < refB.length → rw j = 0 := by
      intro j hj
      have := npAny_false _ hrany _ (List.mem_of_getElem? (hrw j hj))
      simpa using this
    have hm1 : refB.length = 1 := by
      by_contra hm
      have hm2 : 2 ≤ refB.length := by omega
      have hj : ∃ j, j < refB.length ∧ j ≠ assign 0 := by
        by_cases h0 : assign 0 = 0
        · exact ⟨1, by omega, by omega⟩
        · exact ⟨0, by omega, fun h => h0 h.symm⟩
      obtain ⟨j, hj, hja⟩ := hj
      have := hnear 0 j hn0 hj hja
      rw [hrw0 j hj, hrw0 _ (hin 0 hn0)] at this
      exact lt_irrefl _ this
    have hn1 : srcB.length = 1 := by omega
    obtain ⟨s, rfl⟩ := List.length_eq_one_iff.1 hn1
    obtain ⟨r, rfl⟩ := List.length_eq_one_iff.1 hm1
    have ha : assign 0 = 0 := by have := hin 0 (by simp); simpa using this
    simp [stage1, hsany, hrany, stage2, matchBands.fillNone, pairsOf, ha]

/-- **Witness (finding D12)**: the hypothesis `npAny refW = true` of `match_within_tol` cannot be dropped - when every
    reference wavelength is `0.0` numpy's `any()` is false, the wavelength stage is skipped and the file-order fallback pairs
    a 0.5 um source band with a 0 um reference band although they differ by 100 %.  The real code does the same. -/
theorem within_tol_zero_wavelength_counterexample :
    matchBands [1] [some (1 / 2)] [1] [some 0] false (1 / 10) = .ok ([1], [1]) ∧ ¬ (|(1 / 2 : ℚ) - 0| ≤ 1 / 10 * (1 / 2)) := by
  constructor
  · decide +kernel
  · norm_num

/-- **Witness (finding D52)**: the hypothesis `refB.Nodup` of `match_ref_nodup` cannot be dropped - a reference selection that names
    a band twice is passed through, and that band is paired with two source bands (with or without wavelengths).  The real code
    does the same (`ref_bands=(3, 3)`). -/
theorem ref_nodup_needs_nodup_selection :
    matchBands [1, 2] [none, none] [3, 3] [none, none] false (1 / 10) = .ok ([1, 2], [3, 3]) ∧
    matchBands [1, 2] [some (13 / 20), some (7 / 10)] [3, 3] [some (133 / 200), some (133 / 200)] false (1 / 10) = .ok ([1, 2], [3, 3]) := by
  constructor <;> decide +kernel

end Homonim
