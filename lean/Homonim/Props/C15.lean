/-
  C15 — Band matching is sound (interim theorem set; the full set - lengths, order, one-to-one, tolerance, no silent
  drop, nearest-band optimality - replaces this file when its proofs are complete).
-/
import Homonim.Lemmas.Bands

namespace Homonim

/-- the relative distance test is the 10 % test of the property: `|s - r| / s ≤ tol ↔ |s - r| ≤ tol · s` for `s > 0` -/
theorem relDist_le_iff (a b tol : ℚ) (ha : 0 < a) :
    (∃ d, relDist (some a) (some b) = some d ∧ d ≤ tol) ↔ |a - b| ≤ tol * a := by
  unfold relDist
  simp only [ne_of_gt ha, if_false]
  have habs : (if a - b < 0 then b - a else a - b) = |a - b| := by
    by_cases h : a - b < 0
    · simp only [h, if_true]; rw [abs_of_neg h]; ring
    · simp only [h, if_false]; rw [abs_of_nonneg (not_lt.mp h)]
  rw [habs]
  constructor
  · rintro ⟨d, hd, hle⟩
    cases hd
    rwa [div_le_iff₀ ha] at hle
  · intro h
    exact ⟨_, rfl, by rwa [div_le_iff₀ ha]⟩

/-- a band without a wavelength never takes part in wavelength matching -/
theorem relDist_none (r : Option ℚ) (s : Option ℚ) : relDist none r = none ∧ relDist s none = none := by
  constructor
  · rfl
  · cases s <;> rfl

/-- numpy truthiness: an all-NaN wavelength list still counts as "has wavelengths" (the greedy pass then matches nothing) -/
theorem npAny_nan (ws : List (Option ℚ)) (h : none ∈ ws) : npAny ws = true := by
  unfold npAny
  rw [List.any_eq_true]
  exact ⟨none, h, rfl⟩

end Homonim
