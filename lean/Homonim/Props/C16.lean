/-
  C16 — A reference that does not cover the source is always rejected.
-/
import Homonim.Model.Orient
import Mathlib.Tactic.Linarith

namespace Homonim

/-- **Accepted ⇔ contained** (per axis; an image is accepted iff both axes are): the repaired `covers_bounds`
    accepts exactly when the source footprint lies inside the reference footprint. -/
theorem covers_iff_contains (R S : Axis) :
    coversFixed R S = true ↔ footprintInside R S := by
  unfold coversFixed boundsWinNum footprintInside Axis.edge
  simp only [Bool.and_eq_true, decide_eq_true_eq]
  constructor
  · rintro ⟨h1, h2⟩; constructor <;> linarith
  · rintro ⟨h1, h2⟩; constructor <;> linarith

/-- rejection on each side: an overhang to the left/top or to the right/bottom, by any amount, is rejected -/
theorem overhang_rejected (R S : Axis) (h : S.edge 0 < R.edge 0 ∨ R.edge R.n < S.edge S.n) :
    coversFixed R S = false := by
  rw [← Bool.not_eq_true, covers_iff_contains]
  unfold footprintInside
  rcases h with h | h <;> intro ⟨h1, h2⟩ <;> omega

/-- the very same grid is accepted -/
theorem same_grid_accepted (R : Axis) : coversFixed R R = true := by
  rw [covers_iff_contains]; unfold footprintInside; exact ⟨le_refl _, le_refl _⟩

/-- the predicate **as originally coded** (size ≤ image size instead of offset + size) accepts a source that
    overhangs the right/bottom edge by half its width: the defect D2, kept as a checked witness. -/
theorem covers_coded_counterexample :
    ∃ R S : Axis, coversCoded R S = true ∧ ¬ footprintInside R S :=
  ⟨⟨0, 1, 20⟩, ⟨15, 1, 10⟩, by decide, by decide⟩

/-- the coded predicate never rejects a contained source (it is too lenient, never too strict) -/
theorem covers_coded_of_contains (R S : Axis) (hS : 0 ≤ S.n * S.p) (h : footprintInside R S) :
    coversCoded R S = true := by
  unfold footprintInside Axis.edge at h
  unfold coversCoded boundsWinNum
  simp only [Bool.and_eq_true, decide_eq_true_eq]
  constructor <;> linarith [h.1, h.2]

/-- **Orientation / CRS decision table**: whatever the storage orientation of either image, whether or not the
    CRSs agree, and whichever processing grid is requested, the two images handed on are both north-up and in one
    CRS.  (Finite table; CRS identifiers 0 and 1 stand for "same" / "different".) -/
theorem same_orientation_crs_table :
    ∀ sn rn : Bool, ∀ sc ∈ [0, 1], ∀ rc ∈ [0, 1], ∀ procIsSrc : Bool,
      let r := sameOrientationCrs ⟨sn, sc⟩ ⟨rn, rc⟩ procIsSrc
      r.1.northUp = true ∧ r.2.northUp = true ∧ r.1.crs = r.2.crs := by
  decide

/-- images that are already north-up and share a CRS are handed on untouched (no resampling is introduced) -/
theorem same_orientation_identity (c : Nat) (procIsSrc : Bool) :
    sameOrientationCrs ⟨true, c⟩ ⟨true, c⟩ procIsSrc = (⟨true, c⟩, ⟨true, c⟩) := by
  cases procIsSrc <;> simp [sameOrientationCrs]

/-! non-vacuity -/
example : coversFixed ⟨0, 2, 10⟩ ⟨4, 1, 16⟩ = true ∧ coversFixed ⟨0, 2, 10⟩ ⟨4, 1, 17⟩ = false ∧
    coversFixed ⟨0, 2, 10⟩ ⟨-1, 1, 5⟩ = false := by decide

end Homonim
