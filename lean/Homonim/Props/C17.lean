/-
  C17 — Partial masking keeps exactly the fully supported pixels.
-/
import Homonim.Model.Mask
import Mathlib.Tactic.Linarith

namespace Homonim

/-- **Erosion characterisation**: a pixel survives iff every position of the `(kh+2) x (kw+2)` window anchored at its
    centre lies inside the block and is set. -/
theorem erode_spec (kh kw h w : Nat) (m : Nat → Nat → Bool) (r c : Nat) :
    erodeAt kh kw h w m r c = true ↔
      ∀ di, di < kh + 2 → ∀ dj, dj < kw + 2 →
        let i : Int := (r : Int) - ((kh + 2) / 2 : Nat) + di
        let j : Int := (c : Int) - ((kw + 2) / 2 : Nat) + dj
        0 ≤ i ∧ i < h ∧ 0 ≤ j ∧ j < w ∧ m i.toNat j.toNat = true := by
  unfold erodeAt
  simp only [List.all_eq_true, List.mem_range, Bool.and_eq_true, decide_eq_true_eq]
  constructor
  · intro hall di hdi dj hdj
    have := hall di hdi dj hdj
    tauto
  · intro hall di hdi dj hdj
    have := hall di hdi dj hdj
    tauto

/-- **Full-coverage definition**: a processing pixel is kept iff it and every pixel of the kernel window grown by one
    pixel lie inside the block, carry parameters (valid in the reference and in the resampled source) and are covered
    only by valid pixels of the other image. -/
theorem full_coverage_def (kh kw h w : Nat) (cover pm : Nat → Nat → Bool) (r c : Nat) :
    fullCoverageAt kh kw h w cover pm r c = true ↔
      ∀ di, di < kh + 2 → ∀ dj, dj < kw + 2 →
        let i : Int := (r : Int) - ((kh + 2) / 2 : Nat) + di
        let j : Int := (c : Int) - ((kw + 2) / 2 : Nat) + dj
        0 ≤ i ∧ i < h ∧ 0 ≤ j ∧ j < w ∧ cover i.toNat j.toNat = true ∧ pm i.toNat j.toNat = true := by
  unfold fullCoverageAt
  rw [erode_spec]
  simp only [Bool.and_eq_true]

/-- **Subset**: a kept pixel is itself covered and carries parameters (so the result is a subset of the joint mask,
    hence of the source mask) -/
theorem partial_subset (kh kw h w : Nat) (cover pm : Nat → Nat → Bool) (r c : Nat)
    (hk : fullCoverageAt kh kw h w cover pm r c = true) : cover r c = true ∧ pm r c = true := by
  rw [full_coverage_def] at hk
  have := hk ((kh + 2) / 2) (by omega) ((kw + 2) / 2) (by omega)
  simp only at this
  obtain ⟨_, _, _, _, h5, h6⟩ := this
  have e1 : ((r : Int) - (((kh + 2) / 2 : Nat) : Int) + (((kh + 2) / 2 : Nat) : Int)).toNat = r := by omega
  have e2 : ((c : Int) - (((kw + 2) / 2 : Nat) : Int) + (((kw + 2) / 2 : Nat) : Int)).toNat = c := by omega
  rw [e1, e2] at h5 h6
  exact ⟨h5, h6⟩

/-- **Strictness**: no pixel of the first row (or first column) of the processing window survives - the grown window
    reaches outside - so for every non-empty image some valid pixel is removed. -/
theorem partial_strict (kh kw h w : Nat) (cover pm : Nat → Nat → Bool) (r c : Nat)
    (hedge : r = 0 ∨ c = 0) : fullCoverageAt kh kw h w cover pm r c = false := by
  rw [← Bool.not_eq_true, full_coverage_def]
  intro hall
  have := hall 0 (by omega) 0 (by omega)
  simp only at this
  rcases hedge with rfl | rfl
  · have h1 := this.1; omega
  · have h1 := this.2.2.1; omega

/-- **Block invariance**: the erosion over a sub-block `[r0, r0+h') x [c0, c0+w')` equals the erosion over the whole
    window at every pixel whose grown window stays inside the sub-block wherever it is inside the whole window
    (which the block overlap `ceil(k/2)` = grown radius guarantees for the pixels of the block's output window). -/
theorem partial_block_invariant (kh kw H W : Nat) (m : Nat → Nat → Bool) (r0 c0 h' w' r c : Nat)
    (hr : r0 ≤ r) (hc : c0 ≤ c) (hrs : r0 + h' ≤ H) (hcs : c0 + w' ≤ W)
    (hin : ∀ di, di < kh + 2 → ∀ dj, dj < kw + 2 →
      let i : Int := (r : Int) - ((kh + 2) / 2 : Nat) + di
      let j : Int := (c : Int) - ((kw + 2) / 2 : Nat) + dj
      (0 ≤ i ∧ i < H ∧ 0 ≤ j ∧ j < W) → (r0 ≤ i ∧ i < r0 + h' ∧ c0 ≤ j ∧ j < c0 + w')) :
    erodeAt kh kw h' w' (fun i j => m (i + r0) (j + c0)) (r - r0) (c - c0) = erodeAt kh kw H W m r c := by
  rw [Bool.eq_iff_iff, erode_spec, erode_spec]
  constructor
  · intro hall di hdi dj hdj
    have h1 := hall di hdi dj hdj
    simp only at h1 ⊢
    obtain ⟨a1, a2, a3, a4, a5⟩ := h1
    refine ⟨by omega, by omega, by omega, by omega, ?_⟩
    have e1 : (((r - r0 : Nat) : Int) - (((kh + 2) / 2 : Nat) : Int) + (di : Int)).toNat + r0 =
        ((r : Int) - (((kh + 2) / 2 : Nat) : Int) + (di : Int)).toNat := by omega
    have e2 : (((c - c0 : Nat) : Int) - (((kw + 2) / 2 : Nat) : Int) + (dj : Int)).toNat + c0 =
        ((c : Int) - (((kw + 2) / 2 : Nat) : Int) + (dj : Int)).toNat := by omega
    rw [← e1, ← e2]; exact a5
  · intro hall di hdi dj hdj
    have h1 := hall di hdi dj hdj
    have h2 := hin di hdi dj hdj
    simp only at h1 h2 ⊢
    obtain ⟨a1, a2, a3, a4, a5⟩ := h1
    obtain ⟨b1, b2, b3, b4⟩ := h2 ⟨a1, a2, a3, a4⟩
    refine ⟨by omega, by omega, by omega, by omega, ?_⟩
    have e1 : (((r - r0 : Nat) : Int) - (((kh + 2) / 2 : Nat) : Int) + (di : Int)).toNat + r0 =
        ((r : Int) - (((kh + 2) / 2 : Nat) : Int) + (di : Int)).toNat := by omega
    have e2 : (((c - c0 : Nat) : Int) - (((kw + 2) / 2 : Nat) : Int) + (dj : Int)).toNat + c0 =
        ((c : Int) - (((kw + 2) / 2 : Nat) : Int) + (dj : Int)).toNat := by omega
    rw [e1, e2]; exact a5

/-- the grown radius equals the block overlap: `(k + 2) / 2 = overlap_for_kernel k` for odd `k`, so the hypothesis of
    `partial_block_invariant` holds for every pixel of an output window - and fails for an overlap one smaller. -/
theorem grown_radius_eq_overlap (k : Nat) (hk : k % 2 = 1) : (k + 2) / 2 = overlapForKernel k := by
  unfold overlapForKernel; omega

/-! non-vacuity -/
example : erodeAt 1 1 5 5 (fun _ _ => true) 2 2 = true ∧ erodeAt 1 1 5 5 (fun _ _ => true) 0 2 = false ∧
    erodeAt 1 1 5 5 (fun i j => !(i == 1 && j == 1)) 2 2 = false := by decide

end Homonim
