/-
  C18 — Outputs sit on the right grid, in the right band order, and describe themselves (decision logic).
-/
import Homonim.Model.Layout
import Homonim.Model.Geom
import Homonim.Props.C15
import Homonim.Props.C16
import Homonim.Generated

namespace Homonim

/-- **Processing grid**: under `auto` the coarser image is the processing grid (ties go to the reference); an explicit
    choice is kept -/
theorem resolve_proc_crs_auto (sArea rArea : Int) :
    (resolveProcCrs sArea rArea .auto = .ref ↔ sArea ≤ rArea) ∧ (resolveProcCrs sArea rArea .auto = .src ↔ rArea < sArea) ∧
    resolveProcCrs sArea rArea .src = .src ∧ resolveProcCrs sArea rArea .ref = .ref ∧
    resolveProcCrs sArea rArea .auto ≠ .auto := by
  unfold resolveProcCrs
  by_cases h : sArea ≤ rArea <;> simp [h] <;> omega

theorem get_set_same (p : Profile) (k v : String) : (p.set k v).get k = some v := by
  simp [Profile.set, Profile.get, List.find?]

theorem get_set_other (p : Profile) (k k' v : String) (h : k' ≠ k) : (p.set k v).get k' = p.get k' := by
  unfold Profile.set Profile.get
  have hk : ((k, v).1 == k') = false := by rw [beq_eq_false_iff_ne]; exact fun e => h e.symm
  rw [List.find?_cons, hk]
  simp only
  congr 1
  induction p with
  | nil => rfl
  | cons e es ih =>
    by_cases he : e.1 = k
    · have hq : (e.1 == k') = false := by rw [beq_eq_false_iff_ne]; intro e'; exact h (by rw [← e', he])
      have hf : (e.1 != k) = false := by simp [he]
      rw [List.filter_cons, hf, List.find?_cons, hq]
      simpa using ih
    · have hf : (e.1 != k) = true := by simp [he]
      rw [List.filter_cons, hf]
      simp only [if_true, List.find?_cons]
      cases (e.1 == k') <;> simp [ih]

/-- folding the configuration over a profile leaves keys the configuration does not mention alone -/
theorem fold_set_other (cfg : List (String × String)) (p : Profile) (k : String) (h : ∀ kv ∈ cfg, kv.1 ≠ k) :
    (cfg.foldl (fun p kv => p.set kv.1 kv.2) p).get k = p.get k := by
  induction cfg generalizing p with
  | nil => rfl
  | cons kv rest ih =>
    simp only [List.foldl_cons]
    rw [ih _ (fun x hx => h x (List.mem_cons_of_mem _ hx))]
    exact get_set_other p kv.1 k kv.2 (fun e => h kv List.mem_cons_self e.symm)

theorem find_filter_keep (es : Profile) (keep : String → Bool) (k : String) (hk : keep k = true) :
    (es.filter fun e => keep e.1).find? (fun e => e.1 == k) = es.find? (fun e => e.1 == k) := by
  induction es with
  | nil => rfl
  | cons e es ih =>
    by_cases he : e.1 = k
    · have hkeep : keep e.1 = true := by rw [he]; exact hk
      have hq : (e.1 == k) = true := by rw [beq_iff_eq]; exact he
      rw [List.filter_cons, hkeep]
      simp only [if_true, List.find?_cons, hq]
    · have hq : (e.1 == k) = false := by rw [beq_eq_false_iff_ne]; exact he
      rw [List.filter_cons]
      by_cases hc : keep e.1 = true
      · rw [hc]; simp only [if_true, List.find?_cons, hq]; exact ih
      · have hc' : keep e.1 = false := by simpa using hc
        rw [hc']; simp only [List.find?_cons, hq]
        simpa using ih

/-- **Geometry comes from the input image**: size, CRS and geo-transform of the merged profile are those of the source
    (corrected image) / processing image (parameter image), whatever the output configuration and driver -/
theorem merge_profile_geometry (inP : Profile) (cfgDriver : String) (cfgFlat : List (String × String))
    (k : String) (hk : k ∈ ["width", "height", "crs", "transform"]) (hcfg : ∀ kv ∈ cfgFlat, kv.1 ≠ k) :
    (combineProfiles inP cfgDriver cfgFlat).get k = inP.get k := by
  unfold combineProfiles
  rw [fold_set_other _ _ _ hcfg]
  have hcopy : copyKeys.contains k = true := by
    simp only [List.mem_cons, List.mem_nil_iff, or_false] at hk
    rcases hk with rfl | rfl | rfl | rfl <;> decide
  split
  · unfold Profile.get
    rw [find_filter_keep inP (fun x => copyKeys.contains x) k hcopy]
  · rfl

/-- **Format comes from the configuration**: the last value the configuration gives for a key is the merged value -/
theorem merge_profile_format (inP : Profile) (cfgDriver : String) (pre : List (String × String)) (k v : String)
    (post : List (String × String)) (hpost : ∀ kv ∈ post, kv.1 ≠ k) :
    (combineProfiles inP cfgDriver (pre ++ [(k, v)] ++ post)).get k = some v := by
  unfold combineProfiles
  rw [List.foldl_append, List.foldl_append, fold_set_other _ _ _ hpost]
  simp only [List.foldl_cons, List.foldl_nil]
  exact get_set_same _ k v

/-- **Storage orientation is undone exactly**: flipping twice is the identity -/
theorem flip_involutive {α : Type} (rows : List (List α)) : flipRows (flipRows rows) = rows := by
  simp [flipRows]

/-- **Every effective setting is recorded**: each key of the model and block configuration dictionaries, the model and
    the kernel shape are passed to `_set_metadata` - here: the keys that reach the tags are exactly the generated
    dictionary keys (checked against the live tables) -/
theorem tags_complete :
    ∀ k ∈ Generated.modelConfigKeys ++ Generated.blockConfigKeys, k ∈ Generated.fuseKwargNames := by
  decide

/-- **Round trip of the band matching**: give the corrected bands the wavelengths of the reference bands they were fused
    with (which fuse copies into the corrected image); if the reference wavelengths are pairwise distinct, matching the
    corrected image against the same reference selects exactly those reference bands again. -/
theorem roundtrip_bands (corrB : List Nat) (refB : List Nat) (refW : List (Option ℚ)) (tol : ℚ) (htol : 0 ≤ tol)
    (hr : refW.length = refB.length) (hnm : corrB.length ≤ refB.length) (hnd : refB.Nodup) (hne : corrB ≠ [])
    (rw : Nat → ℚ) (hrw : ∀ j, j < refB.length → refW[j]? = some (some (rw j)) ∧ 0 < rw j)
    (hdist : ∀ j j', j < refB.length → j' < refB.length → rw j = rw j' → j = j')
    (assign : Nat → Nat) (hin : ∀ i, i < corrB.length → assign i < refB.length)
    (hinj : ∀ i i', i < corrB.length → i' < corrB.length → assign i = assign i' → i = i') :
    matchBands corrB ((List.range corrB.length).map fun i => some (rw (assign i))) refB refW false tol =
      .ok (corrB, (List.range corrB.length).map fun i => refB.getD (assign i) 0) := by
  apply match_nearest corrB _ refB refW tol (by simp) hr hnm hnd hne (fun i => rw (assign i)) rw
  · intro i hi
    refine ⟨by simp [hi], (hrw _ (hin i hi)).2⟩
  · intro j hj; exact (hrw j hj).1
  · exact hin
  · exact hinj
  · intro i j hi hj hne'
    have hpos := (hrw _ (hin i hi)).2
    have : rw (assign i) ≠ rw j := fun e => hne' (hdist _ _ (hin i hi) hj e).symm
    simp only [sub_self, abs_zero, zero_div]
    apply div_pos _ hpos
    exact abs_pos.mpr (sub_ne_zero.mpr this)
  · intro i hi
    simp only [sub_self, abs_zero, zero_div]
    exact htol

end Homonim
