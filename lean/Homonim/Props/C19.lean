/-
  C19 — The command line is a faithful front end to the API (the decision logic of the front end).
  The key tables come from Homonim/Generated.lean, regenerated from the live code on every run.
-/
import Homonim.Model.Cli
import Homonim.Generated
import Mathlib.Tactic.Linarith

namespace Homonim

/-- **Precedence, per key**: a value given on the command line wins over the configuration file - also an explicit null
    (`--nodata null` parses to None; before the repair of finding D60 the file's value replaced it); a file value wins over the
    default; without a file value the parsed parameter stays -/
theorem merge_precedence {α : Type} (v d c : α) :
    (mergeKey ⟨some v, .commandline⟩ (some c)).val = some v ∧
    (mergeKey ⟨some d, .default⟩ (some c)).val = some c ∧
    (mergeKey (⟨some d, .default⟩ : PVal α) none).val = some d ∧
    (mergeKey (⟨none, .commandline⟩ : PVal α) (some c)).val = none ∧
    (mergeKey (⟨none, .default⟩ : PVal α) (some c)).val = some c := by
  simp [mergeKey]

/-- whatever was given on the command line is what reaches the API, for every value (None included) and every file -/
theorem commandline_wins {α : Type} (v : Option α) (conf : Option α) : mergeKey ⟨v, .commandline⟩ conf = ⟨v, .commandline⟩ := by
  cases conf <;> simp [mergeKey]

/-- a key supplied by the file counts as given (it is marked as command-line sourced), which is what switches off the
    default creation options when `driver` or `creation_options` come from the file -/
theorem merge_marks_source {α : Type} (d c : α) : (mergeKey ⟨some d, .default⟩ (some c)).src = .commandline := by
  simp [mergeKey]

/-- **Unknown configuration keys are rejected** - no key is silently ignored by the merge -/
theorem unknown_conf_key_rejected {α : Type} (params : List (String × PVal α)) (conf : List (String × α)) (k : String) (v : α)
    (hk : (k, v) ∈ conf) (hunk : ∀ p ∈ params, p.1 ≠ k) : mergeAll params conf = none := by
  unfold mergeAll
  have : (conf.all fun kv => params.any fun p => p.1 == kv.1) = false := by
    rw [List.all_eq_false]
    refine ⟨(k, v), hk, ?_⟩
    simp only [Bool.not_eq_true, List.any_eq_false, beq_iff_eq]
    intro p hp; exact hunk p hp
  simp [this]

/-- a known-key file merges key by key -/
theorem merge_known_keys {α : Type} (params : List (String × PVal α)) (conf : List (String × α))
    (h : ∀ kv ∈ conf, ∃ p ∈ params, p.1 = kv.1) :
    mergeAll params conf = some (params.map fun p => (p.1, mergeKey p.2 ((conf.find? fun kv => kv.1 == p.1).map (·.2)))) := by
  unfold mergeAll
  have : (conf.all fun kv => params.any fun p => p.1 == kv.1) = true := by
    rw [List.all_eq_true]
    intro kv hkv
    obtain ⟨p, hp, hpk⟩ := h kv hkv
    rw [List.any_eq_true]; exact ⟨p, hp, by simp [hpk]⟩
  simp [this]

/-- **Every key of the three configuration dictionaries is the name of a `fuse` option that reaches `**kwargs`** - so no
    dictionary key can be silently ignored by `_update_existing_keys` (re-checked against the live code on every run) -/
theorem config_keys_reachable :
    ∀ k ∈ Generated.blockConfigKeys ++ Generated.modelConfigKeys ++ Generated.outProfileKeys,
      k ∈ Generated.fuseKwargNames := by
  decide

/-- conversely every extra `fuse` keyword option lands in one of the three dictionaries (no option is parsed and dropped) -/
theorem kwargs_all_consumed :
    ∀ k ∈ Generated.fuseKwargNames,
      k ∈ Generated.blockConfigKeys ++ Generated.modelConfigKeys ++ Generated.outProfileKeys := by
  decide

/-- the same for `compare`: its configuration keys are exactly its keyword options -/
theorem compare_config_keys_reachable :
    (∀ k ∈ Generated.compareConfigKeys, k ∈ Generated.compareKwargNames) ∧
    (∀ k ∈ Generated.compareKwargNames, k ∈ Generated.compareConfigKeys) := by
  decide

/-- every named argument of the `fuse` callback (other than the click context) is a declared option or argument -/
theorem fuse_named_args_declared :
    ∀ k ∈ Generated.fuseNamedArgs, k = "ctx" ∨ k ∈ Generated.fuseParamNames := by
  decide

/-- `_update_existing_keys` takes a key's value from the options when present, else keeps the default -/
theorem update_existing_keys_spec {α : Type} (defaults kwargs : List (String × α)) :
    (updateExistingKeys defaults kwargs).map (·.1) = defaults.map (·.1) ∧
    ∀ d ∈ defaults, ∀ v, (kwargs.find? fun kv => kv.1 == d.1) = some (d.1, v) →
      (d.1, v) ∈ updateExistingKeys defaults kwargs := by
  constructor
  · unfold updateExistingKeys; simp [List.map_map, Function.comp_def]
  · intro d hd v hv
    unfold updateExistingKeys
    rw [List.mem_map]
    exact ⟨d, hd, by simp [hv]⟩

/-- **Output name**: encodes processing grid, model, and kernel height *then* width -/
theorem postfix_spec (procUpper modelUpper : String) (kh kw : Nat) (ext : String) :
    outPostfixParts procUpper modelUpper kh kw ext =
      ["_FUSE_c", procUpper, "_m", modelUpper, "_k", toString kh, "_", toString kw, ".", ext] ∧
    (outPostfixParts procUpper modelUpper kh kw ext)[5]? = some (toString kh) ∧
    (outPostfixParts procUpper modelUpper kh kw ext)[7]? = some (toString kw) := by
  refine ⟨rfl, rfl, rfl⟩

theorem param_name_spec (stem suffix : String) : paramFilename stem suffix = stem ++ "_PARAM" ++ suffix := rfl

/-- **nodata callback**: the null spellings give an internal mask, anything else must be a number -/
theorem nodata_cb_spec (isNumber : String → Bool) (l : String) :
    nodataCb none isNumber = .null ∧
    (l = "null" ∨ l = "nil" ∨ l = "none" ∨ l = "nada" → nodataCb (some l) isNumber = .null) ∧
    (¬ (l = "null" ∨ l = "nil" ∨ l = "none" ∨ l = "nada") → isNumber l = true → nodataCb (some l) isNumber = .number l) ∧
    (¬ (l = "null" ∨ l = "nil" ∨ l = "none" ∨ l = "nada") → isNumber l = false → nodataCb (some l) isNumber = .invalid) := by
  refine ⟨rfl, ?_, ?_, ?_⟩
  · intro h; simp [nodataCb, h]
  · intro h hn; simp [nodataCb, h, hn]
  · intro h hn; simp [nodataCb, h, hn]

/-- the default creation options apply only when neither the driver nor the creation options were given -/
theorem default_creation_options_spec (a b : PSource) :
    useDefaultCreationOptions a b = true ↔ a = .default ∧ b = .default := by
  cases a <;> cases b <;> simp [useDefaultCreationOptions]

end Homonim
