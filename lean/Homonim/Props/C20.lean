/-
  C20 — Windowed image I/O is total and places data where it belongs.
  One axis; a 2-D window is the product of a row window and a column window handled independently by the code.
-/
import Homonim.Model.WindowIO
import Homonim.Model.Blocks
import Homonim.Lemmas.Geom

namespace Homonim

/-- the repaired bounded window is always acceptable to GDAL: inside the dataset, non-negative size -/
theorem bounded_fixed_ok (n lo hi : Int) (hn : 0 ≤ n) :
    dsWindowOk n (boundedFixed n lo hi).1 = true := by
  unfold dsWindowOk boundedFixed
  simp only [Bool.and_eq_true, decide_eq_true_eq]
  omega

/-- pixel-wise specification of the boundless read -/
theorem readPixel_fixed {α : Type} (n lo hi : Int) (img : Int → α) (nodata : α) (hn : 0 ≤ n) (i : Int)
    (hi0 : 0 ≤ i) (hi1 : i < hi - lo) :
    readPixel img nodata (boundedFixed n lo hi) i = if 0 ≤ lo + i ∧ lo + i < n then img (lo + i) else nodata := by
  unfold readPixel boundedFixed
  simp only
  by_cases hin : 0 ≤ lo + i ∧ lo + i < n
  · rw [if_pos hin, if_pos (by omega)]
    congr 1; omega
  · rw [if_neg hin, if_neg (by omega)]

/-- **Read is total**: reading any window with non-negative size - inside, partly outside or wholly outside the
    image - succeeds. -/
theorem read_total {α : Type} (n lo hi : Int) (img : Int → α) (nodata : α) (hn : 0 ≤ n) :
    (readWindow n img nodata lo hi).isSome = true := by
  unfold readWindow
  simp only [bounded_fixed_ok n lo hi hn, if_true, Option.isSome_some]

/-- **Read specification**: the result holds, at offset `i`, the image pixel `lo + i` where that lies inside the
    image and nodata elsewhere; its length is the window's. -/
theorem read_spec {α : Type} (n lo hi : Int) (img : Int → α) (nodata : α) (hn : 0 ≤ n) :
    readWindow n img nodata lo hi =
      some ((List.range (hi - lo).toNat).map fun (i : Nat) =>
        if 0 ≤ lo + (i : Int) ∧ lo + (i : Int) < n then img (lo + i) else nodata) := by
  unfold readWindow
  simp only [bounded_fixed_ok n lo hi hn, if_true, Option.some.injEq]
  apply List.map_congr_left
  intro i hi'
  rw [List.mem_range] at hi'
  apply readPixel_fixed n lo hi img nodata hn
  · exact Int.natCast_nonneg i
  · omega

/-- the geo-referencing of the result is the window's: its pixel edge `i` is the image's pixel edge `lo + i` -/
theorem read_transform (P : Axis) (lo hi i : Int) :
    (windowAxis P lo hi).edge i = P.edge (lo + i) ∧ (windowAxis P lo hi).p = P.p ∧
      (windowAxis P lo hi).n = hi - lo := by
  unfold windowAxis Axis.edge
  simp only
  refine ⟨by rw [Int.add_mul]; omega, trivial, trivial⟩

/-- the window logic **as originally coded** fails for a window wholly outside the image (defect D3),
    kept as a checked witness -/
theorem read_total_coded_counterexample :
    (readWindowCoded 10 (fun x => x) 0 12 15).isNone = true ∧ (readWindowCoded 10 (fun x => x) 0 (-7) (-4)).isNone = true := by
  decide

/-- the repair changes nothing where the window meets the image -/
theorem bounded_fixed_eq_coded (n lo hi : Int) (h : max lo 0 ≤ min hi n) :
    boundedFixed n lo hi = boundedCoded n lo hi := by
  unfold boundedFixed boundedCoded
  simp only [Prod.mk.injEq, Win1.mk.injEq]
  omega

/-- **Write specification**: when the write succeeds the dataset holds the block's pixel at every position of the
    window cropped to the dataset, and is unchanged elsewhere. -/
theorem write_spec {α : Type} (n : Int) (ds : Int → α) (b0 blen : Int) (block : Int → α) (lo hi : Int)
    (ds' : Int → α) (h : writeWindow n ds b0 blen block lo hi = some ds') (x : Int) :
    ds' x = if max lo 0 ≤ x ∧ x < min hi n then block (x - b0) else ds x := by
  unfold writeWindow at h
  split at h
  · cases h
  · rename_i w hw
    cases h
    unfold writeTarget at hw
    have hwdef : w = (boundedFixed n lo hi).1 := by
      simp only at hw
      split at hw
      · exact (Option.some.inj hw).symm
      · split at hw
        · exact (Option.some.inj hw).symm
        · cases hw
    subst hwdef
    unfold boundedFixed
    simp only
    by_cases hx : max lo 0 ≤ x ∧ x < min hi n
    · rw [if_pos hx, if_pos (by omega)]
    · rw [if_neg hx, if_neg (by omega)]

theorem writeTarget_of_contains (n b0 blen lo hi : Int) (hn : 0 ≤ n)
    (h : b0 ≤ (boundedFixed n lo hi).1.lo ∧ (boundedFixed n lo hi).1.hi ≤ b0 + blen) :
    writeTarget n b0 blen lo hi = some (boundedFixed n lo hi).1 := by
  have hok := bounded_fixed_ok n lo hi hn
  unfold dsWindowOk at hok
  simp only [Bool.and_eq_true, decide_eq_true_eq] at hok
  unfold writeTarget Win1.len
  simp only
  by_cases he : (boundedFixed n lo hi).1.hi - (boundedFixed n lo hi).1.lo ≤ 0
  · rw [if_pos he]
  · rw [if_neg he, if_pos (by omega)]

/-- a write succeeds whenever the block contains the window cropped to the dataset -/
theorem write_ok_of_contains {α : Type} (n : Int) (ds : Int → α) (b0 blen : Int) (block : Int → α) (lo hi : Int)
    (hn : 0 ≤ n) (h : b0 ≤ (boundedFixed n lo hi).1.lo ∧ (boundedFixed n lo hi).1.hi ≤ b0 + blen) :
    (writeWindow n ds b0 blen block lo hi).isSome = true := by
  unfold writeWindow
  rw [writeTarget_of_contains n b0 blen lo hi hn h]
  rfl

/-- a successful write of a non-empty cropped window takes every pixel from inside the block -/
theorem write_within_block (n b0 blen lo hi : Int) (w : Win1) (h : writeTarget n b0 blen lo hi = some w)
    (hne : w.lo < w.hi) : b0 ≤ w.lo ∧ w.hi ≤ b0 + blen := by
  unfold writeTarget Win1.len at h
  simp only at h
  split at h
  · cases h; omega
  · split at h
    · cases h; omega
    · cases h

/-- **Write then read**: after a successful write, reading any window returns the block's pixels over the written
    range and what a read would have returned before elsewhere. -/
theorem write_read_roundtrip {α : Type} (n : Int) (ds : Int → α) (b0 blen : Int) (block : Int → α) (lo hi : Int)
    (ds' : Int → α) (h : writeWindow n ds b0 blen block lo hi = some ds') (nodata : α) (a b : Int) (hn : 0 ≤ n) :
    readWindow n ds' nodata a b =
      some ((List.range (b - a).toNat).map fun (i : Nat) =>
        if max lo 0 ≤ a + (i : Int) ∧ a + (i : Int) < min hi n then block (a + i - b0)
        else if 0 ≤ a + (i : Int) ∧ a + (i : Int) < n then ds (a + i) else nodata) := by
  rw [read_spec n a b ds' nodata hn]
  congr 1
  apply List.map_congr_left
  intro i _
  rw [write_spec n ds b0 blen block lo hi ds' h]
  by_cases hx : max lo 0 ≤ a + (i : Int) ∧ a + (i : Int) < min hi n
  · rw [if_pos hx, if_pos hx, if_pos (by omega)]
  · rw [if_neg hx, if_neg hx]

/-- **2-D write specification**: a successful write stores the block's pixel at every position of the window cropped
    to the dataset and leaves every other pixel unchanged. -/
theorem write2_spec {α : Type} (nr nc : Int) (ds : Int → Int → α) (br0 brlen bc0 bclen : Int) (block : Int → Int → α)
    (rlo rhi clo chi : Int) (ds' : Int → Int → α)
    (h : writeWindow2 nr nc ds br0 brlen bc0 bclen block rlo rhi clo chi = some ds') (r c : Int) :
    ds' r c = if (max rlo 0 ≤ r ∧ r < min rhi nr) ∧ (max clo 0 ≤ c ∧ c < min chi nc) then block (r - br0) (c - bc0)
              else ds r c := by
  unfold writeWindow2 at h
  split at h
  · rename_i he
    cases h
    unfold boundedFixed Win1.len at he
    simp only at he
    rw [if_neg (by omega)]
  · rename_i hne
    split at h
    · rename_i wr wc hr hc
      cases h
      have hwr : wr = (boundedFixed nr rlo rhi).1 := by
        unfold writeTarget at hr
        simp only at hr
        split at hr
        · exact (Option.some.inj hr).symm
        · split at hr
          · exact (Option.some.inj hr).symm
          · cases hr
      have hwc : wc = (boundedFixed nc clo chi).1 := by
        unfold writeTarget at hc
        simp only at hc
        split at hc
        · exact (Option.some.inj hc).symm
        · split at hc
          · exact (Option.some.inj hc).symm
          · cases hc
      subst hwr hwc
      unfold boundedFixed Win1.len at hne
      unfold boundedFixed
      simp only at hne ⊢
      by_cases hx : (max rlo 0 ≤ r ∧ r < min rhi nr) ∧ (max clo 0 ≤ c ∧ c < min chi nc)
      · rw [if_pos hx, if_pos (by omega)]
      · rw [if_neg hx, if_neg (by omega)]
    · cases h

/-- **A window that misses the dataset is a no-op, never an error** (the D13 repair): whatever block is offered -/
theorem write2_outside_noop {α : Type} (nr nc : Int) (ds : Int → Int → α) (br0 brlen bc0 bclen : Int)
    (block : Int → Int → α) (rlo rhi clo chi : Int) (hr : 0 ≤ nr) (hc : 0 ≤ nc)
    (h : rhi ≤ 0 ∨ nr ≤ rlo ∨ rhi ≤ rlo ∨ chi ≤ 0 ∨ nc ≤ clo ∨ chi ≤ clo) :
    writeWindow2 nr nc ds br0 brlen bc0 bclen block rlo rhi clo chi = some ds := by
  unfold writeWindow2 boundedFixed Win1.len
  simp only
  rw [if_pos (by omega)]

/-- the write as coded before the repair failed on such a window (witness: a block two pixels right of a 6 pixel
    dataset) -/
theorem write_outside_coded_counterexample : writeTargetCoded 6 8 3 8 11 = none ∧ (writeTarget 6 8 3 8 11).isSome := by
  decide

/-- a 2-D write succeeds whenever, along both axes, the block contains the window cropped to the dataset -/
theorem write2_ok_of_contains {α : Type} (nr nc : Int) (ds : Int → Int → α) (br0 brlen bc0 bclen : Int)
    (block : Int → Int → α) (rlo rhi clo chi : Int) (hnr : 0 ≤ nr) (hnc : 0 ≤ nc)
    (hr : br0 ≤ (boundedFixed nr rlo rhi).1.lo ∧ (boundedFixed nr rlo rhi).1.hi ≤ br0 + brlen)
    (hc : bc0 ≤ (boundedFixed nc clo chi).1.lo ∧ (boundedFixed nc clo chi).1.hi ≤ bc0 + bclen) :
    (writeWindow2 nr nc ds br0 brlen bc0 bclen block rlo rhi clo chi).isSome = true := by
  unfold writeWindow2
  split
  · rfl
  · rw [writeTarget_of_contains nr br0 brlen rlo rhi hnr hr, writeTarget_of_contains nc bc0 bclen clo chi hnc hc]
    rfl

/-- clipping a window that lies inside `[b0, b1)` to the dataset keeps it inside `[b0, b1)` unless it becomes empty;
    an empty clipped window is a no-op, so for the write only the non-empty case matters -/
theorem bounded_within (n lo hi b0 b1 : Int) (h : b0 ≤ lo ∧ hi ≤ b1)
    (hne : (boundedFixed n lo hi).1.lo < (boundedFixed n lo hi).1.hi) :
    b0 ≤ (boundedFixed n lo hi).1.lo ∧ (boundedFixed n lo hi).1.hi ≤ b1 := by
  unfold boundedFixed at hne ⊢
  simp only at hne ⊢
  omega

/-- **Every fuse write succeeds**: a block that contains the output window along both axes (which every block of
    `block_pairs` does - `fuse_write_contained_procRef` / `fuse_write_contained_procSrc` below) is written without
    error wherever the output window lies relative to the dataset: inside, across an edge, or wholly outside. -/
theorem write2_total_of_block_contains {α : Type} (nr nc : Int) (ds : Int → Int → α) (br0 brlen bc0 bclen : Int)
    (block : Int → Int → α) (rlo rhi clo chi : Int) (hnr : 0 ≤ nr) (hnc : 0 ≤ nc)
    (hr : br0 ≤ rlo ∧ rhi ≤ br0 + brlen) (hc : bc0 ≤ clo ∧ chi ≤ bc0 + bclen) :
    (writeWindow2 nr nc ds br0 brlen bc0 bclen block rlo rhi clo chi).isSome = true := by
  by_cases he : (boundedFixed nr rlo rhi).1.len ≤ 0 ∨ (boundedFixed nc clo chi).1.len ≤ 0
  · unfold writeWindow2
    rw [if_pos he]
    rfl
  · unfold Win1.len at he
    exact write2_ok_of_contains nr nc ds br0 brlen bc0 bclen block rlo rhi clo chi hnr hnc
      (bounded_within nr rlo rhi br0 (br0 + brlen) hr (by omega))
      (bounded_within nc clo chi bc0 (bc0 + bclen) hc (by omega))

/-- **Fuse writes never fail (reference-grid processing)**: the corrected block covers the expanded source input
    window, which always contains the rounded source output window (clipped to the image) it is written through. -/
theorem fuse_write_contained_procRef (P O : Axis) (A B s v : Int) (hv : 0 ≤ v) (hP : 0 < P.p) (hO : 0 < O.p)
    (k : Nat) :
    let b := block1 P O A B s v k
    b.oin.lo ≤ b.oout.lo ∧ b.oout.hi ≤ b.oin.hi := by
  intro b
  have hin := in_contains_out_plus_overlap_aux A B s v hv k
  show (expandTo P O (procIn A B s v k)).lo ≤ (roundTo P O (procOut A B s v k)).lo ∧
    (roundTo P O (procOut A B s v k)).hi ≤ (expandTo P O (procIn A B s v k)).hi
  unfold expandTo roundTo toOther Axis.edge
  simp only
  constructor
  · have h1 : (P.o + (procIn A B s v k).lo * P.p - O.o) ≤ (P.o + (procOut A B s v k).lo * P.p - O.o) := by
      have := Int.mul_le_mul_of_nonneg_right hin.1 (le_of_lt hP); omega
    exact le_trans (Int.ediv_le_ediv hO h1) (rhe_bounds _ _ hO).1
  · have h1 : (P.o + (procOut A B s v k).hi * P.p - O.o) ≤ (P.o + (procIn A B s v k).hi * P.p - O.o) := by
      have := Int.mul_le_mul_of_nonneg_right hin.2 (le_of_lt hP); omega
    have h2 := rhe_mono _ _ O.p hO h1
    refine le_trans h2 ?_
    -- rhe a d ≤ cdiv a d
    exact rhe_le_of_le_mul _ _ _ hO (cdiv_mul_ge _ _ hO)

/-- **Fuse writes never fail (source-grid processing)**: the block covers the source input window, which contains the
    source output window. -/
theorem fuse_write_contained_procSrc (A B s v : Int) (hv : 0 ≤ v) (k : Nat) :
    (procIn A B s v k).lo ≤ (procOut A B s v k).lo ∧ (procOut A B s v k).hi ≤ (procIn A B s v k).hi :=
  in_contains_out_plus_overlap_aux A B s v hv k

/-! non-vacuity -/
example : readWindow 4 (fun x => 10 + x) 0 (-2) 6 = some [0, 0, 10, 11, 12, 13, 0, 0] := by decide
example : readWindow 4 (fun x => 10 + x) 0 7 9 = some [0, 0] := by decide
example : (writeWindow2 4 6 (fun _ _ => (0 : Int)) 0 4 8 3 (fun i j => 100 + 10 * i + j) 0 4 8 11).isSome = true := by
  decide
example : (writeWindow2 4 6 (fun _ _ => (0 : Int)) 0 4 3 5 (fun i j => 100 + 10 * i + j) 0 4 3 8).map
    (fun f => (List.range 6).map fun (c : Nat) => f 1 c) = some [0, 0, 0, 110, 111, 112] := by decide
example : (writeWindow 6 (fun _ => (0 : Int)) 2 5 (fun i => 100 + i) 1 9).map (fun f => (List.range 6).map fun (i : Nat) => f i)
    = none := by decide
example : (writeWindow 6 (fun _ => (0 : Int)) (-1) 9 (fun i => 100 + i) 1 9).map (fun f => (List.range 6).map fun (i : Nat) => f i)
    = some [0, 102, 103, 104, 105, 106] := by decide

end Homonim
