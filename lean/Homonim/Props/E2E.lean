/-
  E2E — end-to-end block transparency of the whole-image fusion model (serves C05, C02, C03).
-/
import Homonim.Model.FuseBlocks
import Homonim.Lemmas.KernelLocal
import Homonim.Lemmas.Geom
import Homonim.Props.C05
import Homonim.Lemmas.E2E
namespace Homonim

/-- **Blocking is transparent, end to end** (reference-grid processing, nearest / bilinear up-sampling, overlap ≥ kernel
    radius + 1): every source pixel of a block's output window gets from that block - which sees the reference only through
    its input window and the source only through the expanded source input window - exactly the value the single-block run
    gives it: the same validity and the same number.  For every pair of images, grids (any pixel sizes and offsets, ties
    included), kernel, block shape, block and pixel.

    The statement holds for all three models *given the same block normalisation `(n0, n1)`*; the per-block term of
    gain-blk-offset is precisely that `(n0, n1)` depends on the block, which is why the property excludes that model
    (and in-painting, which `ImagePair.params` does not include). -/
theorem block_transparent (p : ImagePair) (hSr : 0 < p.Sr.p) (hSc : 0 < p.Sc.p) (hRr : 0 < p.Rr.p) (hRc : 0 < p.Rc.p)
    (model : Model) (kh kw : Nat) (n0 n1 : Rat) (ups : Resampling) (hups : ups ≠ .average)
    (sr sc vr vc : Int) (hvr : ((kh / 2 : Nat) : Int) + 1 ≤ vr) (hvc : ((kw / 2 : Nat) : Int) + 1 ≤ vc)
    (kr kc : Nat)
    (r c : Int) (hr : (p.blockRows sr vr kr).oout.lo ≤ r ∧ r < (p.blockRows sr vr kr).oout.hi)
    (hc : (p.blockCols sc vc kc).oout.lo ≤ c ∧ c < (p.blockCols sc vc kc).oout.hi) :
    p.correctedByBlock model kh kw n0 n1 ups sr sc vr vc kr kc r c = p.corrected model kh kw n0 n1 ups r c := by
  have hvr0 : 0 ≤ vr := by omega
  have hvc0 : 0 ≤ vc := by omega
  exact block_transparent_core p hSr hSc hRr hRc model kh kw n0 n1 ups hups
    (procIn (refWin p.Sr p.Rr).lo (refWin p.Sr p.Rr).hi sr vr kr)
    (procOut (refWin p.Sr p.Rr).lo (refWin p.Sr p.Rr).hi sr vr kr)
    (procIn (refWin p.Sc p.Rc).lo (refWin p.Sc p.Rc).hi sc vc kc)
    (procOut (refWin p.Sc p.Rc).lo (refWin p.Sc p.Rc).hi sc vc kc)
    (in_contains_out_plus_overlap_aux _ _ sr vr hvr0 kr)
    (in_contains_out_plus_overlap_aux _ _ sc vc hvc0 kc)
    (fun i a hi ha hab => kernel_window_inside_in_block _ _ sr vr kh hvr kr i hi a ha hab)
    (fun j b hj hb hab => kernel_window_inside_in_block _ _ sc vc kw hvc kc j hj b hb hab)
    r c hr hc

/-- **Two partitions agree**: whatever block shapes and (sufficient) overlaps two runs use, a source pixel gets the same
    corrected value and validity from the block that writes it in either run. -/
theorem partitions_agree (p : ImagePair) (hSr : 0 < p.Sr.p) (hSc : 0 < p.Sc.p) (hRr : 0 < p.Rr.p) (hRc : 0 < p.Rc.p)
    (model : Model) (kh kw : Nat) (n0 n1 : Rat) (ups : Resampling) (hups : ups ≠ .average)
    (sr sc vr vc sr' sc' vr' vc' : Int)
    (hvr : ((kh / 2 : Nat) : Int) + 1 ≤ vr) (hvc : ((kw / 2 : Nat) : Int) + 1 ≤ vc)
    (hvr' : ((kh / 2 : Nat) : Int) + 1 ≤ vr') (hvc' : ((kw / 2 : Nat) : Int) + 1 ≤ vc')
    (kr kc kr' kc' : Nat) (r c : Int)
    (hr : (p.blockRows sr vr kr).oout.lo ≤ r ∧ r < (p.blockRows sr vr kr).oout.hi)
    (hc : (p.blockCols sc vc kc).oout.lo ≤ c ∧ c < (p.blockCols sc vc kc).oout.hi)
    (hr' : (p.blockRows sr' vr' kr').oout.lo ≤ r ∧ r < (p.blockRows sr' vr' kr').oout.hi)
    (hc' : (p.blockCols sc' vc' kc').oout.lo ≤ c ∧ c < (p.blockCols sc' vc' kc').oout.hi) :
    p.correctedByBlock model kh kw n0 n1 ups sr sc vr vc kr kc r c
      = p.correctedByBlock model kh kw n0 n1 ups sr' sc' vr' vc' kr' kc' r c := by
  rw [block_transparent p hSr hSc hRr hRc model kh kw n0 n1 ups hups sr sc vr vc hvr hvc kr kc r c hr hc,
    block_transparent p hSr hSc hRr hRc model kh kw n0 n1 ups hups sr' sc' vr' vc' hvr' hvc' kr' kc' r c hr' hc']

/-! non-vacuity of the geometric hypotheses: 0.4 m source on a 0.8 m reference at a half-pixel offset (the D1 geometry),
    3 x 3 kernel, overlap 2, block length 5: block 1 is a real block and source row / column 9 is in its output window -/
example :
    let p : ImagePair := ⟨⟨13, 4, 31⟩, ⟨13, 4, 31⟩, ⟨1, 8, 20⟩, ⟨1, 8, 20⟩, fun _ _ => none, fun _ _ => none⟩
    1 < nBlocks (refWin p.Sr p.Rr).lo (refWin p.Sr p.Rr).hi 5 ∧ ((3 / 2 : Nat) : Int) + 1 ≤ 2 ∧
      (p.blockRows 5 2 1).oout.lo ≤ 9 ∧ 9 < (p.blockRows 5 2 1).oout.hi ∧
      (p.blockCols 5 2 1).oout.lo ≤ 9 ∧ 9 < (p.blockCols 5 2 1).oout.hi := by decide

end Homonim
