/-
  E2ECompare — end-to-end partition invariance of the comparison sums (serves C11).
-/
import Homonim.Model.CompareImage
import Homonim.Props.E2E
import Homonim.Props.C11
import Homonim.Lemmas.E2ECompare
namespace Homonim

/-- **The comparison sums do not depend on the block partition** (reference-grid processing, the source brought to the
    reference grid by `average`): for every pair of images, every grid geometry and every block shape, accumulating the
    seven sums of the blocks - each computed from what that block read - gives exactly the sums of the single-block run.
    Hence N, r², RMSE and rRMSE (functions of the sums, `bandStats`) are the same for every partition. -/
theorem compare_sums_partition_invariant (p : ImagePair) (hSr : 0 < p.Sr.p) (hSc : 0 < p.Sc.p) (hRr : 0 < p.Rr.p)
    (hRc : 0 < p.Rc.p) (sr sc : Int) (hsr : 0 < sr) (hsc : 0 < sc) :
    p.cmpSumsBlocked sr sc = p.cmpSumsWhole := by
  obtain ⟨f, hf⟩ := cmpPts_eq_grid p
  unfold ImagePair.cmpSumsBlocked ImagePair.cmpSumsWhole
  rw [accumulate_flatMap_range]
  simp only [cmpSumsBlock_eq p hSr hSc hRr hRc, hf]
  -- (a) along the columns, for every row window; (b) along the rows
  have hcols : ∀ wr : Win1,
      accumulate ((List.range (nBlocks (refWin p.Sc p.Rc).lo (refWin p.Sc p.Rc).hi sc)).map fun kc =>
        blockSums (gridPts f wr (procOut (refWin p.Sc p.Rc).lo (refWin p.Sc p.Rc).hi sc 0 kc))) =
      gridSums f wr (refWin p.Sc p.Rc) :=
    fun wr => acc_tiles (fun w => gridSums f wr w) (fun w h => gridSums_empty_cols f wr w h)
      (fun a b c hab hbc => gridSums_cols_add f wr a b c hab hbc) _ _ sc hsc
  simp only [hcols]
  exact acc_tiles (fun w => gridSums f w (refWin p.Sc p.Rc)) (fun w h => gridSums_empty_rows f w _ h)
    (fun a b c hab hbc => gridSums_rows_add f _ a b c hab hbc) _ _ sr hsr

theorem compare_stats_partition_invariant (p : ImagePair) (hSr : 0 < p.Sr.p) (hSc : 0 < p.Sc.p) (hRr : 0 < p.Rr.p)
    (hRc : 0 < p.Rc.p) (sr sc : Int) (hsr : 0 < sr) (hsc : 0 < sc) :
    bandStats (p.cmpSumsBlocked sr sc) = bandStats p.cmpSumsWhole := by
  rw [compare_sums_partition_invariant p hSr hSc hRr hRc sr sc hsr hsc]

/-! non-vacuity: a 0.4 m source on a 0.8 m reference at a half-pixel offset; block shape (2, 3) gives 3 x 2 real blocks
    (the theorem also covers the degenerate cases: an empty or negative-length `refWin` has no block and no point) -/
example :
    let p : ImagePair := ⟨⟨13, 4, 11⟩, ⟨13, 4, 9⟩, ⟨1, 8, 20⟩, ⟨1, 8, 20⟩, fun _ _ => none, fun _ _ => none⟩
    nBlocks (refWin p.Sr p.Rr).lo (refWin p.Sr p.Rr).hi 2 = 3 ∧ nBlocks (refWin p.Sc p.Rc).lo (refWin p.Sc p.Rc).hi 3 = 2 ∧
      (p.blockRows 2 0 1).pout = ⟨3, 5⟩ ∧ (p.blockCols 3 0 1).pout = ⟨4, 6⟩ := by decide


end Homonim
