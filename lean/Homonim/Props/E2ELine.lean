/-
  E2ELine — whole-image versions of C02 (an exact linear relation is recovered in place) and C07 (scale laws).
-/
import Homonim.Props.E2EMask
import Homonim.Props.C02
import Homonim.Props.C07
import Homonim.Lemmas.E2ELine
namespace Homonim

-- `ImgO.scale k img := fun i j => (img i j).map (k * ·)` (scaling an image by a constant, invalid stays invalid) is
-- defined in Homonim/Lemmas/E2ELine.lean, next to the homogeneity lemmas that use it.

/-- **Gain model, whole image: a proportional relation is recovered in place.**  If the reference is `a` times the source as
    seen on the reference grid (wherever both exist), every corrected pixel that is valid equals `a` times its own source
    pixel - at its own location, for every geometry (no hypothesis on pixel sizes or offsets), every sign of the data, every
    kernel and both up-sampling methods (nearest / bilinear). -/
theorem whole_image_gain_recovers (p : ImagePair)
    (a : Rat) (kh kw : Nat) (n0 n1 : Rat) (ups : Resampling) (hups : ups ≠ .average)
    (hline : ∀ i j x y, p.srcDs i j = some x → p.ref i j = some y → y = a * x)
    (r c : Int) (x v : Rat) (hx : p.src r c = some x) (hv : p.corrected .gain kh kw n0 n1 ups r c = some v) :
    v = a * x := by
  have h := corrected_of_const_params p .gain kh kw n0 n1 ups hups a 0
    (fun i j prm hprm => params_gain_line p a hline kh kw n0 n1 i j prm hprm) r c x v hx hv
  rw [h]; ring

/-- **Gain-offset model, whole image: a linear relation is recovered in place** wherever the kernel windows feeding the pixel
    are non-degenerate (the fit exists there): if `ref = a·srcDs + b` wherever both exist, every valid corrected pixel
    equals `a·src + b` at its own location. -/
theorem whole_image_gain_offset_recovers (p : ImagePair) (a b : Rat) (kh kw : Nat) (n0 n1 : Rat) (ups : Resampling) (hups : ups ≠ .average)
    (hline : ∀ i j x y, p.srcDs i j = some x → p.ref i j = some y → y = a * x + b)
    (r c : Int) (x v : Rat) (hx : p.src r c = some x) (hv : p.corrected .gainOffset kh kw n0 n1 ups r c = some v) :
    v = a * x + b :=
  corrected_of_const_params p .gainOffset kh kw n0 n1 ups hups a b
    (fun i j prm hprm => params_gainOffset_line p a b hline kh kw n0 n1 i j prm hprm) r c x v hx hv

/-- **Scale laws, whole image** (C07): multiplying the source by `s > 0` and the reference by `t > 0` multiplies every
    corrected pixel by `t` and leaves validity unchanged - for the gain and gain-offset models, every geometry, kernel and
    resampling method. -/
theorem whole_image_scale (p : ImagePair) (s t : Rat) (hs : 0 < s) (ht : 0 < t) (model : Model) (hm : model ≠ .gainBlkOffset)
    (kh kw : Nat) (n0 n1 : Rat) (ups : Resampling) (r c : Int) :
    ({ p with src := p.src.scale s, ref := p.ref.scale t } : ImagePair).corrected model kh kw n0 n1 ups r c
      = (p.corrected model kh kw n0 n1 ups r c).map (t * ·) :=
  corrected_scale_pair p s t hs ht model hm kh kw n0 n1 ups r c


end Homonim
