/-
  E2EMask — end-to-end mask fidelity of the whole-image fusion model (serves C03).
-/
import Homonim.Props.E2E
import Homonim.Lemmas.E2EMask
namespace Homonim

/-- **No invented pixels** (whole image, every model, every up-sampling method): a corrected pixel is valid only where the
    source pixel is. -/
theorem whole_image_no_invented_pixels (p : ImagePair) (model : Model) (kh kw : Nat) (n0 n1 : Rat) (ups : Resampling)
    (r c : Int) (v : Rat) (h : p.corrected model kh kw n0 n1 ups r c = some v) : (p.src r c).isSome = true := by
  unfold ImagePair.corrected at h
  cases hs : p.src r c with
  | none => rw [hs] at h; cases h
  | some x => rfl

/-- **No lost pixels** (whole image, gain model, positive data, nearest / bilinear up-sampling, kernel at least 1 x 1): a
    valid source pixel inside the source image is valid in the corrected image whenever the reference pixel that contains
    its centre exists and is valid.  (Only the source needs to be positive: the gain `R / S` exists as soon as `S ≠ 0`.) -/
theorem whole_image_no_lost_pixels (p : ImagePair) (hSr : 0 < p.Sr.p) (hSc : 0 < p.Sc.p) (hRr : 0 < p.Rr.p) (hRc : 0 < p.Rc.p)
    (kh kw : Nat) (hkh : 0 < kh) (hkw : 0 < kw) (n0 n1 : Rat) (ups : Resampling) (hups : ups ≠ .average)
    (hposS : ∀ r c x, p.src r c = some x → 0 < x)
    (r c : Int) (hr : 0 ≤ r ∧ r < p.Sr.n) (hc : 0 ≤ c ∧ c < p.Sc.n) (x : Rat) (hx : p.src r c = some x)
    (hi : 0 ≤ nearestIdx p.Rr p.Sr r ∧ nearestIdx p.Rr p.Sr r < p.Rr.n)
    (hj : 0 ≤ nearestIdx p.Rc p.Sc c ∧ nearestIdx p.Rc p.Sc c < p.Rc.n)
    (href : (p.ref (nearestIdx p.Rr p.Sr r) (nearestIdx p.Rc p.Sc c)).isSome = true) :
    (p.corrected .gain kh kw n0 n1 ups r c).isSome = true := by
  -- (1) the averaged source is valid at the reference pixel containing the centre
  obtain ⟨wr, _, hwr⟩ := nearest_mem_avgWeights1 p.Sr p.Rr hSr hRr r hr
  obtain ⟨wc, _, hwc⟩ := nearest_mem_avgWeights1 p.Sc p.Rc hSc hRc c hc
  have hs : (p.srcDs (nearestIdx p.Rr p.Sr r) (nearestIdx p.Rc p.Sc c)).isSome = true :=
    avg2_isSome p.Sr p.Sc p.Rr p.Rc p.src _ _ r c wr wc hwr hwc x hx
  -- (2) so the gain fit succeeds there
  have hpar := params_gain_isSome p hposS kh kw hkh hkw n0 n1 _ _ hi hj hs href
  -- (3) and both parameter images are valid there, hence after up-sampling
  have hg : (resample2 ups p.Rr p.Rc p.Sr p.Sc (p.gainImg .gain kh kw n0 n1) r c).isSome = true := by
    apply resample2_isSome ups hups _ _ _ _ hRr hRc
    unfold ImagePair.gainImg
    rw [Option.isSome_map]; exact hpar
  have ho : (resample2 ups p.Rr p.Rc p.Sr p.Sc (p.offsetImg .gain kh kw n0 n1) r c).isSome = true := by
    apply resample2_isSome ups hups _ _ _ _ hRr hRc
    unfold ImagePair.offsetImg
    rw [Option.isSome_map]; exact hpar
  -- (4) apply
  obtain ⟨g, hg⟩ := Option.isSome_iff_exists.mp hg
  obtain ⟨o, ho⟩ := Option.isSome_iff_exists.mp ho
  unfold ImagePair.corrected
  rw [hx]
  simp only [hg, ho, Option.isSome_some]

/-- **The same through any block**: under the hypotheses of `block_transparent`, the block that writes the pixel gives it the
    validity of the whole-image run - hence, with the two theorems above, exactly the source's validity on positive data. -/
theorem block_mask_eq_whole (p : ImagePair) (hSr : 0 < p.Sr.p) (hSc : 0 < p.Sc.p) (hRr : 0 < p.Rr.p) (hRc : 0 < p.Rc.p)
    (model : Model) (kh kw : Nat) (n0 n1 : Rat) (ups : Resampling) (hups : ups ≠ .average)
    (sr sc vr vc : Int) (hvr : ((kh / 2 : Nat) : Int) + 1 ≤ vr) (hvc : ((kw / 2 : Nat) : Int) + 1 ≤ vc) (kr kc : Nat)
    (r c : Int) (hr : (p.blockRows sr vr kr).oout.lo ≤ r ∧ r < (p.blockRows sr vr kr).oout.hi)
    (hc : (p.blockCols sc vc kc).oout.lo ≤ c ∧ c < (p.blockCols sc vc kc).oout.hi) :
    (p.correctedByBlock model kh kw n0 n1 ups sr sc vr vc kr kc r c).isSome = (p.corrected model kh kw n0 n1 ups r c).isSome := by
  rw [block_transparent p hSr hSc hRr hRc model kh kw n0 n1 ups hups sr sc vr vc hvr hvc kr kc r c hr hc]

/-! non-vacuity: a 2 x 2 source (value 3) under one reference pixel (value 6), 1 x 1 kernel, bilinear up-sampling -/
example :
    let p : ImagePair :=
      { Sr := ⟨0, 1, 2⟩, Sc := ⟨0, 1, 2⟩, Rr := ⟨0, 2, 1⟩, Rc := ⟨0, 2, 1⟩
        src := fun r c => if 0 ≤ r ∧ r < 2 ∧ 0 ≤ c ∧ c < 2 then some 3 else none
        ref := fun i j => if i = 0 ∧ j = 0 then some 6 else none }
    p.corrected .gain 1 1 0 0 .bilinear 1 1 = some 6 ∧ p.corrected .gain 1 1 0 0 .nearest 0 1 = some 6 ∧
      p.corrected .gain 1 1 0 0 .bilinear 2 1 = none := by decide +kernel


end Homonim
