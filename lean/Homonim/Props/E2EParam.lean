/-
  E2EParam — the parameter image of the whole-image model (reference-grid processing) (serves C05, C14).

  C05, first sentence: "the parameter image does not depend on how the image is partitioned into blocks".
  C14: "without partial masking its valid pixels are those of the processing grid where both images are valid".
-/
import Homonim.Props.E2E
import Homonim.Props.E2EMask
import Homonim.Props.E2ESrc
namespace Homonim

/-- **The parameter image does not depend on the partition** (reference-grid processing, overlap ≥ kernel radius + 1): the
    parameters a block writes at a processing pixel of its output window - fitted on what the block read: the reference through
    its input window, the source through the expanded source window - are those of the single-block run: same validity, same
    gain, same offset, same R².  Every model given the same block normalisation; every geometry, kernel, block shape. -/
theorem param_image_block_transparent (p : ImagePair) (hSr : 0 < p.Sr.p) (hSc : 0 < p.Sc.p) (hRr : 0 < p.Rr.p) (hRc : 0 < p.Rc.p)
    (model : Model) (kh kw : Nat) (n0 n1 : Rat)
    (sr sc vr vc : Int) (hvr : ((kh / 2 : Nat) : Int) + 1 ≤ vr) (hvc : ((kw / 2 : Nat) : Int) + 1 ≤ vc)
    (kr kc : Nat) (i j : Int)
    (hi : (p.blockRows sr vr kr).pout.lo ≤ i ∧ i < (p.blockRows sr vr kr).pout.hi)
    (hj : (p.blockCols sc vc kc).pout.lo ≤ j ∧ j < (p.blockCols sc vc kc).pout.hi) :
    (p.restrict (p.blockRows sr vr kr).pin (p.blockCols sc vc kc).pin (p.blockRows sr vr kr).oin (p.blockCols sc vc kc).oin).params
        model kh kw n0 n1 i j = p.params model kh kw n0 n1 i j := by
  have hi' : (procOut (refWin p.Sr p.Rr).lo (refWin p.Sr p.Rr).hi sr vr kr).lo ≤ i ∧
      i < (procOut (refWin p.Sr p.Rr).lo (refWin p.Sr p.Rr).hi sr vr kr).hi := hi
  have hj' : (procOut (refWin p.Sc p.Rc).lo (refWin p.Sc p.Rc).hi sc vc kc).lo ≤ j ∧
      j < (procOut (refWin p.Sc p.Rc).lo (refWin p.Sc p.Rc).hi sc vc kc).hi := hj
  exact restrict_params_agree p hSr hSc hRr hRc
    (procIn (refWin p.Sr p.Rr).lo (refWin p.Sr p.Rr).hi sr vr kr)
    (procIn (refWin p.Sc p.Rc).lo (refWin p.Sc p.Rc).hi sc vc kc) model kh kw n0 n1 i j
    (fun a ha hab => kernel_window_inside_in_block _ _ sr vr kh hvr kr i ⟨by omega, by omega⟩ a ha hab)
    (fun b hb hab => kernel_window_inside_in_block _ _ sc vc kw hvc kc j ⟨by omega, by omega⟩ b hb hab)

/-- **Two partitions write the same parameter image.** -/
theorem param_image_partitions_agree (p : ImagePair) (hSr : 0 < p.Sr.p) (hSc : 0 < p.Sc.p) (hRr : 0 < p.Rr.p) (hRc : 0 < p.Rc.p)
    (model : Model) (kh kw : Nat) (n0 n1 : Rat)
    (sr sc vr vc sr' sc' vr' vc' : Int)
    (hvr : ((kh / 2 : Nat) : Int) + 1 ≤ vr) (hvc : ((kw / 2 : Nat) : Int) + 1 ≤ vc)
    (hvr' : ((kh / 2 : Nat) : Int) + 1 ≤ vr') (hvc' : ((kw / 2 : Nat) : Int) + 1 ≤ vc')
    (kr kc kr' kc' : Nat) (i j : Int)
    (hi : (p.blockRows sr vr kr).pout.lo ≤ i ∧ i < (p.blockRows sr vr kr).pout.hi)
    (hj : (p.blockCols sc vc kc).pout.lo ≤ j ∧ j < (p.blockCols sc vc kc).pout.hi)
    (hi' : (p.blockRows sr' vr' kr').pout.lo ≤ i ∧ i < (p.blockRows sr' vr' kr').pout.hi)
    (hj' : (p.blockCols sc' vc' kc').pout.lo ≤ j ∧ j < (p.blockCols sc' vc' kc').pout.hi) :
    (p.restrict (p.blockRows sr vr kr).pin (p.blockCols sc vc kc).pin (p.blockRows sr vr kr).oin (p.blockCols sc vc kc).oin).params
        model kh kw n0 n1 i j =
      (p.restrict (p.blockRows sr' vr' kr').pin (p.blockCols sc' vc' kc').pin (p.blockRows sr' vr' kr').oin
        (p.blockCols sc' vc' kc').oin).params model kh kw n0 n1 i j := by
  rw [param_image_block_transparent p hSr hSc hRr hRc model kh kw n0 n1 sr sc vr vc hvr hvc kr kc i j hi hj,
    param_image_block_transparent p hSr hSc hRr hRc model kh kw n0 n1 sr' sc' vr' vc' hvr' hvc' kr' kc' i j hi' hj']

/-- **No parameters where either image is invalid** (every model): a processing pixel carries parameters only if it lies in the
    reference image, the source as seen on the reference grid is valid there, and the reference is valid there. -/
theorem param_valid_only_where_both_valid (p : ImagePair) (model : Model) (kh kw : Nat) (n0 n1 : Rat) (i j : Int)
    (h : (p.params model kh kw n0 n1 i j).isSome = true) :
    (0 ≤ i ∧ i < p.Rr.n ∧ 0 ≤ j ∧ j < p.Rc.n) ∧ (p.srcDs i j).isSome = true ∧ (p.ref i j).isSome = true := by
  unfold ImagePair.params at h
  by_cases hin : 0 ≤ i ∧ i < p.Rr.n ∧ 0 ≤ j ∧ j < p.Rc.n
  · rw [if_pos hin] at h
    refine ⟨hin, ?_⟩
    by_cases hm : p.block.m i.toNat j.toNat = true
    · unfold Block.m ImagePair.block at hm
      simp only [Bool.and_eq_true] at hm
      have hi' : ((i.toNat : Nat) : Int) = i := by omega
      have hj' : ((j.toNat : Nat) : Int) = j := by omega
      rw [hi', hj'] at hm
      exact hm
    · have hm' : p.block.m i.toNat j.toNat = false := by simpa using hm
      rw [no_params_off_mask p.block model kh kw false none n0 n1 _ _ _ hm'] at h
      cases h
  · rw [if_neg hin] at h
    cases h

/-- **The parameter image is valid exactly where both images are** (gain model, positive source, kernel at least 1 x 1). -/
theorem param_valid_iff_both_valid (p : ImagePair) (hposS : ∀ r c x, p.src r c = some x → 0 < x)
    (kh kw : Nat) (hkh : 0 < kh) (hkw : 0 < kw) (n0 n1 : Rat) (i j : Int)
    (hi : 0 ≤ i ∧ i < p.Rr.n) (hj : 0 ≤ j ∧ j < p.Rc.n) :
    (p.params .gain kh kw n0 n1 i j).isSome = ((p.srcDs i j).isSome && (p.ref i j).isSome) := by
  by_cases h1 : (p.srcDs i j).isSome = true
  · by_cases h2 : (p.ref i j).isSome = true
    · rw [params_gain_isSome p hposS kh kw hkh hkw n0 n1 i j hi hj h1 h2, h1, h2]; rfl
    · have := param_valid_only_where_both_valid p .gain kh kw n0 n1 i j
      cases hp : (p.params .gain kh kw n0 n1 i j).isSome with
      | true => exact absurd (this hp).2.2 h2
      | false => simp only [Bool.not_eq_true] at h2; rw [h2]; simp
  · have := param_valid_only_where_both_valid p .gain kh kw n0 n1 i j
    cases hp : (p.params .gain kh kw n0 n1 i j).isSome with
    | true => exact absurd (this hp).2.1 h1
    | false => simp only [Bool.not_eq_true] at h1; rw [h1]; simp

/-- **Source-grid processing: the corrected image is the parameter image applied** (C14): a corrected pixel is valid exactly
    when the source pixel is valid and carries parameters, and then equals `gain * source + offset` with the parameters fitted
    at that very pixel - no resampling lies between the parameter image and the corrected image. -/
theorem src_grid_corrected_is_param_applied (p : ImagePair) (model : Model) (kh kw : Nat) (n0 n1 : Rat) (m : Resampling) (r c : Int)
    (hr : 0 ≤ r ∧ r < p.Sr.n) (hc : 0 ≤ c ∧ c < p.Sc.n) :
    p.correctedSrcGrid model kh kw n0 n1 m r c =
      match p.src r c, fitAt (p.blockSrc m) model kh kw false none n0 n1 (fun _ _ => none) r.toNat c.toNat with
      | some x, some prm => some (prm.gain * x + prm.offset)
      | _, _ => none := by
  unfold ImagePair.correctedSrcGrid
  rw [if_pos ⟨hr.1, hr.2, hc.1, hc.2⟩]
  rfl

/-! non-vacuity: the D1 geometry (0.4 m source on a 0.8 m reference at a half-pixel offset), 3 x 3 kernel, overlap 2, block
    length 5: block 1 is a real block and processing pixel (6, 6) lies in its output window -/
example :
    let p : ImagePair := ⟨⟨13, 4, 31⟩, ⟨13, 4, 31⟩, ⟨1, 8, 20⟩, ⟨1, 8, 20⟩, fun _ _ => none, fun _ _ => none⟩
    1 < nBlocks (refWin p.Sr p.Rr).lo (refWin p.Sr p.Rr).hi 5 ∧
      (p.blockRows 5 2 1).pout.lo ≤ 6 ∧ 6 < (p.blockRows 5 2 1).pout.hi ∧
      (p.blockCols 5 2 1).pout.lo ≤ 6 ∧ 6 < (p.blockCols 5 2 1).pout.hi := by decide

end Homonim
