/-
  E2EPartial — block invariance of partial masking on the reference grid, and its exact limits (serves C17; finding D8).

  The statement first proposed - for every model and all data - is FALSE (`partial_mask_needs_total_fit` below): near the edge
  of a block's input window the kernel sums of the block differ from the whole image's, and although partial masking only
  asks *whether* a pixel carries parameters, a fit can divide by zero over one window and not over the other.  It holds as
  soon as the fit succeeds at every jointly valid pixel (`ImagePair.FitTotal`, `Lemmas/E2EPartial.lean`), which the gain
  model does on positive source data.
-/
import Homonim.Model.PartialMask
import Homonim.Props.E2E
import Homonim.Lemmas.E2EPartial
namespace Homonim

/-- **Partial masking is block-transparent away from ties, for a fit that never degenerates** (every model): if the fit
    succeeds at every jointly valid reference pixel, for the whole pair and for the pair as the block reads it, and the
    reference pixel under the centre of source pixel `(r, c)` lies in the output window of the block that writes `(r, c)`,
    the block computes for `(r, c)` the validity the single-block run computes. -/
theorem partial_mask_block_transparent_of_fit (p : ImagePair) (hSr : 0 < p.Sr.p) (hSc : 0 < p.Sc.p) (hRr : 0 < p.Rr.p)
    (hRc : 0 < p.Rc.p) (model : Model) (kh kw : Nat) (n0 n1 : Rat)
    (sr sc vr vc : Int) (hvr : ((kh / 2 : Nat) : Int) + 1 ≤ vr) (hvc : ((kw / 2 : Nat) : Int) + 1 ≤ vc) (kr kc : Nat)
    (hfit : p.FitTotal model kh kw n0 n1)
    (hfitB : (p.restrict (p.blockRows sr vr kr).pin (p.blockCols sc vc kc).pin (p.blockRows sr vr kr).oin
      (p.blockCols sc vc kc).oin).FitTotal model kh kw n0 n1)
    (r c : Int) (hr : (p.blockRows sr vr kr).oout.lo ≤ r ∧ r < (p.blockRows sr vr kr).oout.hi)
    (hc : (p.blockCols sc vc kc).oout.lo ≤ c ∧ c < (p.blockCols sc vc kc).oout.hi)
    (hnr : (p.blockRows sr vr kr).pout.lo ≤ nearestIdx p.Rr p.Sr r ∧ nearestIdx p.Rr p.Sr r < (p.blockRows sr vr kr).pout.hi)
    (hnc : (p.blockCols sc vc kc).pout.lo ≤ nearestIdx p.Rc p.Sc c ∧ nearestIdx p.Rc p.Sc c < (p.blockCols sc vc kc).pout.hi) :
    p.partialValidByBlock model kh kw n0 n1 sr sc vr vc kr kc r c = p.partialValid model kh kw n0 n1 r c := by
  have hvr0 : 0 ≤ vr := by omega
  have hvc0 : 0 ≤ vc := by omega
  exact partial_mask_core p hSr hSc hRr hRc model kh kw n0 n1
    (procIn (refWin p.Sr p.Rr).lo (refWin p.Sr p.Rr).hi sr vr kr)
    (procOut (refWin p.Sr p.Rr).lo (refWin p.Sr p.Rr).hi sr vr kr)
    (procIn (refWin p.Sc p.Rc).lo (refWin p.Sc p.Rc).hi sc vc kc)
    (procOut (refWin p.Sc p.Rc).lo (refWin p.Sc p.Rc).hi sc vc kc)
    hfit hfitB
    (in_contains_out_plus_overlap_aux _ _ sr vr hvr0 kr)
    (in_contains_out_plus_overlap_aux _ _ sc vc hvc0 kc)
    (fun a ha hab => eroded_window_inside_in_block _ _ sr vr kh hvr kr a ha hab)
    (fun b hb hab => eroded_window_inside_in_block _ _ sc vc kw hvc kc b hb hab)
    r c hr hc hnr hnc

/-- **Partial masking is block-transparent away from ties** (gain model, positive source data): if the reference pixel
    under the centre of source pixel `(r, c)` lies in the output window of the block that writes `(r, c)` - which is the
    case unless the centre sits exactly on a block boundary of the reference grid -, the block computes for `(r, c)` the
    validity the single-block run computes.

    (Statement first proposed: the same for every `model : Model` and without `hposS`; refuted by
    `partial_mask_needs_total_fit`.) -/
theorem partial_mask_block_transparent (p : ImagePair) (hSr : 0 < p.Sr.p) (hSc : 0 < p.Sc.p) (hRr : 0 < p.Rr.p)
    (hRc : 0 < p.Rc.p) (hposS : ∀ r c x, p.src r c = some x → 0 < x) (kh kw : Nat) (n0 n1 : Rat)
    (sr sc vr vc : Int) (hvr : ((kh / 2 : Nat) : Int) + 1 ≤ vr) (hvc : ((kw / 2 : Nat) : Int) + 1 ≤ vc) (kr kc : Nat)
    (r c : Int) (hr : (p.blockRows sr vr kr).oout.lo ≤ r ∧ r < (p.blockRows sr vr kr).oout.hi)
    (hc : (p.blockCols sc vc kc).oout.lo ≤ c ∧ c < (p.blockCols sc vc kc).oout.hi)
    (hnr : (p.blockRows sr vr kr).pout.lo ≤ nearestIdx p.Rr p.Sr r ∧ nearestIdx p.Rr p.Sr r < (p.blockRows sr vr kr).pout.hi)
    (hnc : (p.blockCols sc vc kc).pout.lo ≤ nearestIdx p.Rc p.Sc c ∧ nearestIdx p.Rc p.Sc c < (p.blockCols sc vc kc).pout.hi) :
    p.partialValidByBlock .gain kh kw n0 n1 sr sc vr vc kr kc r c = p.partialValid .gain kh kw n0 n1 r c := by
  by_cases hk : kh = 0 ∨ kw = 0
  · -- an empty kernel: no pixel carries parameters, in either run
    show (((p.restrict _ _ _ _).src r c).isSome && (p.restrict _ _ _ _).keepEroded .gain kh kw n0 n1 _ _) =
      ((p.src r c).isSome && p.keepEroded .gain kh kw n0 n1 _ _)
    rw [keepEroded_false_of_params_none _ .gain kh kw n0 n1 _ _ (params_gain_none_of_zero _ kh kw hk n0 n1),
      keepEroded_false_of_params_none p .gain kh kw n0 n1 _ _ (params_gain_none_of_zero p kh kw hk n0 n1)]
    simp
  · have hkh : 0 < kh := by omega
    have hkw : 0 < kw := by omega
    exact partial_mask_block_transparent_of_fit p hSr hSc hRr hRc .gain kh kw n0 n1 sr sc vr vc hvr hvc kr kc
      (fitTotal_gain_of_pos p hposS kh kw hkh hkw n0 n1)
      (fitTotal_gain_of_pos _ (restrict_src_pos p hposS _ _ _ _) kh kw hkh hkw n0 n1)
      r c hr hc hnr hnc

/-! ### the two limits, as checked witnesses -/

/-- the hypotheses of `partial_mask_block_transparent` that can be computed: positive pixel sizes, overlap at least the
    kernel radius + 1, `(r, c)` in the output window `oout` of block `(kr, kc)`, and (`hnr`, `hnc`) the reference pixel under
    the centre of `(r, c)` in the block's reference output window `pout` -/
def PartialMaskHyps (p : ImagePair) (kh kw : Nat) (sr sc vr vc : Int) (kr kc : Nat) (r c : Int) (ties : Bool) : Prop :=
  (0 < p.Sr.p ∧ 0 < p.Sc.p ∧ 0 < p.Rr.p ∧ 0 < p.Rc.p) ∧
  (((kh / 2 : Nat) : Int) + 1 ≤ vr ∧ ((kw / 2 : Nat) : Int) + 1 ≤ vc) ∧
  ((p.blockRows sr vr kr).oout.lo ≤ r ∧ r < (p.blockRows sr vr kr).oout.hi) ∧
  ((p.blockCols sc vc kc).oout.lo ≤ c ∧ c < (p.blockCols sc vc kc).oout.hi) ∧
  (ties = false →
    ((p.blockRows sr vr kr).pout.lo ≤ nearestIdx p.Rr p.Sr r ∧ nearestIdx p.Rr p.Sr r < (p.blockRows sr vr kr).pout.hi) ∧
    ((p.blockCols sc vc kc).pout.lo ≤ nearestIdx p.Rc p.Sc c ∧ nearestIdx p.Rc p.Sc c < (p.blockCols sc vc kc).pout.hi))

instance (p : ImagePair) (kh kw : Nat) (sr sc vr vc : Int) (kr kc : Nat) (r c : Int) (ties : Bool) :
    Decidable (PartialMaskHyps p kh kw sr sc vr vc kr kc r c ties) := by
  unfold PartialMaskHyps; exact inferInstance

/-- identical 6 x 3 grids (unit pixels), source value `xs[r]` in row `r`, reference 1 everywhere inside the image -/
def degeneratePair (xs : List Rat) : ImagePair :=
  { Sr := ⟨0, 1, 6⟩, Sc := ⟨0, 1, 3⟩, Rr := ⟨0, 1, 6⟩, Rc := ⟨0, 1, 3⟩
    src := fun r c => if 0 ≤ r ∧ r < 6 ∧ 0 ≤ c ∧ c < 3 then some (xs.getD r.toNat 0) else none
    ref := fun i j => if 0 ≤ i ∧ i < 6 ∧ 0 ≤ j ∧ j < 3 then some 1 else none }

/-- **The fit must not degenerate** (why the statement first proposed is false).  Identical 6 x 3 grids, 3 x 1 kernel,
    overlap (2, 1), block shape (3, 3): two blocks, block (0, 0) reads reference rows 0..4 and writes rows 0..2.  Source
    pixel (2, 1) is written by block (0, 0), sits in the middle of its own reference pixel (no tie), and its eroded window
    reaches reference row 4, whose kernel window (rows 3, 4, 5) the block sees only in part (rows 3, 4):
      * gain model, source rows `1 1 1 1 -1 5`: the block's source sum at row 4 is `1 - 1 = 0` (no gain), the whole image's
        is `5`: the block masks the pixel, the single-block run keeps it;
      * gain model, source rows `1 1 1 1 1 -2`: the other way round;
      * gain-offset model, *positive* source rows `1 2 1 2 2 1`: the block sees a constant source in that window (zero
        variance, no OLS fit), the whole image does not: positivity does not rescue the two-parameter model. -/
theorem partial_mask_needs_total_fit :
    (PartialMaskHyps (degeneratePair [1, 1, 1, 1, -1, 5]) 3 1 3 3 2 1 0 0 2 1 false ∧
      (degeneratePair [1, 1, 1, 1, -1, 5]).partialValidByBlock .gain 3 1 0 0 3 3 2 1 0 0 2 1 = false ∧
      (degeneratePair [1, 1, 1, 1, -1, 5]).partialValid .gain 3 1 0 0 2 1 = true) ∧
    (PartialMaskHyps (degeneratePair [1, 1, 1, 1, 1, -2]) 3 1 3 3 2 1 0 0 2 1 false ∧
      (degeneratePair [1, 1, 1, 1, 1, -2]).partialValidByBlock .gain 3 1 0 0 3 3 2 1 0 0 2 1 = true ∧
      (degeneratePair [1, 1, 1, 1, 1, -2]).partialValid .gain 3 1 0 0 2 1 = false) ∧
    (PartialMaskHyps (degeneratePair [1, 2, 1, 2, 2, 1]) 3 1 3 3 2 1 0 0 2 1 false ∧
      (degeneratePair [1, 2, 1, 2, 2, 1]).partialValidByBlock .gainOffset 3 1 0 0 3 3 2 1 0 0 2 1 = false ∧
      (degeneratePair [1, 2, 1, 2, 2, 1]).partialValid .gainOffset 3 1 0 0 2 1 = true) := by
  decide +kernel

/-- the statement first proposed (every model, all data) is refuted -/
theorem partial_mask_original_statement_false :
    ¬ (∀ (p : ImagePair) (_ : 0 < p.Sr.p) (_ : 0 < p.Sc.p) (_ : 0 < p.Rr.p) (_ : 0 < p.Rc.p) (model : Model)
      (kh kw : Nat) (n0 n1 : Rat) (sr sc vr vc : Int) (_ : ((kh / 2 : Nat) : Int) + 1 ≤ vr)
      (_ : ((kw / 2 : Nat) : Int) + 1 ≤ vc) (kr kc : Nat) (r c : Int)
      (_ : (p.blockRows sr vr kr).oout.lo ≤ r ∧ r < (p.blockRows sr vr kr).oout.hi)
      (_ : (p.blockCols sc vc kc).oout.lo ≤ c ∧ c < (p.blockCols sc vc kc).oout.hi)
      (_ : (p.blockRows sr vr kr).pout.lo ≤ nearestIdx p.Rr p.Sr r ∧
        nearestIdx p.Rr p.Sr r < (p.blockRows sr vr kr).pout.hi)
      (_ : (p.blockCols sc vc kc).pout.lo ≤ nearestIdx p.Rc p.Sc c ∧
        nearestIdx p.Rc p.Sc c < (p.blockCols sc vc kc).pout.hi),
      p.partialValidByBlock model kh kw n0 n1 sr sc vr vc kr kc r c = p.partialValid model kh kw n0 n1 r c) := by
  intro h
  obtain ⟨⟨⟨h1, h2, h3, h4⟩, ⟨h5, h6⟩, h7, h8, h9⟩, hb, hw⟩ := partial_mask_needs_total_fit.1
  have := h (degeneratePair [1, 1, 1, 1, -1, 5]) h1 h2 h3 h4 .gain 3 1 0 0 3 3 2 1 h5 h6 0 0 2 1 h7 h8 (h9 rfl).1 (h9 rfl).2
  rw [hb, hw] at this
  cases this

/-- 0.4 m source (10 x 6) on a 0.8 m reference (6 x 3), in units of 0.1 m; the rows are offset by half a source pixel, so
    that the centre of every odd source row lies on a reference row edge; the columns are aligned.  All pixels inside the
    images are valid (source 1, reference 2). -/
def tiePair : ImagePair :=
  { Sr := ⟨2, 4, 10⟩, Sc := ⟨0, 4, 6⟩, Rr := ⟨0, 8, 6⟩, Rc := ⟨0, 8, 3⟩
    src := fun r c => if 0 ≤ r ∧ r < 10 ∧ 0 ≤ c ∧ c < 6 then some 1 else none
    ref := fun i j => if 0 ≤ i ∧ i < 6 ∧ 0 ≤ j ∧ j < 3 then some 2 else none }

theorem tiePair_src_pos : ∀ r c x, tiePair.src r c = some x → 0 < x := by
  intro r c x h
  unfold tiePair at h
  simp only at h
  split at h
  · cases h; decide
  · cases h

/-- **The tie hypotheses `hnr` / `hnc` cannot be dropped.**  `tiePair`, gain model, 1 x 1 kernel, overlap (1, 1), block shape
    (3, 3): the processing window is 6 x 3 reference pixels, split in two blocks along the rows.  Block (0, 0) has the
    reference output rows `pout = [0, 3)`, reads the reference rows `pin = [0, 4)` and writes the source rows
    `oout = [0, 6)` (both corners of `round_window_to_grid` are ties, rounded to even).  The centre of source row 5 lies
    exactly on the edge between reference rows 2 and 3, which is the block boundary; nearest-neighbour re-projection puts it
    in reference row 3 = `pout.hi`, just outside `pout` (`hnr` fails; every other hypothesis holds, and the data are
    positive).  The eroded window of reference row 3 reaches row 4, which block (0, 0) did not read: the block masks source
    pixel (5, 2), the single-block run - where reference rows 2, 3, 4 are all completely covered and fitted - keeps it. -/
theorem partial_mask_tie_counterexample :
    PartialMaskHyps tiePair 1 1 3 3 1 1 0 0 5 2 true ∧
    nBlocks (refWin tiePair.Sr tiePair.Rr).lo (refWin tiePair.Sr tiePair.Rr).hi 3 = 2 ∧
    nBlocks (refWin tiePair.Sc tiePair.Rc).lo (refWin tiePair.Sc tiePair.Rc).hi 3 = 1 ∧
    -- the centre of source row 5 is the upper edge of reference row 3, the first row after the block's output rows
    2 * tiePair.Sr.edge 5 + tiePair.Sr.p = 2 * tiePair.Rr.edge 3 ∧
    nearestIdx tiePair.Rr tiePair.Sr 5 = 3 ∧ (tiePair.blockRows 3 1 0).pout = ⟨0, 3⟩ ∧
    (tiePair.blockRows 3 1 0).pin = ⟨0, 4⟩ ∧ (tiePair.blockRows 3 1 0).oout = ⟨0, 6⟩ ∧
    -- `hnc` holds
    ((tiePair.blockCols 3 1 0).pout.lo ≤ nearestIdx tiePair.Rc tiePair.Sc 2 ∧
      nearestIdx tiePair.Rc tiePair.Sc 2 < (tiePair.blockCols 3 1 0).pout.hi) ∧
    -- and the two runs disagree
    tiePair.partialValidByBlock .gain 1 1 0 0 3 3 1 1 0 0 5 2 = false ∧
    tiePair.partialValid .gain 1 1 0 0 5 2 = true := by
  decide +kernel

/-- `partial_mask_block_transparent` without `hnr` / `hnc` is refuted -/
theorem partial_mask_tie_hypotheses_needed :
    ¬ (∀ (p : ImagePair) (_ : 0 < p.Sr.p) (_ : 0 < p.Sc.p) (_ : 0 < p.Rr.p) (_ : 0 < p.Rc.p)
      (_ : ∀ r c x, p.src r c = some x → 0 < x) (kh kw : Nat) (n0 n1 : Rat) (sr sc vr vc : Int)
      (_ : ((kh / 2 : Nat) : Int) + 1 ≤ vr) (_ : ((kw / 2 : Nat) : Int) + 1 ≤ vc) (kr kc : Nat) (r c : Int)
      (_ : (p.blockRows sr vr kr).oout.lo ≤ r ∧ r < (p.blockRows sr vr kr).oout.hi)
      (_ : (p.blockCols sc vc kc).oout.lo ≤ c ∧ c < (p.blockCols sc vc kc).oout.hi),
      p.partialValidByBlock .gain kh kw n0 n1 sr sc vr vc kr kc r c = p.partialValid .gain kh kw n0 n1 r c) := by
  intro h
  obtain ⟨⟨⟨h1, h2, h3, h4⟩, ⟨h5, h6⟩, h7, h8, _⟩, _, _, _, _, _, _, _, _, hb, hw⟩ := partial_mask_tie_counterexample
  have := h tiePair h1 h2 h3 h4 tiePair_src_pos 1 1 0 0 3 3 1 1 h5 h6 0 0 5 2 h7 h8
  rw [hb, hw] at this
  cases this

end Homonim
