/-
  E2EPartialDef — the partial mask of the whole-image model equals the property's definition (serves C17).

  The statement first proposed for `partial_valid_iff_definition` (without `hsrc`) is FALSE
  (`partial_valid_iff_definition_needs_src_extent` below): `coverRef` reads the source lookup `p.src` at every source pixel
  *position* that meets the reference pixel, whereas the averaged source `srcDs` (hence `params`) only ever reads positions
  inside the source image `[0, Sr.n) x [0, Sc.n)`.  A lookup that answers `some` beyond the image extent makes a reference
  pixel "completely covered" while no source pixel of the image meets it.  The repair is the hypothesis the model's comment
  already states in words ("positions outside the source image hold none"), the mirror image of `href`.
-/
import Homonim.Props.E2EPartial
import Homonim.Lemmas.E2EPartialDef
namespace Homonim

/-- the property's definition on the reference grid: reference pixel `(a, b)` is valid in the reference and completely covered
    by valid source pixels -/
def ImagePair.fullySupported (p : ImagePair) (a b : Int) : Bool := (p.ref a b).isSome && p.coverRef a b

/-- the right-hand side of `partial_valid_iff_definition` -/
def ImagePair.partialValidDef (p : ImagePair) (kh kw : Nat) (r c : Int) : Bool :=
  (p.src r c).isSome &&
    (List.range (kh + 2)).all fun (di : Nat) => (List.range (kw + 2)).all fun (dj : Nat) =>
      p.fullySupported (nearestIdx p.Rr p.Sr r - (((kh + 2) / 2 : Nat) : Int) + di)
        (nearestIdx p.Rc p.Sc c - (((kw + 2) / 2 : Nat) : Int) + dj)

/-- **Partial masking keeps exactly the fully supported pixels** (reference grid, gain model, positive source, kernel at least
    1 x 1, both lookups `none` outside their image): a corrected pixel is valid iff the source pixel is valid and the
    reference pixel under its centre, and every reference pixel of the kernel window around it grown by one pixel, is valid
    in the reference and completely covered by valid source pixels.

    (Statement first proposed: the same without `hsrc`; refuted by `partial_valid_iff_definition_original_false`.) -/
theorem partial_valid_iff_definition (p : ImagePair) (hSr : 0 < p.Sr.p) (hSc : 0 < p.Sc.p) (hRr : 0 < p.Rr.p) (hRc : 0 < p.Rc.p)
    (hposS : ∀ r c x, p.src r c = some x → 0 < x)
    (hsrc : ∀ r c, ¬ (0 ≤ r ∧ r < p.Sr.n ∧ 0 ≤ c ∧ c < p.Sc.n) → p.src r c = none)
    (href : ∀ i j, ¬ (0 ≤ i ∧ i < p.Rr.n ∧ 0 ≤ j ∧ j < p.Rc.n) → p.ref i j = none)
    (kh kw : Nat) (hkh : 0 < kh) (hkw : 0 < kw) (n0 n1 : Rat) (r c : Int) :
    p.partialValid .gain kh kw n0 n1 r c =
      ((p.src r c).isSome &&
        (List.range (kh + 2)).all fun (di : Nat) => (List.range (kw + 2)).all fun (dj : Nat) =>
          p.fullySupported (nearestIdx p.Rr p.Sr r - (((kh + 2) / 2 : Nat) : Int) + di)
            (nearestIdx p.Rc p.Sc c - (((kw + 2) / 2 : Nat) : Int) + dj)) := by
  have hk : p.keepIn .gain kh kw n0 n1 = p.fullySupported := by
    funext a b
    exact keepIn_gain_eq p hSr hSc hRr hRc hposS hsrc href kh kw hkh hkw n0 n1 a b
  unfold ImagePair.partialValid ImagePair.keepEroded
  rw [hk]

/-- **Subset and strictness**: the partially masked result is a subset of the source mask, and a source pixel whose centre
    falls in the first or last row / column of the reference image never survives (the grown window leaves the image).
    Every model, every kernel shape: for `k ≥ 1` the grown window of `k + 2` pixels anchored at `(k + 2) / 2` reaches at
    least one pixel to either side (`(k + 2) / 2 ≥ 1` and `k + 1 - (k + 2) / 2 ≥ 1`); for `k = 0` it only reaches `i - 1 .. i`,
    but then the kernel is empty and no pixel carries parameters, so nothing survives at all. -/
theorem partial_valid_subset_strict (p : ImagePair) (model : Model) (kh kw : Nat) (n0 n1 : Rat) (r c : Int)
    (h : p.partialValid model kh kw n0 n1 r c = true) :
    (p.src r c).isSome = true ∧ 0 < nearestIdx p.Rr p.Sr r ∧ nearestIdx p.Rr p.Sr r < p.Rr.n - 1 ∧
      0 < nearestIdx p.Rc p.Sc c ∧ nearestIdx p.Rc p.Sc c < p.Rc.n - 1 := by
  unfold ImagePair.partialValid at h
  rw [Bool.and_eq_true] at h
  exact ⟨h.1, keepEroded_strictly_inside p model kh kw n0 n1 _ _ h.2⟩

/-! ### why `hsrc` is needed -/

/-- 5 x 5 reference, unit pixels, valid inside its extent; a source *image* of 2 x 5 unit pixels on the same origin whose lookup
    nevertheless answers `some 1` at every position -/
def leakySrcPair : ImagePair :=
  { Sr := ⟨0, 1, 2⟩, Sc := ⟨0, 1, 5⟩, Rr := ⟨0, 1, 5⟩, Rc := ⟨0, 1, 5⟩
    src := fun _ _ => some 1
    ref := fun i j => if 0 ≤ i ∧ i < 5 ∧ 0 ≤ j ∧ j < 5 then some 1 else none }

/-- **The source lookup must be `none` outside the source image**: for `leakySrcPair`, 1 x 1 kernel, pixel (2, 2): the eroded
    window is reference rows and columns 1..3, all valid in the reference and "covered" by the lookup, so the definition
    says valid; but reference rows 2, 3 meet no pixel of the 2-row source image, carry no averaged source and no parameters,
    and the model says invalid. -/
theorem partial_valid_iff_definition_needs_src_extent :
    leakySrcPair.partialValid .gain 1 1 0 0 2 2 = false ∧ leakySrcPair.partialValidDef 1 1 2 2 = true := by
  decide +kernel

/-- the statement first proposed (no `hsrc`) is refuted -/
theorem partial_valid_iff_definition_original_false :
    ¬ (∀ (p : ImagePair) (_ : 0 < p.Sr.p) (_ : 0 < p.Sc.p) (_ : 0 < p.Rr.p) (_ : 0 < p.Rc.p)
        (_ : ∀ r c x, p.src r c = some x → 0 < x)
        (_ : ∀ i j, ¬ (0 ≤ i ∧ i < p.Rr.n ∧ 0 ≤ j ∧ j < p.Rc.n) → p.ref i j = none)
        (kh kw : Nat) (_ : 0 < kh) (_ : 0 < kw) (n0 n1 : Rat) (r c : Int),
        p.partialValid .gain kh kw n0 n1 r c = p.partialValidDef kh kw r c) := by
  intro H
  have h := H leakySrcPair (by decide) (by decide) (by decide) (by decide)
    (by intro r c x hx; have : x = 1 := (Option.some.inj hx).symm; subst this; decide)
    (by intro i j hn; have hn' : ¬ (0 ≤ i ∧ i < 5 ∧ 0 ≤ j ∧ j < 5) := hn
        show (if 0 ≤ i ∧ i < 5 ∧ 0 ≤ j ∧ j < 5 then some (1 : Rat) else none) = none; rw [if_neg hn'])
    1 1 (by decide) (by decide) 0 0 2 2
  rw [partial_valid_iff_definition_needs_src_extent.1, partial_valid_iff_definition_needs_src_extent.2] at h
  cases h

end Homonim
