/-
  E2EPartialSrc — block invariance of partial masking on the source grid (serves C17).
-/
import Homonim.Props.E2EPartial
import Homonim.Props.E2ESrc
import Homonim.Lemmas.E2EPartialSrc
namespace Homonim

/-- the whole-run definition is the "On" pipeline with the windows the single-block run reads (every model, every
    resampling).  The source restricted to `srcWin` differs from the source only outside the source image; there the
    parameters at the centre of the eroded window are `none` on both sides, so both sides are `false`. -/
theorem partialValidSrcGrid_eq_on (p : ImagePair) (hSr : 0 < p.Sr.p) (hSc : 0 < p.Sc.p) (hRr : 0 < p.Rr.p) (hRc : 0 < p.Rc.p)
    (model : Model) (kh kw : Nat) (n0 n1 : Rat) (m : Resampling) (r c : Int) :
    p.partialValidSrcGrid model kh kw n0 n1 m r c
      = p.partialValidSrcGridOn model kh kw n0 n1 m (srcWin p.Sr p.Rr) (srcWin p.Sc p.Rc)
          (expandTo p.Sr p.Rr (srcWin p.Sr p.Rr)) (expandTo p.Sc p.Rc (srcWin p.Sc p.Rc)) r c := by
  rw [partialValidSrcGrid_eq_gen, partialValidSrcGridOn_eq_gen]
  have sa := srcWin_covers_src p.Sr p.Rr hSr hRr
  have sb := srcWin_covers_src p.Sc p.Rc hSc hRc
  -- inside the source image the restricted source is the source
  have hsrc : ∀ a b : Int, 0 ≤ a ∧ a < p.Sr.n → 0 ≤ b ∧ b < p.Sc.n →
      p.src a b = (p.src.restrict (srcWin p.Sr p.Rr) (srcWin p.Sc p.Rc)) a b := by
    intro a b ha hb
    unfold ImgO.restrict
    rw [if_pos ⟨by omega, by omega, by omega, by omega⟩]
  by_cases hin : 0 ≤ r ∧ r < p.Sr.n ∧ 0 ≤ c ∧ c < p.Sc.n
  · apply partialValidSrcGen_congr
    · rw [← hsrc r c ⟨hin.1, hin.2.1⟩ ⟨hin.2.2.1, hin.2.2.2⟩]
    · intro a b _ _
      unfold keepInSrcGen
      congr 2
      apply paramsSrcGen_congr
      intro x y hx hy _ _
      exact ⟨hsrc x y hx hy, rfl⟩
  · rw [partialValidSrcGen_false_outside _ _ _ _ _ _ _ _ _ _ _ _ r c hin,
      partialValidSrcGen_false_outside _ _ _ _ _ _ _ _ _ _ _ _ r c hin]

/-- **Partial masking on the source grid is block-transparent** (gain model, positive source, the reference brought to the source
    grid by `average` or `nearest`): every source pixel of a block's output window gets from that block the validity the
    single-block run gives it - there is no re-projection of the mask on this grid, hence no tie condition. -/
theorem partial_mask_src_grid_block_transparent (p : ImagePair) (hSr : 0 < p.Sr.p) (hSc : 0 < p.Sc.p) (hRr : 0 < p.Rr.p)
    (hRc : 0 < p.Rc.p) (hposS : ∀ r c x, p.src r c = some x → 0 < x)
    (kh kw : Nat) (n0 n1 : Rat) (m : Resampling) (hm : m ≠ .bilinear)
    (sr sc vr vc : Int) (hvr : ((kh / 2 : Nat) : Int) + 1 ≤ vr) (hvc : ((kw / 2 : Nat) : Int) + 1 ≤ vc) (kr kc : Nat)
    (r c : Int) (hr : (p.blockRowsSrc sr vr kr).pout.lo ≤ r ∧ r < (p.blockRowsSrc sr vr kr).pout.hi)
    (hc : (p.blockColsSrc sc vc kc).pout.lo ≤ c ∧ c < (p.blockColsSrc sc vc kc).pout.hi) :
    p.partialValidSrcGridByBlock .gain kh kw n0 n1 m sr sc vr vc kr kc r c = p.partialValidSrcGrid .gain kh kw n0 n1 m r c := by
  rw [partialValidSrcGrid_eq_gen]
  show p.partialValidSrcGridOn .gain kh kw n0 n1 m
      (procIn (srcWin p.Sr p.Rr).lo (srcWin p.Sr p.Rr).hi sr vr kr)
      (procIn (srcWin p.Sc p.Rc).lo (srcWin p.Sc p.Rc).hi sc vc kc)
      (expandTo p.Sr p.Rr (procIn (srcWin p.Sr p.Rr).lo (srcWin p.Sr p.Rr).hi sr vr kr))
      (expandTo p.Sc p.Rc (procIn (srcWin p.Sc p.Rc).lo (srcWin p.Sc p.Rc).hi sc vc kc)) r c = _
  rw [partialValidSrcGridOn_eq_gen]
  have hr' : (procOut (srcWin p.Sr p.Rr).lo (srcWin p.Sr p.Rr).hi sr vr kr).lo ≤ r ∧
      r < (procOut (srcWin p.Sr p.Rr).lo (srcWin p.Sr p.Rr).hi sr vr kr).hi := hr
  have hc' : (procOut (srcWin p.Sc p.Rc).lo (srcWin p.Sc p.Rc).hi sc vc kc).lo ≤ c ∧
      c < (procOut (srcWin p.Sc p.Rc).lo (srcWin p.Sc p.Rc).hi sc vc kc).hi := hc
  have hvr0 : 0 ≤ vr := by omega
  have hvc0 : 0 ≤ vc := by omega
  -- the whole source image lies in the processing window
  have sa := srcWin_covers_src p.Sr p.Rr hSr hRr
  have sb := srcWin_covers_src p.Sc p.Rc hSc hRc
  -- `pout ⊆ pin`: the block read the pixel itself
  have hsubR := in_contains_out_plus_overlap_aux (srcWin p.Sr p.Rr).lo (srcWin p.Sr p.Rr).hi sr vr hvr0 kr
  have hsubC := in_contains_out_plus_overlap_aux (srcWin p.Sc p.Rc).lo (srcWin p.Sc p.Rc).hi sc vc hvc0 kc
  apply partialValidSrcGen_congr
  · unfold ImgO.restrict
    rw [if_pos ⟨by omega, by omega, by omega, by omega⟩]
  · intro a b ha hb
    by_cases hin : 0 ≤ a ∧ a < p.Sr.n ∧ 0 ≤ b ∧ b < p.Sc.n
    · -- inside the image, hence inside the processing window, the eroded window of a pixel of `pout` lies in `pin`
      have ain := eroded_window_inside_in_block (srcWin p.Sr p.Rr).lo (srcWin p.Sr p.Rr).hi sr vr kh hvr kr a
        (by omega) ⟨by omega, by omega⟩
      have bin := eroded_window_inside_in_block (srcWin p.Sc p.Rc).lo (srcWin p.Sc p.Rc).hi sc vc kw hvc kc b
        (by omega) ⟨by omega, by omega⟩
      have aw : (srcWin p.Sr p.Rr).lo ≤ a ∧ a < (srcWin p.Sr p.Rr).hi := ⟨by omega, by omega⟩
      have bw : (srcWin p.Sc p.Rc).lo ≤ b ∧ b < (srcWin p.Sc p.Rc).hi := ⟨by omega, by omega⟩
      -- the coverage test: every reference pixel meeting `(a, b)` was read by the block and by the whole run
      have hcov : coverSrcGen p.Sr p.Sc p.Rr p.Rc (p.ref.restrict
            (expandTo p.Sr p.Rr (procIn (srcWin p.Sr p.Rr).lo (srcWin p.Sr p.Rr).hi sr vr kr))
            (expandTo p.Sc p.Rc (procIn (srcWin p.Sc p.Rc).lo (srcWin p.Sc p.Rc).hi sc vc kc))) a b =
          coverSrcGen p.Sr p.Sc p.Rr p.Rc p.refRead a b := by
        apply coverSrcGen_congr
        intro x y hx hy
        have x1 := refUnder_subset_expand p.Sr p.Rr hSr hRr _ a ain x hx
        have y1 := refUnder_subset_expand p.Sc p.Rc hSc hRc _ b bin y hy
        have x2 := refUnder_subset_expand p.Sr p.Rr hSr hRr _ a aw x hx
        have y2 := refUnder_subset_expand p.Sc p.Rc hSc hRc _ b bw y hy
        unfold ImagePair.refRead ImgO.restrict
        rw [if_pos ⟨x1.1, x1.2, y1.1, y1.2⟩, if_pos ⟨x2.1, x2.2, y2.1, y2.2⟩]
      -- the parameters: `some` exactly at the jointly valid pixels, in both runs (or never, for an empty kernel)
      have hpar : (paramsSrcGen p.Sr p.Sc p.Rr p.Rc .gain kh kw n0 n1 m
            (p.src.restrict (procIn (srcWin p.Sr p.Rr).lo (srcWin p.Sr p.Rr).hi sr vr kr)
              (procIn (srcWin p.Sc p.Rc).lo (srcWin p.Sc p.Rc).hi sc vc kc))
            (p.ref.restrict
              (expandTo p.Sr p.Rr (procIn (srcWin p.Sr p.Rr).lo (srcWin p.Sr p.Rr).hi sr vr kr))
              (expandTo p.Sc p.Rc (procIn (srcWin p.Sc p.Rc).lo (srcWin p.Sc p.Rc).hi sc vc kc))) a b).isSome =
          (paramsSrcGen p.Sr p.Sc p.Rr p.Rc .gain kh kw n0 n1 m p.src p.refRead a b).isSome := by
        by_cases hk : kh = 0 ∨ kw = 0
        · rw [paramsSrcGen_gain_none_of_zero _ _ _ _ kh kw hk, paramsSrcGen_gain_none_of_zero _ _ _ _ kh kw hk]
        · have hkh : 0 < kh := by omega
          have hkw : 0 < kw := by omega
          rw [paramsSrcGen_gain_isSome _ _ _ _ kh kw hkh hkw n0 n1 m _ _ (restrict_pos p.src hposS _ _) a b hin,
            paramsSrcGen_gain_isSome _ _ _ _ kh kw hkh hkw n0 n1 m _ _ hposS a b hin,
            resample2_restrict_expand m hm p.Sr p.Sc p.Rr p.Rc hSr hSc hRr hRc p.ref _ _ a b ain bin]
          unfold ImagePair.refRead
          rw [resample2_restrict_expand m hm p.Sr p.Sc p.Rr p.Rc hSr hSc hRr hRc p.ref
            (srcWin p.Sr p.Rr) (srcWin p.Sc p.Rc) a b aw bw]
          congr 2
          unfold ImgO.restrict
          rw [if_pos ⟨ain.1, ain.2, bin.1, bin.2⟩]
      unfold keepInSrcGen
      rw [hcov, hpar]
    · -- outside the image there are no parameters, in either run
      rw [keepInSrcGen_false_outside _ _ _ _ _ _ _ _ _ _ _ _ a b hin,
        keepInSrcGen_false_outside _ _ _ _ _ _ _ _ _ _ _ _ a b hin]

end Homonim
