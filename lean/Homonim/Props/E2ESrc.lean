/-
  E2ESrc — end-to-end block transparency for source-grid processing (serves C05).
-/
import Homonim.Props.E2E
import Homonim.Lemmas.E2ESrc
namespace Homonim

/- ORIGINAL STATEMENT (false as written: it had `hsrc` but no positivity of the pixel sizes):

   theorem correctedSrcGrid_eq_on (p : ImagePair) (model : Model) (kh kw : Nat) (n0 n1 : Rat) (m : Resampling) (r c : Int)
       (hsrc : ∀ r c, ¬ (0 ≤ r ∧ r < p.Sr.n ∧ 0 ≤ c ∧ c < p.Sc.n) → p.src r c = none) :
       p.correctedSrcGrid model kh kw n0 n1 m r c
         = p.correctedSrcGridOn model kh kw n0 n1 m (srcWin p.Sr p.Rr) (srcWin p.Sc p.Rc)
             (expandTo p.Sr p.Rr (srcWin p.Sr p.Rr)) (expandTo p.Sc p.Rc (srcWin p.Sc p.Rc)) r c

   Counterexample (a degenerate source pixel size 0, so `srcWin` is empty and does not contain the source image):
   see `correctedSrcGrid_eq_on_needs_pos` below.  With positive pixel sizes `srcWin` contains the whole source image
   (`srcWin_covers_src`), and then `hsrc` is not needed: the pipeline never reads the source outside its image. -/

/-- the counterexample to the original statement: source pixel size 0 -/
def cexEqOn : ImagePair :=
  ⟨⟨1, 0, 1⟩, ⟨1, 0, 1⟩, ⟨0, 2, 1⟩, ⟨0, 2, 1⟩, fun r c => if r = 0 ∧ c = 0 then some 1 else none, fun _ _ => some 2⟩

theorem correctedSrcGrid_eq_on_needs_pos :
    (∀ r c, ¬ (0 ≤ r ∧ r < cexEqOn.Sr.n ∧ 0 ≤ c ∧ c < cexEqOn.Sc.n) → cexEqOn.src r c = none) ∧
    cexEqOn.correctedSrcGrid .gain 1 1 1 0 .nearest 0 0 = some 2 ∧
    cexEqOn.correctedSrcGridOn .gain 1 1 1 0 .nearest (srcWin cexEqOn.Sr cexEqOn.Rr) (srcWin cexEqOn.Sc cexEqOn.Rc)
      (expandTo cexEqOn.Sr cexEqOn.Rr (srcWin cexEqOn.Sr cexEqOn.Rr))
      (expandTo cexEqOn.Sc cexEqOn.Rc (srcWin cexEqOn.Sc cexEqOn.Rc)) 0 0 = none := by
  refine ⟨?_, by decide +kernel, by decide +kernel⟩
  intro r c h
  show (if r = 0 ∧ c = 0 then some (1 : Rat) else none) = none
  rw [if_neg]
  rintro ⟨rfl, rfl⟩
  exact h (by decide)

/-- the whole-image source-grid run is the pipeline on the whole source and the reference window it reads
    (pixel sizes positive; the hypothesis `hsrc` of the first draft is not needed) -/
theorem correctedSrcGrid_eq_on (p : ImagePair) (hSr : 0 < p.Sr.p) (hSc : 0 < p.Sc.p) (hRr : 0 < p.Rr.p) (hRc : 0 < p.Rc.p)
    (model : Model) (kh kw : Nat) (n0 n1 : Rat) (m : Resampling) (r c : Int) :
    p.correctedSrcGrid model kh kw n0 n1 m r c
      = p.correctedSrcGridOn model kh kw n0 n1 m (srcWin p.Sr p.Rr) (srcWin p.Sc p.Rc)
          (expandTo p.Sr p.Rr (srcWin p.Sr p.Rr)) (expandTo p.Sc p.Rc (srcWin p.Sc p.Rc)) r c := by
  rw [correctedSrcGrid_eq_gen, correctedSrcGridOn_eq_gen]
  apply srcGridGen_congr
  intro a b ha hb _ _
  have sa := srcWin_covers_src p.Sr p.Rr hSr hRr
  have sb := srcWin_covers_src p.Sc p.Rc hSc hRc
  refine ⟨?_, rfl⟩
  unfold ImgO.restrict
  rw [if_pos ⟨by omega, by omega, by omega, by omega⟩]

/-- **Blocking is transparent on the source grid** when the reference is brought to the source grid by `average` (the
    reference is the finer image - the automatic choice of the source grid) or by `nearest`: every source pixel of a block's
    output window gets from that block the value and validity of the single-block run.
    (The first draft also assumed the source to be `none` outside its image; that is not needed.) -/
theorem block_transparent_src_grid (p : ImagePair) (hSr : 0 < p.Sr.p) (hSc : 0 < p.Sc.p) (hRr : 0 < p.Rr.p) (hRc : 0 < p.Rc.p)
    (model : Model) (kh kw : Nat) (n0 n1 : Rat) (m : Resampling) (hm : m ≠ .bilinear)
    (sr sc vr vc : Int) (hvr : ((kh / 2 : Nat) : Int) + 1 ≤ vr) (hvc : ((kw / 2 : Nat) : Int) + 1 ≤ vc) (kr kc : Nat)
    (r c : Int) (hr : (p.blockRowsSrc sr vr kr).pout.lo ≤ r ∧ r < (p.blockRowsSrc sr vr kr).pout.hi)
    (hc : (p.blockColsSrc sc vc kc).pout.lo ≤ c ∧ c < (p.blockColsSrc sc vc kc).pout.hi) :
    p.correctedSrcGridByBlock model kh kw n0 n1 m sr sc vr vc kr kc r c = p.correctedSrcGrid model kh kw n0 n1 m r c := by
  rw [correctedSrcGrid_eq_gen]
  show p.correctedSrcGridOn model kh kw n0 n1 m
      (procIn (srcWin p.Sr p.Rr).lo (srcWin p.Sr p.Rr).hi sr vr kr)
      (procIn (srcWin p.Sc p.Rc).lo (srcWin p.Sc p.Rc).hi sc vc kc)
      (expandTo p.Sr p.Rr (procIn (srcWin p.Sr p.Rr).lo (srcWin p.Sr p.Rr).hi sr vr kr))
      (expandTo p.Sc p.Rc (procIn (srcWin p.Sc p.Rc).lo (srcWin p.Sc p.Rc).hi sc vc kc)) r c = _
  rw [correctedSrcGridOn_eq_gen]
  have hr' : (procOut (srcWin p.Sr p.Rr).lo (srcWin p.Sr p.Rr).hi sr vr kr).lo ≤ r ∧
      r < (procOut (srcWin p.Sr p.Rr).lo (srcWin p.Sr p.Rr).hi sr vr kr).hi := hr
  have hc' : (procOut (srcWin p.Sc p.Rc).lo (srcWin p.Sc p.Rc).hi sc vc kc).lo ≤ c ∧
      c < (procOut (srcWin p.Sc p.Rc).lo (srcWin p.Sc p.Rc).hi sc vc kc).hi := hc
  apply srcGridGen_congr
  intro a b ha hb har hbc
  -- the whole source image lies in the processing window ...
  have sa := srcWin_covers_src p.Sr p.Rr hSr hRr
  have sb := srcWin_covers_src p.Sc p.Rc hSc hRc
  -- ... so the kernel window of a pixel of `pout`, clipped to the image, lies in `pin`
  have ain := kernel_window_inside_in_block (srcWin p.Sr p.Rr).lo (srcWin p.Sr p.Rr).hi sr vr kh hvr kr r
    ⟨by omega, by omega⟩ a har ⟨by omega, by omega⟩
  have bin := kernel_window_inside_in_block (srcWin p.Sc p.Rc).lo (srcWin p.Sc p.Rc).hi sc vc kw hvc kc c
    ⟨by omega, by omega⟩ b hbc ⟨by omega, by omega⟩
  have aw := procIn_subset _ _ _ _ _ a ain
  have bw := procIn_subset _ _ _ _ _ b bin
  constructor
  · unfold ImgO.restrict
    rw [if_pos ⟨ain.1, ain.2, bin.1, bin.2⟩]
  · rw [resample2_restrict_expand m hm p.Sr p.Sc p.Rr p.Rc hSr hSc hRr hRc p.ref _ _ a b ain bin]
    unfold ImagePair.refRead
    rw [resample2_restrict_expand m hm p.Sr p.Sc p.Rr p.Rc hSr hSc hRr hRc p.ref
      (srcWin p.Sr p.Rr) (srcWin p.Sc p.Rc) a b aw bw]

/-- **Two partitions agree on the source grid** -/
theorem partitions_agree_src_grid (p : ImagePair) (hSr : 0 < p.Sr.p) (hSc : 0 < p.Sc.p) (hRr : 0 < p.Rr.p)
    (hRc : 0 < p.Rc.p) (model : Model) (kh kw : Nat) (n0 n1 : Rat) (m : Resampling) (hm : m ≠ .bilinear)
    (sr sc vr vc sr' sc' vr' vc' : Int)
    (hvr : ((kh / 2 : Nat) : Int) + 1 ≤ vr) (hvc : ((kw / 2 : Nat) : Int) + 1 ≤ vc)
    (hvr' : ((kh / 2 : Nat) : Int) + 1 ≤ vr') (hvc' : ((kw / 2 : Nat) : Int) + 1 ≤ vc')
    (kr kc kr' kc' : Nat) (r c : Int)
    (hr : (p.blockRowsSrc sr vr kr).pout.lo ≤ r ∧ r < (p.blockRowsSrc sr vr kr).pout.hi)
    (hc : (p.blockColsSrc sc vc kc).pout.lo ≤ c ∧ c < (p.blockColsSrc sc vc kc).pout.hi)
    (hr' : (p.blockRowsSrc sr' vr' kr').pout.lo ≤ r ∧ r < (p.blockRowsSrc sr' vr' kr').pout.hi)
    (hc' : (p.blockColsSrc sc' vc' kc').pout.lo ≤ c ∧ c < (p.blockColsSrc sc' vc' kc').pout.hi) :
    p.correctedSrcGridByBlock model kh kw n0 n1 m sr sc vr vc kr kc r c
      = p.correctedSrcGridByBlock model kh kw n0 n1 m sr' sc' vr' vc' kr' kc' r c := by
  rw [block_transparent_src_grid p hSr hSc hRr hRc model kh kw n0 n1 m hm sr sc vr vc hvr hvc kr kc r c hr hc,
    block_transparent_src_grid p hSr hSc hRr hRc model kh kw n0 n1 m hm sr' sc' vr' vc' hvr' hvc' kr' kc' r c hr' hc']

/-! ### `bilinear`

  The analogous statement for `m = bilinear` is FALSE in this model (see `block_transparent_src_grid_bilinear_false`
  below): the 2 x 2 bilinear support of a source pixel can reach a reference pixel that does not meet the block's input
  window `pin` (so it is outside `oin` = expandTo(pin) and the block sees it as nodata, weights renormalised) although the
  single-block run reads it.  With overlap = kernel radius + 1 this happens exactly when a reference pixel is more than
  3 source pixels long (`R.p > 3 * S.p`): the pixels of a kernel window centred in `pout` are at least one source pixel
  (1.5 pixels for their centres) inside `pin`, and a support pixel's near edge is less than `R.p / 2` from the centre.
  With `R.p ≤ 3 * S.p` along both axes the statement is true (`block_transparent_src_grid_bilinear`).
  A brute-force `#eval` sweep (S.p ∈ {1,2}, R.p ∈ 1..9, several origins / sizes / block lengths, kh ∈ {1,3}, every block
  and pixel) found mismatches for bilinear exactly at the ratios `R.p > 3 * S.p`, and none for nearest / average. -/

/-- **Blocking is transparent on the source grid with `bilinear`** provided a reference pixel is at most 3 source pixels
    long along each axis -/
theorem block_transparent_src_grid_bilinear (p : ImagePair) (hSr : 0 < p.Sr.p) (hSc : 0 < p.Sc.p) (hRr : 0 < p.Rr.p)
    (hRc : 0 < p.Rc.p) (hratr : p.Rr.p ≤ 3 * p.Sr.p) (hratc : p.Rc.p ≤ 3 * p.Sc.p)
    (model : Model) (kh kw : Nat) (n0 n1 : Rat)
    (sr sc vr vc : Int) (hvr : ((kh / 2 : Nat) : Int) + 1 ≤ vr) (hvc : ((kw / 2 : Nat) : Int) + 1 ≤ vc) (kr kc : Nat)
    (r c : Int) (hr : (p.blockRowsSrc sr vr kr).pout.lo ≤ r ∧ r < (p.blockRowsSrc sr vr kr).pout.hi)
    (hc : (p.blockColsSrc sc vc kc).pout.lo ≤ c ∧ c < (p.blockColsSrc sc vc kc).pout.hi) :
    p.correctedSrcGridByBlock model kh kw n0 n1 .bilinear sr sc vr vc kr kc r c
      = p.correctedSrcGrid model kh kw n0 n1 .bilinear r c := by
  rw [correctedSrcGrid_eq_gen]
  show p.correctedSrcGridOn model kh kw n0 n1 .bilinear
      (procIn (srcWin p.Sr p.Rr).lo (srcWin p.Sr p.Rr).hi sr vr kr)
      (procIn (srcWin p.Sc p.Rc).lo (srcWin p.Sc p.Rc).hi sc vc kc)
      (expandTo p.Sr p.Rr (procIn (srcWin p.Sr p.Rr).lo (srcWin p.Sr p.Rr).hi sr vr kr))
      (expandTo p.Sc p.Rc (procIn (srcWin p.Sc p.Rc).lo (srcWin p.Sc p.Rc).hi sc vc kc)) r c = _
  rw [correctedSrcGridOn_eq_gen]
  have hr' : (procOut (srcWin p.Sr p.Rr).lo (srcWin p.Sr p.Rr).hi sr vr kr).lo ≤ r ∧
      r < (procOut (srcWin p.Sr p.Rr).lo (srcWin p.Sr p.Rr).hi sr vr kr).hi := hr
  have hc' : (procOut (srcWin p.Sc p.Rc).lo (srcWin p.Sc p.Rc).hi sc vc kc).lo ≤ c ∧
      c < (procOut (srcWin p.Sc p.Rc).lo (srcWin p.Sc p.Rc).hi sc vc kc).hi := hc
  apply srcGridGen_congr
  intro a b ha hb har hbc
  have sa := srcWin_covers_src p.Sr p.Rr hSr hRr
  have sb := srcWin_covers_src p.Sc p.Rc hSc hRc
  have ain := kernel_window_inside_in_block (srcWin p.Sr p.Rr).lo (srcWin p.Sr p.Rr).hi sr vr kh hvr kr r
    ⟨by omega, by omega⟩ a har ⟨by omega, by omega⟩
  have bin := kernel_window_inside_in_block (srcWin p.Sc p.Rc).lo (srcWin p.Sc p.Rc).hi sc vc kw hvc kc c
    ⟨by omega, by omega⟩ b hbc ⟨by omega, by omega⟩
  have ast := kernel_window_strictly_inside (srcWin p.Sr p.Rr).lo (srcWin p.Sr p.Rr).hi sr vr kh hvr kr r hr' a har
  have bst := kernel_window_strictly_inside (srcWin p.Sc p.Rc).lo (srcWin p.Sc p.Rc).hi sc vc kw hvc kc c hc' b hbc
  constructor
  · unfold ImgO.restrict
    rw [if_pos ⟨ain.1, ain.2, bin.1, bin.2⟩]
  · unfold ImagePair.refRead
    have hsubr : (srcWin p.Sr p.Rr).lo ≤ (procIn (srcWin p.Sr p.Rr).lo (srcWin p.Sr p.Rr).hi sr vr kr).lo ∧
        (procIn (srcWin p.Sr p.Rr).lo (srcWin p.Sr p.Rr).hi sr vr kr).hi ≤ (srcWin p.Sr p.Rr).hi := by
      unfold procIn; simp only; omega
    have hsubc : (srcWin p.Sc p.Rc).lo ≤ (procIn (srcWin p.Sc p.Rc).lo (srcWin p.Sc p.Rc).hi sc vc kc).lo ∧
        (procIn (srcWin p.Sc p.Rc).lo (srcWin p.Sc p.Rc).hi sc vc kc).hi ≤ (srcWin p.Sc p.Rc).hi := by
      unfold procIn; simp only; omega
    exact bilinear2_restrict_agree p.Sr p.Sc p.Rr p.Rc hSr hSc hRr hRc hratr hratc p.ref _ _
      (srcWin p.Sr p.Rr) (srcWin p.Sc p.Rc) hsubr hsubc a b ain bin ast.1 ast.2 bst.1 bst.2

/-- the smallest counterexample found for `bilinear` (1 m source, 4 m reference, aligned origins; 5 x 1 source pixels,
    2 x 1 reference pixels; 1 x 1 kernel, so overlap 1 = kh/2 + 1; row blocks of 3, column blocks of 2): block (0, 0) has
    `pin` = rows [0, 4), `pout` = rows [0, 3), `oin` = reference row [0, 1).  The centre of source row 2 (2.5 m) lies
    between the centres of reference rows 0 and 1 (2 m, 6 m), so the single-block run interpolates
    (7 * 1 + 1 * 2) / 8 = 9/8, whereas the block sees reference row 1 (4 m .. 8 m, not meeting `pin` = 0 m .. 4 m) as nodata
    and gets 1. -/
def cexBilinear : ImagePair :=
  ⟨⟨0, 1, 5⟩, ⟨0, 1, 1⟩, ⟨0, 4, 2⟩, ⟨0, 1, 1⟩,
    fun r c => if 0 ≤ r ∧ r < 5 ∧ c = 0 then some 1 else none,
    fun i j => if j = 0 then (if i = 0 then some 1 else if i = 1 then some 2 else none) else none⟩

/-- **`block_transparent_src_grid` is false for `bilinear`** (all its other hypotheses hold) -/
theorem block_transparent_src_grid_bilinear_false :
    let p := cexBilinear
    (0 < p.Sr.p ∧ 0 < p.Sc.p ∧ 0 < p.Rr.p ∧ 0 < p.Rc.p) ∧
    (((1 / 2 : Nat) : Int) + 1 ≤ 1) ∧ 0 < nBlocks (srcWin p.Sr p.Rr).lo (srcWin p.Sr p.Rr).hi 3 ∧
    ((p.blockRowsSrc 3 1 0).pout.lo ≤ 2 ∧ 2 < (p.blockRowsSrc 3 1 0).pout.hi) ∧
    ((p.blockColsSrc 2 1 0).pout.lo ≤ 0 ∧ 0 < (p.blockColsSrc 2 1 0).pout.hi) ∧
    p.correctedSrcGridByBlock .gain 1 1 1 0 .bilinear 3 2 1 1 0 0 2 0 = some 1 ∧
    p.correctedSrcGrid .gain 1 1 1 0 .bilinear 2 0 = some (9 / 8) := by
  decide +kernel

/-  `#eval` check of the counterexample (output of Lean 4 on these lines):
      #eval (srcWin cexBilinear.Sr cexBilinear.Rr, cexBilinear.blockRowsSrc 3 1 0, cexBilinear.blockColsSrc 2 1 0)
        -- ({ lo := 0, hi := 8 },
        --  { pin := { lo := 0, hi := 4 }, pout := { lo := 0, hi := 3 }, oin := { lo := 0, hi := 1 }, oout := .. },
        --  { pin := { lo := 0, hi := 1 }, pout := { lo := 0, hi := 1 }, oin := { lo := 0, hi := 1 }, oout := .. })
      #eval cexBilinear.correctedSrcGridByBlock .gain 1 1 1 0 .bilinear 3 2 1 1 0 0 2 0   -- some 1
      #eval cexBilinear.correctedSrcGrid .gain 1 1 1 0 .bilinear 2 0                       -- some (9 : Rat)/8
      #eval cexBilinear.correctedSrcGridByBlock .gain 1 1 1 0 .nearest 3 2 1 1 0 0 2 0    -- some 1
      #eval cexBilinear.correctedSrcGrid .gain 1 1 1 0 .nearest 2 0                        -- some 1
      #eval cexBilinear.correctedSrcGridByBlock .gain 1 1 1 0 .average 3 2 1 1 0 0 2 0    -- some 1
      #eval cexBilinear.correctedSrcGrid .gain 1 1 1 0 .average 2 0                        -- some 1
-/

/-! non-vacuity of the geometric hypotheses of `block_transparent_src_grid`: 0.4 m source on a 0.8 m reference at a
    half-pixel offset, 3 x 3 kernel, overlap 2, block length 5: block 1 is a real block and source row / column 8 (next to the
    seam with block 2) is in its output window -/
example :
    let p : ImagePair := ⟨⟨13, 4, 31⟩, ⟨13, 4, 31⟩, ⟨1, 8, 20⟩, ⟨1, 8, 20⟩, fun _ _ => none, fun _ _ => none⟩
    1 < nBlocks (srcWin p.Sr p.Rr).lo (srcWin p.Sr p.Rr).hi 5 ∧ ((3 / 2 : Nat) : Int) + 1 ≤ 2 ∧
      (p.blockRowsSrc 5 2 1).pout.lo ≤ 8 ∧ 8 < (p.blockRowsSrc 5 2 1).pout.hi ∧
      (p.blockColsSrc 5 2 1).pout.lo ≤ 8 ∧ 8 < (p.blockColsSrc 5 2 1).pout.hi := by decide


end Homonim
