/-
  E2EWide — the whole-image fusion model with the 4 x 4 up-sampling kernels `cubic` and `cubic_spline` (homonim's default)
  (serves C05, C03, C02, C07).

  C05's third sentence - "with wider kernels (default cubic spline) differences are confined to source pixels within one
  processing-grid pixel of a block boundary" - is `block_transparent_wide`.
-/
import Homonim.Model.Cubic
import Homonim.Props.E2E
import Homonim.Props.E2EMask
import Homonim.Props.E2ELine
import Homonim.Lemmas.E2EWide
namespace Homonim

/-- **The kernels are what GDAL documents**: four weights that sum to one (a partition of unity), whatever the sub-pixel
    position `0 ≤ f < 1`; the B-spline weights are moreover non-negative. -/
theorem cubic_weights_sum_one (f : Rat) (h0 : 0 ≤ f) (h1 : f < 1) :
    cubicKernel (-1 - f) + cubicKernel (0 - f) + cubicKernel (1 - f) + cubicKernel (2 - f) = 1 :=
  cubicKernel_sum_one f h0 h1

theorem bspline_weights_sum_one (f : Rat) (h0 : 0 ≤ f) (h1 : f < 1) :
    bsplineKernel (-1 - f) + bsplineKernel (0 - f) + bsplineKernel (1 - f) + bsplineKernel (2 - f) = 1 :=
  bsplineKernel_sum_one f h0 h1

theorem bspline_weights_nonneg (x : Rat) : 0 ≤ bsplineKernel x := bsplineKernel_nonneg x

/-- **Validity does not depend on the kernel**: with either 4 x 4 kernel an up-sampled pixel is valid exactly when the
    source pixel that contains its centre is valid - the rule of nearest and bilinear. -/
theorem wide_valid_iff_nearest (m : Wide) (Sr Sc Dr Dc : Axis) (hSr : 0 < Sr.p) (hSc : 0 < Sc.p) (img : ImgO) (jr jc : Int) :
    (resampleWide m Sr Sc Dr Dc img jr jc).isSome = (nearest2 Sr Sc Dr Dc img jr jc).isSome :=
  resampleWide_isSome m Sr Sc Dr Dc hSr hSc img jr jc

/-- **Blocking is transparent away from the seams** (reference-grid processing, `cubic` or `cubic_spline` up-sampling, overlap
    ≥ kernel radius + 1): a source pixel of a block's output window gets from that block exactly the value and validity of the
    single-block run, provided the reference pixel that contains its centre is not the first row (column) of the block's
    processing output window - unless no block precedes - and not the last - unless no block follows.  In other words:
    differences between partitions are confined to source pixels whose centre lies in a reference pixel adjacent to an
    interior block boundary. -/
theorem block_transparent_wide (p : ImagePair) (hSr : 0 < p.Sr.p) (hSc : 0 < p.Sc.p) (hRr : 0 < p.Rr.p) (hRc : 0 < p.Rc.p)
    (model : Model) (kh kw : Nat) (n0 n1 : Rat) (ups : Wide)
    (sr sc vr vc : Int) (hvr : ((kh / 2 : Nat) : Int) + 1 ≤ vr) (hvc : ((kw / 2 : Nat) : Int) + 1 ≤ vc)
    (kr kc : Nat)
    (r c : Int) (hr : (p.blockRows sr vr kr).oout.lo ≤ r ∧ r < (p.blockRows sr vr kr).oout.hi)
    (hc : (p.blockCols sc vc kc).oout.lo ≤ c ∧ c < (p.blockCols sc vc kc).oout.hi)
    (hir : ((p.blockRows sr vr kr).pout.lo = (refWin p.Sr p.Rr).lo ∨ (p.blockRows sr vr kr).pout.lo + 1 ≤ nearestIdx p.Rr p.Sr r) ∧
           ((p.blockRows sr vr kr).pout.hi = (refWin p.Sr p.Rr).hi ∨ nearestIdx p.Rr p.Sr r + 2 ≤ (p.blockRows sr vr kr).pout.hi))
    (hic : ((p.blockCols sc vc kc).pout.lo = (refWin p.Sc p.Rc).lo ∨ (p.blockCols sc vc kc).pout.lo + 1 ≤ nearestIdx p.Rc p.Sc c) ∧
           ((p.blockCols sc vc kc).pout.hi = (refWin p.Sc p.Rc).hi ∨ nearestIdx p.Rc p.Sc c + 2 ≤ (p.blockCols sc vc kc).pout.hi)) :
    p.correctedWideByBlock model kh kw n0 n1 ups sr sc vr vc kr kc r c = p.correctedWide model kh kw n0 n1 ups r c :=
  block_transparent_wide_aux p hSr hSc hRr hRc model kh kw n0 n1 ups sr sc vr vc hvr hvc kr kc r c hr hc hir hic

/-- **At a seam the kernel does matter** (the hypothesis of `block_transparent_wide` is needed): a concrete pair, kernel and
    partition for which the block's value differs from the single-block value at a pixel next to an interior boundary. -/
theorem block_transparent_wide_seam_counterexample :
    wideSeamPair.correctedWideByBlock .gain 3 3 0 0 .cubicSpline 4 8 2 2 0 0 wideSeamRow 2
      ≠ wideSeamPair.correctedWide .gain 3 3 0 0 .cubicSpline wideSeamRow 2 := by
  decide +kernel

/-- **The mask of every block is the mask of the whole image, everywhere** (also at the seams): validity is the nearest
    parameter pixel's, which `block_transparent` covers. -/
theorem block_mask_eq_whole_wide (p : ImagePair) (hSr : 0 < p.Sr.p) (hSc : 0 < p.Sc.p) (hRr : 0 < p.Rr.p) (hRc : 0 < p.Rc.p)
    (model : Model) (kh kw : Nat) (n0 n1 : Rat) (ups : Wide)
    (sr sc vr vc : Int) (hvr : ((kh / 2 : Nat) : Int) + 1 ≤ vr) (hvc : ((kw / 2 : Nat) : Int) + 1 ≤ vc) (kr kc : Nat)
    (r c : Int) (hr : (p.blockRows sr vr kr).oout.lo ≤ r ∧ r < (p.blockRows sr vr kr).oout.hi)
    (hc : (p.blockCols sc vc kc).oout.lo ≤ c ∧ c < (p.blockCols sc vc kc).oout.hi) :
    (p.correctedWideByBlock model kh kw n0 n1 ups sr sc vr vc kr kc r c).isSome
      = (p.correctedWide model kh kw n0 n1 ups r c).isSome :=
  block_mask_eq_whole_wide_aux p hSr hSc hRr hRc model kh kw n0 n1 ups sr sc vr vc hvr hvc kr kc r c hr hc

/-- **Same mask as nearest-neighbour up-sampling**: the corrected image has the same valid pixels whichever of the 4 x 4
    kernels, or nearest, brings the parameters to the source grid - so the mask-fidelity theorems `whole_image_no_invented_pixels`
    and `whole_image_no_lost_pixels` hold verbatim for the default configuration. -/
theorem wide_mask_eq_nearest (p : ImagePair) (hRr : 0 < p.Rr.p) (hRc : 0 < p.Rc.p)
    (model : Model) (kh kw : Nat) (n0 n1 : Rat) (ups : Wide) (r c : Int) :
    (p.correctedWide model kh kw n0 n1 ups r c).isSome = (p.corrected model kh kw n0 n1 .nearest r c).isSome :=
  correctedWide_isSome_eq_nearest p hRr hRc model kh kw n0 n1 ups r c

/-- **No lost pixels with the default kernel** (corollary; gain model, positive source). -/
theorem whole_image_no_lost_pixels_wide (p : ImagePair) (hSr : 0 < p.Sr.p) (hSc : 0 < p.Sc.p) (hRr : 0 < p.Rr.p) (hRc : 0 < p.Rc.p)
    (kh kw : Nat) (hkh : 0 < kh) (hkw : 0 < kw) (n0 n1 : Rat) (ups : Wide)
    (hposS : ∀ r c x, p.src r c = some x → 0 < x)
    (r c : Int) (hr : 0 ≤ r ∧ r < p.Sr.n) (hc : 0 ≤ c ∧ c < p.Sc.n) (x : Rat) (hx : p.src r c = some x)
    (hi : 0 ≤ nearestIdx p.Rr p.Sr r ∧ nearestIdx p.Rr p.Sr r < p.Rr.n)
    (hj : 0 ≤ nearestIdx p.Rc p.Sc c ∧ nearestIdx p.Rc p.Sc c < p.Rc.n)
    (href : (p.ref (nearestIdx p.Rr p.Sr r) (nearestIdx p.Rc p.Sc c)).isSome = true) :
    (p.correctedWide .gain kh kw n0 n1 ups r c).isSome = true := by
  rw [wide_mask_eq_nearest p hRr hRc]
  exact whole_image_no_lost_pixels p hSr hSc hRr hRc kh kw hkh hkw n0 n1 .nearest (by decide) hposS r c hr hc x hx hi hj href

/-- **Line recovery with the default kernel**: if `ref = a·srcDs (+ b)` wherever both exist, every valid corrected pixel equals
    `a·src (+ b)` at its own location - the weights are a partition of unity (cubic) resp. are renormalised (cubic spline,
    bilinear fall-back), so constant parameters stay constant. -/
theorem whole_image_gain_recovers_wide (p : ImagePair) (hRr : 0 < p.Rr.p) (hRc : 0 < p.Rc.p)
    (a : Rat) (kh kw : Nat) (n0 n1 : Rat) (ups : Wide)
    (hline : ∀ i j x y, p.srcDs i j = some x → p.ref i j = some y → y = a * x)
    (r c : Int) (x v : Rat) (hx : p.src r c = some x) (hv : p.correctedWide .gain kh kw n0 n1 ups r c = some v) :
    v = a * x :=
  correctedWide_gain_line p hRr hRc a kh kw n0 n1 ups hline r c x v hx hv

theorem whole_image_gain_offset_recovers_wide (p : ImagePair) (hRr : 0 < p.Rr.p) (hRc : 0 < p.Rc.p)
    (a b : Rat) (kh kw : Nat) (n0 n1 : Rat) (ups : Wide)
    (hline : ∀ i j x y, p.srcDs i j = some x → p.ref i j = some y → y = a * x + b)
    (r c : Int) (x v : Rat) (hx : p.src r c = some x) (hv : p.correctedWide .gainOffset kh kw n0 n1 ups r c = some v) :
    v = a * x + b :=
  correctedWide_gainOffset_line p hRr hRc a b kh kw n0 n1 ups hline r c x v hx hv

/-- **Scale law with the default kernel** (C07): scaling the source by `s > 0` and the reference by `t > 0` multiplies every
    corrected pixel by `t` and preserves validity. -/
theorem whole_image_scale_wide (p : ImagePair) (s t : Rat) (hs : 0 < s) (ht : 0 < t) (model : Model) (hm : model ≠ .gainBlkOffset)
    (kh kw : Nat) (n0 n1 : Rat) (ups : Wide) (r c : Int) :
    ({ p with src := p.src.scale s, ref := p.ref.scale t } : ImagePair).correctedWide model kh kw n0 n1 ups r c
      = (p.correctedWide model kh kw n0 n1 ups r c).map (t * ·) :=
  correctedWide_scale_pair p s t hs ht model hm kh kw n0 n1 ups r c

/-! non-vacuity: a 2 x 2 source (value 3) under one reference pixel (value 6): the 4 x 4 support is never complete, cubic falls
    back to bilinear, cubic spline renormalises - both give the gain 2 -/
example :
    let p : ImagePair :=
      { Sr := ⟨0, 1, 2⟩, Sc := ⟨0, 1, 2⟩, Rr := ⟨0, 2, 1⟩, Rc := ⟨0, 2, 1⟩
        src := fun r c => if 0 ≤ r ∧ r < 2 ∧ 0 ≤ c ∧ c < 2 then some 3 else none
        ref := fun i j => if i = 0 ∧ j = 0 then some 6 else none }
    p.correctedWide .gain 1 1 0 0 .cubic 1 1 = some 6 ∧ p.correctedWide .gain 1 1 0 0 .cubicSpline 0 1 = some 6 ∧
      p.correctedWide .gain 1 1 0 0 .cubicSpline 2 1 = none := by decide +kernel

end Homonim
