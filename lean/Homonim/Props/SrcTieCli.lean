/-
  Homonim.Props.SrcTieCli — source-text tie of the argument validators, the output names, the band-selection rules and the
  `FUSE_*` tag contract between `RasterFuse` (writer), `validate_param_image` and `ParamStats` (readers), as extracted by
  harness/py2lean.py on every run (`_u_kernel`, `_u_threads`, `_u_param_image`, `_u_names`, `_u_nonalpha`, `_b_info`,
  `_c_defaults`, `_f_tags`).
-/
import Homonim.GeneratedCode
import Homonim.Model.Kernel
import Homonim.Model.Layout
import Homonim.Model.Cli
import Homonim.Model.Bands
import Homonim.Model.StatsWindow
import Homonim.Generated
namespace Homonim
open Homonim.Src

/-! ### kernel shape (C01, C05, C19) -/

/-- `validate_kernel_shape`: the model's acceptance test is the source's (the three refusals, whatever their order) -/
theorem src_C01_kernel_accepts (kh kw : Int) (m : Model) :
    validKernelShape kh kw m = kernel_accepts kh kw (m == .gainOffset) := by
  unfold validKernelShape kernel_accepts
  cases m <;> (rw [Bool.eq_iff_iff]; simp; try omega)

/-- … and so is the warning: only gain-offset, only for an accepted area below 25 -/
theorem src_C01_kernel_warns (kh kw : Int) (m : Model) :
    kernelWarns kh kw m = kernel_warns kh kw (m == .gainOffset) := by
  unfold kernelWarns kernel_warns
  cases m <;> (rw [Bool.eq_iff_iff]; simp; try omega)

/-- an accepted kernel is odd and positive on both axes, so that `(k - 1) / 2` is its radius and the anchor is its centre;
    an accepted gain-offset kernel has at least three elements -/
theorem src_C01_accepted_kernel (kh kw : Int) (go : Bool) (h : kernel_accepts kh kw go = true) :
    kh % 2 = 1 ∧ kw % 2 = 1 ∧ 1 ≤ kh ∧ 1 ≤ kw ∧ (go = true → 3 ≤ kh * kw) := by
  unfold kernel_accepts at h
  simp only [Bool.and_eq_true, decide_eq_true_eq, Bool.not_eq_true', Bool.and_eq_false_imp] at h
  obtain ⟨⟨⟨⟨h1, h2⟩, h3⟩, h4⟩, h5⟩ := h
  refine ⟨h1, h2, h4, h5, fun hgo => ?_⟩
  have h3' := h3 hgo
  simp only [decide_eq_false_iff_not, Int.not_lt] at h3'
  -- the product of two odd numbers is odd
  have hodd : (kh * kw) % 2 = 1 := by
    rw [Int.mul_emod, h1, h2]; rfl
  omega

example : kernel_accepts 1 3 true = true ∧ kernel_accepts 1 1 true = false ∧ kernel_accepts 1 1 false = true ∧
    kernel_accepts 4 3 false = false ∧ kernel_accepts (-1) 3 false = false := by decide

/-! ### thread count (C04, C19) -/

theorem src_C19_threads (threads cpu : Int) : resolveThreads threads cpu = threads_resolve threads cpu := rfl

/-- what reaches the executor: never more than the processors; all of them for 0; the request itself otherwise -/
theorem src_C19_threads_spec (threads cpu n : Int) (h : threads_resolve threads cpu = some n) :
    n ≤ cpu ∧ (threads = 0 → n = cpu) ∧ (threads ≠ 0 → n = threads) := by
  unfold threads_resolve at h
  by_cases h0 : threads = 0
  · subst h0
    simp at h
    omega
  · simp only [h0, if_false] at h
    by_cases hc : cpu < threads
    · simp [hc] at h
    · simp only [hc, if_false, Option.some.injEq] at h
      omega

/-- a request above the processor count is refused, not clipped -/
theorem src_C19_threads_refused (threads cpu : Int) (h : cpu < threads) (h0 : threads ≠ 0) :
    threads_resolve threads cpu = none := by
  unfold threads_resolve
  simp [h0, h]

/-- both entry points (the `--threads` callback and `create_block_config`) validate through the same function -/
theorem src_C19_threads_users : threads_users = ["_threads_cb", "create_block_config"] := rfl

/-! ### parameter image layout and tags (C12, C14) -/

theorem src_C12_param_count (count : Nat) : validCount count = paramImage_countOk count := by
  unfold validCount paramImage_countOk
  cases h : count == 0 <;> cases h2 : count % 3 == 0 <;> simp_all

/-- the suffix `validate_param_image` expects on 1-based band `b` is the one of the model's layout, `(b - 1) / n` -/
theorem src_C12_param_suffixes (n : Nat) : expectedSuffixes n = paramImage_suffixes n := by
  unfold expectedSuffixes paramImage_suffixes expectedSuffix
  apply List.ext_getElem
  · simp; omega
  · intro j h1 h2
    simp only [List.length_map, List.length_range] at h1
    simp only [List.getElem_map, List.getElem_range, Nat.add_sub_cancel]
    have hn : 0 < n := by omega
    by_cases hab : j < n + n
    · rw [List.getElem_append_left (by simpa using hab)]
      by_cases ha : j < n
      · rw [List.getElem_append_left (by simpa using ha)]
        simp [Nat.div_eq_of_lt ha, suffixLower]
      · rw [List.getElem_append_right (by simpa using Nat.le_of_not_lt ha)]
        have : j / n = 1 := by
          apply Nat.div_eq_of_lt_le <;> omega
        simp [this, suffixLower]
    · rw [List.getElem_append_right (by simpa using Nat.le_of_not_lt hab)]
      have : j / n = 2 := by
        apply Nat.div_eq_of_lt_le <;> omega
      simp [this, suffixLower]

/-- what fuse labels band `paramIndex n i k` (GAIN / OFFSET / R2, `descr_assignments` of C14) is what the validator expects there:
    the upper-case label written lower-cases to the suffix looked for -/
theorem src_C12_label_matches_suffix (n i k : Nat) (hi : i < n) (hk : k < 3) :
    (paramImage_suffixes n)[paramIndex n i k - 1]? = some (suffixLower k) := by
  rw [← src_C12_param_suffixes]
  unfold expectedSuffixes paramIndex expectedSuffix
  have hlt : k * n + i < 3 * n := by
    have : k ≤ 2 := by omega
    calc k * n + i < k * n + n := by omega
      _ = (k + 1) * n := by rw [Nat.add_mul, Nat.one_mul]
      _ ≤ 3 * n := Nat.mul_le_mul_right n (by omega)
  simp only [Nat.add_sub_cancel, List.getElem?_map, List.getElem?_range hlt, Option.map_some]
  have hn : 0 < n := by omega
  have : (k * n + i) / n = k := by
    rw [Nat.mul_comm, Nat.mul_add_div hn, Nat.div_eq_of_lt hi, Nat.add_zero]
  rw [this]

/-- the tag contract: every tag `validate_param_image` insists on and every tag `ParamStats` reads is written by
    `RasterFuse.process`; and the in-paint threshold read back is a number or None, never the tag text -/
theorem src_C12_tags : fuseTags = tags_written ∧ statsTags = tags_statsReads ∧ paramRequiredTags = paramImage_requiredTags ∧
    (∀ t ∈ paramImage_requiredTags, t ∈ tags_written) ∧ (∀ t ∈ tags_statsReads, t ∈ tags_written) ∧
    tags_threshIsNumber = true := by
  refine ⟨rfl, rfl, rfl, by decide, by decide, rfl⟩

/-- the valid-data window pre-pass (C12): the steps `Model/StatsWindow.lean` models - the *dataset* mask of each tile, its bounding
    window at the tile's corner, the union, then the tiles of every band that meet it - are those of the source text.  Taking one
    band's mask instead (`read_masks(1)`) does not translate. -/
theorem src_C12_window_steps : windowStepsModel = statsWindow_steps := rfl

/-- `KernelModel.__init__` (C02, C03, C19): every key of the model configuration (`create_config()`, read by introspection into
    `Generated.lean`) is stored exactly as given - no value is re-interpreted on the way in (a threshold of 0 is 0, `None` is `None`) -
    and the kernel shape passes through `validate_kernel_shape` -/
theorem src_C19_model_config : kmodel_configStoredAsGiven = Generated.modelConfigKeys ∧ kmodel_kernelValidated = true := ⟨by decide, rfl⟩

/-! ### output names (C10, C19) -/

theorem src_C19_names (procUpper modelUpper : String) (kh kw : Nat) (ext stem suffix : String) :
    outPostfixParts procUpper modelUpper kh kw ext = names_outPostfixParts procUpper modelUpper kh kw ext ∧
    paramFilename stem suffix = names_paramFilename stem suffix := ⟨rfl, rfl⟩

/-- option defaults are computed from the API's defaults, and the flags default as the API's keyword arguments do -/
theorem src_C19_defaults : cliDefaultsFromApi = cli_defaultsFromApi ∧ cliFlagDefaults = cli_flagDefaults := ⟨rfl, rfl⟩

/-! ### band candidates and defaults (C15, C08) -/

/-- a band is a candidate iff it is not alpha and not a geedim mask band (a description ending in `_MASK` / `_DIST`) -/
theorem src_C15_candidate (b : BandMeta) (hasDescr endsMask endsDist : Bool)
    (h : b.maskDescr = (hasDescr && (endsMask || endsDist))) :
    b.candidate = bands_isCandidate b.alpha hasDescr endsMask endsDist := by
  unfold BandMeta.candidate bands_isCandidate
  rw [h]

theorem src_C15_non_alpha (isAlpha : List Bool) : nonAlphaBands isAlpha = bands_nonAlpha isAlpha := rfl

/-- every index returned is a 1-based band of the file that is not alpha, and every such band is returned, in file order -/
theorem src_C15_non_alpha_spec (isAlpha : List Bool) (b : Nat) :
    b ∈ bands_nonAlpha isAlpha ↔ 1 ≤ b ∧ b ≤ isAlpha.length ∧ isAlpha[b - 1]? = some false := by
  unfold bands_nonAlpha
  simp only [List.mem_map, List.mem_filter, List.mem_range, Bool.not_eq_true']
  constructor
  · rintro ⟨a, ⟨ha, hf⟩, rfl⟩
    refine ⟨by omega, by omega, ?_⟩
    simp only [Nat.add_sub_cancel]
    rw [List.getD_eq_getElem?_getD, List.getElem?_eq_getElem ha] at hf
    rw [List.getElem?_eq_getElem ha]
    simpa using hf
  · rintro ⟨h1, h2, h3⟩
    refine ⟨b - 1, ⟨by omega, ?_⟩, by omega⟩
    rw [List.getD_eq_getElem?_getD, h3]
    rfl

theorem src_C15_band_rules : bandRefusalsModel = bandInfo_refusals ∧ bandChoiceModel = bandInfo_selection ∧
    rgbStepsModel = bandInfo_rgbSteps ∧ bandInfo_rgbCount = 3 := ⟨rfl, rfl, rfl, rfl⟩

/-- the standard RGB wavelengths of the model are the source's table -/
theorem src_C15_std_rgb (c : ColorInterp) :
    stdRgb c = (bandInfo_stdRgb.find? fun e => e.1 == colorName c).map (·.2) := by
  cases c <;> decide +kernel

/-- `cli.fuse`, `cli.compare`, `cli.stats` (C09): each command's processing sits in one `try` with one handler, `except Exception`,
    which is the model's - log, then `raise click.Abort()` on every path; no inner handler swallows anything on the way -/
theorem src_C09_handlers : cli_handlers = [("fuse", cliHandler), ("compare", cliHandler), ("stats", cliHandler)] := rfl


end Homonim
