/-
  Homonim.Props.SrcTie — the tie between the hand-written model and the *source text* of the package.

  `Homonim/GeneratedCode.lean` is regenerated on every run by the translator `harness/py2lean.py` from the Python AST of
  the arithmetic statements of kernel_model.py, compare.py, stats.py, raster_pair.py, utils.py and fuse.py.  Each theorem
  below says that a definition of the hand-written model (about which the property theorems are proved) is the
  expression the code evaluates.  A change to one of those statements changes the generated definition, and the
  corresponding theorem no longer checks.  Theorem names carry the property they serve: `src_Cxx_…`.
-/
import Homonim.GeneratedCode
import Homonim.Model.Kernel
import Homonim.Model.Blocks
import Homonim.Model.Layout
import Homonim.Model.WindowIO
import Homonim.Model.Mask
import Homonim.Model.Convert
import Homonim.Model.Orient
import Homonim.Lemmas.Geom
import Mathlib.Algebra.Order.Floor.Ring
import Mathlib.Data.Rat.Floor
import Mathlib.Tactic.Ring
import Mathlib.Tactic.Linarith
namespace Homonim
open Homonim.Src

/-! ### raster_pair.py, utils.py (C05, C06), fuse.py (C14) -/

/-- `block_pairs`: the number of block corners of `range(start, stop, step)` and the `k`-th corner, rows and columns -/
theorem src_C06_block_corners (A L s v : Int) (k : Nat) :
    nBlocks A (A + L) s = (cdiv (blocks_rangeRowStop A L s v - blocks_rangeRowStart A L s v) (blocks_rangeRowStep A L s v)).toNat ∧
    nBlocks A (A + L) s = (cdiv (blocks_rangeColStop A L s v - blocks_rangeColStart A L s v) (blocks_rangeColStep A L s v)).toNat ∧
    blockUl A s v k = blocks_rangeRowStart A L s v + k * blocks_rangeRowStep A L s v ∧
    blockUl A s v k = blocks_rangeColStart A L s v + k * blocks_rangeColStep A L s v := by
  unfold nBlocks blockUl blocks_rangeRowStop blocks_rangeRowStart blocks_rangeRowStep blocks_rangeColStop
    blocks_rangeColStart blocks_rangeColStep
  refine ⟨?_, ?_, rfl, rfl⟩ <;> congr 2 <;> omega

/-- `block_pairs`: input and output windows of the block with corner `ul` -/
theorem src_C06_block_windows (A B s v : Int) (k : Nat) :
    procIn A B s v k = ⟨blocks_inUl (blockUl A s v k) s v A B, blocks_inBr (blockUl A s v k) s v A B⟩ ∧
    procOut A B s v k = ⟨blocks_outUl (blockUl A s v k) s v A B, blocks_outBr (blockUl A s v k) s v A B⟩ := by
  unfold procIn procOut blocks_inUl blocks_inBr blocks_outUl blocks_outBr
  exact ⟨rfl, rfl⟩

theorem rat_floor_eq (q : Rat) : q.floor = ⌊q⌋ := rfl
theorem rat_ceil_eq (q : Rat) : q.ceil = ⌈q⌉ := by
  rw [Rat.ceil_eq_neg_floor_neg, rat_floor_eq, Int.floor_neg, neg_neg]

theorem floor_intCast_div (a d : Int) (hd : 0 < d) : ⌊(a : ℚ) / d⌋ = a / d := by
  lift d to ℕ using le_of_lt hd
  exact Rat.floor_intCast_div_natCast a d

theorem ceil_intCast_div (a d : Int) (hd : 0 < d) : ⌈(a : ℚ) / d⌉ = cdiv a d := by
  unfold cdiv
  rw [← neg_neg ⌈(a : ℚ) / d⌉, ← Int.floor_neg, ← neg_div, ← Int.cast_neg, floor_intCast_div _ _ hd]

/-- `expand_window_to_grid` (divmod, then ceil of size + fraction): the expanded window of a float window with offset `x`,
    size `w`, expanded by `e` pixels, is `[⌊x - e⌋, ⌈x + w + e⌉)` -/
theorem src_C06_expand_spec (x w e : Rat) :
    expandWindow_off x w e = ⌊x - e⌋ ∧ expandWindow_off x w e + expandWindow_size x w e = ⌈x + w + e⌉ := by
  unfold expandWindow_off expandWindow_size
  rw [rat_floor_eq, rat_ceil_eq]
  refine ⟨rfl, ?_⟩
  have h : w + 2 * e + (x - e - (⌊x - e⌋ : ℚ)) = (x + w + e) - (⌊x - e⌋ : ℚ) := by ring
  rw [h, Int.ceil_sub_intCast]
  omega

/-- the model's `expandTo` (integer floor / ceiling division) is the code's `expand_window_to_grid` applied to the exact
    rational window `other.window(proc.window_bounds(w))` -/
theorem src_C06_expand_window (P O : Axis) (w : Win1) (hO : 0 < O.p) :
    let x : ℚ := (toOther P O w.lo : ℚ) / O.p
    let W : ℚ := ((w.hi - w.lo) * P.p : ℤ) / O.p
    expandTo P O w = ⟨expandWindow_off x W 0, expandWindow_off x W 0 + expandWindow_size x W 0⟩ := by
  intro x W
  obtain ⟨h1, h2⟩ := src_C06_expand_spec x W 0
  rw [h2, h1]
  unfold expandTo
  have hx : x - 0 = (toOther P O w.lo : ℚ) / O.p := by simp [x]
  have hxw : x + W + 0 = (toOther P O w.hi : ℚ) / O.p := by
    simp only [x, W, add_zero]
    rw [← add_div]
    congr 1
    unfold toOther Axis.edge
    push_cast
    ring
  rw [hx, hxw, floor_intCast_div _ _ hO, ceil_intCast_div _ _ hO]

/-- `round_bounds_to_grid`: with the two corners rounded independently, the window `[r0, r0 + max(r1 - r0, 0))` the code
    builds is the model's `[rhe lo, rhe hi)` (rounding is monotone, so the `max` never bites) -/
theorem src_C06_round_bounds (P O : Axis) (w : Win1) (hO : 0 < O.p) (hP : 0 < P.p) (hw : w.lo ≤ w.hi) :
    (roundTo P O w).lo + roundBounds_size (roundTo P O w).lo (roundTo P O w).hi = (roundTo P O w).hi := by
  unfold roundBounds_size roundTo
  simp only
  have h : toOther P O w.lo ≤ toOther P O w.hi := by
    unfold toOther Axis.edge
    have := Int.mul_le_mul_of_nonneg_right hw (le_of_lt hP)
    omega
  have := rhe_mono _ _ O.p hO h
  omega

/-- `covers_bounds` along one axis, with zero tolerance and the exact rational window of the source in the reference,
    is the model's repaired predicate -/
theorem src_C16_covers (R S : Axis) (hp : 0 < R.p) :
    covers_axis (((S.o - R.o : ℤ) : ℚ) / R.p) (((S.n * S.p : ℤ) : ℚ) / R.p) R.n 0 = coversFixed R S := by
  unfold covers_axis coversFixed boundsWinNum
  simp only [neg_zero, add_zero]
  have hpq : (0 : ℚ) < (R.p : ℚ) := by exact_mod_cast hp
  have h1 : (((S.o - R.o : ℤ) : ℚ) / R.p < 0) ↔ (S.o - R.o < 0) := by
    rw [div_lt_iff₀ hpq, zero_mul]; exact_mod_cast Iff.rfl
  have h2 : ((R.n : ℚ) < ((S.o - R.o : ℤ) : ℚ) / R.p + ((S.n * S.p : ℤ) : ℚ) / R.p) ↔ (R.n * R.p < (S.o - R.o) + S.n * S.p) := by
    rw [← add_div, lt_div_iff₀ hpq]; exact_mod_cast Iff.rfl
  rw [Bool.eq_iff_iff]
  simp only [Bool.not_eq_true', Bool.or_eq_false_iff, decide_eq_false_iff_not, Bool.and_eq_true, decide_eq_true_eq, h1, h2]
  omega

/-- `_resolve_proc_crs` -/
theorem src_C18_resolve (sa ra : Int) :
    resolveProcCrs sa ra .auto = (if resolveAutoIsRef sa ra then .ref else .src) ∧
    resolveProcCrs sa ra .src = .src ∧ resolveProcCrs sa ra .ref = .ref := by
  unfold resolveProcCrs resolveAutoIsRef
  refine ⟨?_, rfl, rfl⟩
  by_cases h : sa ≤ ra <;> simp [h]

/-- `overlap_for_kernel` = ceil(k / 2) -/
theorem src_C05_overlap (k : Nat) : (overlapForKernel k : Int) = Src.overlapForKernel k := by
  unfold Homonim.overlapForKernel Src.overlapForKernel
  omega

/-- `_process_block`: band indexes of the parameter image -/
theorem src_C14_param_index (n i k : Nat) : paramIndex n i k = Src.paramIndex n i k := rfl


/-! ### raster_array.py (C20), kernel_model.py `_full_coverage_mask` (C17) -/

/-- `bounded_window_slices` (np.clip / np.fmax on the corners) is the model's `boundedFixed`: dataset window and array slice -/
theorem src_C20_bounded (n lo hi : Int) :
    boundedFixed n lo hi = (⟨bounded_ul n lo hi, bounded_br n lo hi⟩, ⟨bounded_start n lo hi, bounded_stop n lo hi⟩) := by
  unfold boundedFixed bounded_ul bounded_br bounded_start bounded_stop
  rfl

/-- `_full_coverage_mask`: the erosion element is the kernel grown by two (`erodeAt` ranges over `k + 2` positions per axis) -/
theorem src_C17_erode_size (kh kw h w : Nat) (m : Nat → Nat → Bool) (r c : Nat) :
    erodeAt kh kw h w m r c =
      ((List.range (cover_erodeSize kh)).all fun (di : Nat) => (List.range (cover_erodeSize kw)).all fun (dj : Nat) =>
        let i : Int := (r : Int) - ((cover_erodeSize kh) / 2 : Nat) + di
        let j : Int := (c : Int) - ((cover_erodeSize kw) / 2 : Nat) + dj
        decide (0 ≤ i) && decide (i < h) && decide (0 ≤ j) && decide (j < w) && m i.toNat j.toNat) := rfl


/-! ### raster_array.py conversions, writes and reads (C13, C20, C08) -/

/-- `_convert_array_dtype` skips the clip exactly when it cannot matter: if the source type's range does not exceed the
    target's at either end (the negation of the condition the source states), every value of the source type already lies in
    the target's range.  (With `and` in place of `or` this is false: one-sided excess would go unclipped.) -/
theorem src_C13_clip_skipped_soundly (smin smax dmin dmax : Int) (h : convert_clipNeeded smin smax dmin dmax = false)
    (x : Int) (hx : smin ≤ x ∧ x ≤ smax) : dmin ≤ x ∧ x ≤ dmax := by
  unfold convert_clipNeeded at h
  simp only [Bool.or_eq_false_iff, decide_eq_false_iff_not, not_lt] at h
  omega

/-- `to_rio_dataset`: the write steps the model reads are the ones the source states, in its order - in particular the mask
    written is that of the block cropped to the window -/
theorem src_C20_write_steps : writeStepsModel = writeSteps := rfl

/-- `from_rio_dataset`: the internal nodata value is used exactly for masked datasets and datasets without a nodata value -/
theorem src_C08_read_nodata (isMasked : Bool) (dsNodata : Option Int) :
    (readNodata isMasked dsNodata).isNone = read_usesInternalNodata isMasked dsNodata.isSome := by
  unfold readNodata read_usesInternalNodata
  cases isMasked <;> cases dsNodata <;> rfl

/-! ### utils.py orientation (C16, C06, C18) -/

/-- `north_up`: the model's test is the one the source states (exact zero tests on the rotation terms, sign tests on the pixel
    sizes) -/
theorem src_C16_north_up (a b d e : Rat) : northUpOf a b d e = orient_northUp a b d e := rfl

/-- what `north_up` means: positive x pixel size, negative y pixel size, and *no* rotation or shear at all -/
theorem src_C16_north_up_iff (a b d e : Rat) : orient_northUp a b d e = true ↔ 0 < a ∧ e < 0 ∧ b = 0 ∧ d = 0 := by
  unfold orient_northUp
  simp only [Bool.and_eq_true, decide_eq_true_eq]
  tauto

/-- `same_orientation_crs`: the model's four re-projection decisions are the four conditions the source states, in its order -/
theorem src_C16_same_orientation (src ref : ImState) (procIsSrc : Bool) :
    sameOrientationCrs src ref procIsSrc =
      (let sameCrs := src.crs == ref.crs
       let s1 := if orient_flipSrc src.northUp sameCrs procIsSrc then warp src src.crs else src
       let r1 := if orient_flipRef ref.northUp sameCrs procIsSrc then warp ref ref.crs else ref
       (if orient_srcToRefCrs sameCrs procIsSrc then warp s1 ref.crs else s1,
        if orient_refToSrcCrs sameCrs procIsSrc then warp r1 src.crs else r1)) := rfl

/-- after `same_orientation_crs` both images are north-up and in one CRS, whatever they were and whichever grid is processed -/
theorem src_C16_same_orientation_result (src ref : ImState) (procIsSrc : Bool) :
    (sameOrientationCrs src ref procIsSrc).1.northUp = true ∧ (sameOrientationCrs src ref procIsSrc).2.northUp = true ∧
      (sameOrientationCrs src ref procIsSrc).1.crs = (sameOrientationCrs src ref procIsSrc).2.crs := by
  obtain ⟨sn, sc⟩ := src
  obtain ⟨rn, rc⟩ := ref
  by_cases h : sc = rc
  · subst h
    cases sn <;> cases rn <;> cases procIsSrc <;> simp [sameOrientationCrs, warp]
  · have hb : (sc == rc) = false := by simpa using h
    cases sn <;> cases rn <;> cases procIsSrc <;> simp [sameOrientationCrs, warp, hb]

/-! ### nodata comparison (C08, C20, C07) -/

/-- `nan_equals`: the model's nodata comparison is the source's - exact (IEEE) equality, or both NaN; no tolerance -/
theorem src_C08_nan_equals (x y : FVal) : x.nanEq y = mask_nanEquals (x.ieeeEq y) x.isNan y.isNan := by
  cases x <;> cases y <;> simp [FVal.nanEq, FVal.ieeeEq, FVal.isNan, mask_nanEquals]

/-- `RasterArray.mask`: a stored value is a valid pixel iff it does not compare equal to the nodata value - so a finite value
    different from a finite nodata value is valid however close the two are -/
theorem src_C08_mask_valid (q nd : Rat) (h : q ≠ nd) :
    mask_pixelValid true ((FVal.fin q).ieeeEq (.fin nd)) (FVal.fin q).isNan (FVal.fin nd).isNan = true := by
  simp [mask_pixelValid, mask_nanEquals, FVal.ieeeEq, FVal.isNan, h]

theorem src_C08_mask_no_nodata (e a b : Bool) : mask_pixelValid false e a b = true := rfl

end Homonim
