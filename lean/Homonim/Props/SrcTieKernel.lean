/-
  Homonim.Props.SrcTie — the tie between the hand-written model and the *source text* of the package.

  `Homonim/GeneratedCode.lean` is regenerated on every run by the translator `harness/py2lean.py` from the Python AST of
  the arithmetic statements of kernel_model.py, compare.py, stats.py, raster_pair.py, utils.py and fuse.py.  Each theorem
  below says that a definition of the hand-written model (about which the property theorems are proved) is the
  expression the code evaluates.  A change to one of those statements changes the generated definition, and the
  corresponding theorem no longer checks.  Theorem names carry the property they serve: `src_Cxx_…`.
-/
import Homonim.GeneratedCode
import Homonim.Model.Kernel
import Homonim.Model.Resample
import Mathlib.Tactic.Ring
namespace Homonim
open Homonim.Src

/-! ### kernel_model.py (C01, C02, C07, C14) -/

/-- `_fit_gain`: the model's gain is the quotient the code computes (offset 0 is checked by the translator) -/
theorem src_C01_gain (s : Sums) (f : Bool) :
    (fitGainS s f).map Params.gain = (divO s.R s.S).map fun _ => fitGain_gain s.S s.R s.SS s.RR s.SR s.N := by
  unfold fitGainS divO fitGain_gain
  by_cases h : s.S = 0
  · rw [if_pos h]; rfl
  · rw [if_neg h]; rfl

/-- `_fit_gain_offset`: the model's OLS gain is `m_num_array / m_den_array` -/
theorem src_C01_ols_gain (s : Sums) :
    olsGain s = divO (fitGainOffset_gainNum s.S s.R s.SS s.RR s.SR s.N) (fitGainOffset_gainDen s.S s.R s.SS s.RR s.SR s.N) := by
  unfold olsGain fitGainOffset_gainNum fitGainOffset_gainDen
  congr 1 <;> ring

/-- `_fit_gain_offset`: the model's offset is `(ref_sum - gain·src_sum) / mask_sum` -/
theorem src_C01_ols_offset (s : Sums) (g : Rat) :
    olsOffset s g = (divO (s.R - g * s.S) s.N).map fun _ => fitGainOffset_offset s.S s.R s.SS s.RR s.SR s.N g := by
  unfold olsOffset divO fitGainOffset_offset
  by_cases h : s.N = 0
  · rw [if_pos h]; rfl
  · rw [if_neg h]; rfl

/-- `_fit_gain_offset`: the in-paint test `(R² > thresh) & (gain > 0) & mask` at a jointly valid pixel -/
theorem src_C01_keep (t g q : Rat) : keepOffset t g (some q) = fitGainOffset_keep g q t := by
  unfold keepOffset fitGainOffset_keep
  simp

/-- `_fit_gain_offset`: the re-estimated gain of an in-painted pixel is `(ref_sum - mask_sum·offset) / src_sum` -/
theorem src_C01_regain (s : Sums) (oF : Rat) (r2 : Option Rat) :
    (inpainted s (some oF) r2).map Params.gain
      = (divO (s.R - s.N * oF) s.S).map fun _ => fitGainOffset_regain s.S s.R s.SS s.RR s.SR s.N oF := by
  unfold inpainted divO fitGainOffset_regain
  simp only [Option.bind_some]
  by_cases h : s.S = 0
  · rw [if_pos h]; rfl
  · rw [if_neg h]; rfl

/-- `_r2_array`, one parameter: `1 - ss_res·mask_sum / ss_tot` -/
theorem src_C01_r2_gain (s : Sums) (g : Rat) :
    r2Gain s g = (divO (r2_res1 s.S s.R s.SS s.RR s.SR s.N g) (r2_tot s.S s.R s.SS s.RR s.SR s.N)).map fun q => 1 - q := by
  unfold r2Gain r2_res1 r2_tot
  congr 2 <;> ring

/-- `_r2_array`, two parameters -/
theorem src_C01_r2_gain_offset (s : Sums) (g o : Rat) :
    r2GainOffset s g o
      = (divO (r2_res2 s.S s.R s.SS s.RR s.SR s.N g o) (r2_tot s.S s.R s.SS s.RR s.SR s.N)).map fun q => 1 - q := by
  unfold r2GainOffset r2_res2 r2_tot
  congr 2 <;> ring

/-- `_fit_gain_blk_offset`: source normalisation and incorporation of the block model into the parameters -/
theorem src_C01_blk (sN : Sums) (f : Bool) (n0 n1 : Rat) (b : Block) (r c : Nat) :
    (b.normalised n0 n1).src r c = blk_normalise (b.src r c) n0 n1 ∧
    fitGainBlkOffsetS sN f n0 n1
      = (fitGainS sN f).map fun p => { gain := blk_gain p.gain n0 n1, offset := blk_offset p.gain n0 n1, r2 := p.r2 } := by
  constructor
  · rfl
  · rfl

/-- `KernelModel.apply` -/
theorem src_C14_apply (p : Params) (x : Rat) : applyParams p x = Src.applyParams p.gain p.offset x := by
  unfold Homonim.applyParams Src.applyParams
  rfl

/-- `_get_resampling` (fuse and compare): the choice is by pixel area -/
theorem src_C02_resampling_choice (fa ta : Rat) : useDownsampling fa ta = resamplingIsDown fa ta := rfl

end Homonim
