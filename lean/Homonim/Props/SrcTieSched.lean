/-
  Homonim.Props.SrcTieSched — source-text tie of the scheduler model (C04, C09): the per-block program the machine runs
  (`Sched.prog`) is the sequence of lock acquisitions, dataset accesses, computations and lock releases that
  `RasterFuse._process_block` (with `RasterPairReader.read` inlined) performs in the source text, as extracted by
  harness/py2lean.py on every run (`with self._x_lock:` → acq / rel; `from_rio_dataset(self._src_im …)` → io S; …).
  A dataset access moved out of its `with` block, a lock taken in another order, or a nested lock changes the generated
  program, and this theorem no longer checks.
-/
import Homonim.GeneratedCode
import Homonim.Model.Sched
import Homonim.Model.FS
import Homonim.Model.Cli
namespace Homonim
open Homonim.Src

theorem src_C04_prog (param : Bool) : prog param = progBase ++ (if param then progParam else []) := by
  cases param <;> rfl

/-- `RasterFuse.process` (C04, C09): the fan-out the machine assumes is the one the source states -/
theorem src_C04_fan_out : fanOutModel = fanOut := rfl

/-- `_out_files` (C10): the model's `processCall` - both existence checks, then both opens - is the event sequence the
    source text states, in its order.  Moving a check below an `open` changes the generated list. -/
theorem src_C10_out_files (fs : FS) (c : Call) : processCall fs c = runEvents fs c outFilesEvents := by
  unfold processCall outFilesEvents
  simp only [runEvents]

/-- `FuseCommand.invoke` (C19): a configuration-file value replaces a parameter exactly under the condition the source states,
    and the default creation options are used exactly under the source's condition -/
theorem src_C19_merge {α : Type} (p : PVal α) (c : α) :
    mergeKey p (some c) = (if cli_mergeCond p.val.isNone (p.src == .default) then ⟨some c, .commandline⟩ else p) ∧
    ∀ d o : PSource, useDefaultCreationOptions d o = cli_defaultCoCond (d == .default) (o == .default) := by
  unfold mergeKey cli_mergeCond useDefaultCreationOptions cli_defaultCoCond
  exact ⟨rfl, fun _ _ => rfl⟩

/-- `RasterCompare.process`, `ParamStats.stats` (C04, C11, C12): workers return the sums of their own block and the caller adds
    them up in completion order - the shape under which `fold_perm` (C11) makes the totals independent of the schedule.  A worker
    that touches a shared accumulator changes the generated list (or fails to translate). -/
theorem src_C04_accumulate : accumulateModel = accumulate_compare ∧ accumulateModel = accumulate_stats := ⟨rfl, rfl⟩

/-- `cli.fuse`, `cli.compare` (C18, C19, C10): the per-source loop re-binds no option of the command - every source of one call is
    processed with the options as given -/
theorem src_C19_loops : fuseLoopRebinds = cli_fuseLoopRebinds ∧ compareLoopRebinds = cli_compareLoopRebinds := ⟨rfl, rfl⟩

/-- `_merge_corr_profile`, `_merge_param_profile`, `_set_metadata` (C13, C10, C14): the caller's `out_profile` is only read, the
    parameter encoding is forced on the merged copy, every configuration value is tagged -/
theorem src_C13_profiles : paramProfileSteps = profile_paramSteps ∧ corrProfileSteps = profile_corrSteps ∧
    metaTagSteps = profile_metaTags := ⟨rfl, rfl, rfl⟩

/-- `_nodata_cb` (C19): the words that mean "no nodata value" and the number parser are the source's -/
theorem src_C19_nodata_cb (l : String) (isNumber : String → Bool) :
    nodataCb (some l) isNumber = (if l ∈ cli_nodataNullWords then .null else if isNumber l then .number l else .invalid) ∧
      nodataParser = cli_nodataParser := by
  refine ⟨?_, rfl⟩
  unfold nodataCb cli_nodataNullWords
  simp only [List.mem_cons, List.mem_nil_iff, or_false]

/-- every lock is created once, by the thread that constructs the object (or that calls `stats`), never by a worker (C04) -/
theorem src_C04_locks : lockSitesModel = locks_created := rfl

/-- `KernelModel`, `RefSpaceModel`, `SrcSpaceModel` (C04): no method other than `__init__` stores into the object that all blocks
    share (nor into its class, a global or a non-local) - the hypothesis `Stateless` of `stateless_compute_interleaving_independent`,
    read off the source text.  A note kept on the object between `fit` and `apply` changes the generated list. -/
theorem src_C04_model_state : sharedModelWritesModel = modelState_writes := rfl


end Homonim
