/-
  Homonim.Props.SrcTieSched — source-text tie of the scheduler model (C04, C09): the per-block program the machine runs
  (`Sched.prog`) is the sequence of lock acquisitions, dataset accesses, computations and lock releases that
  `RasterFuse._process_block` (with `RasterPairReader.read` inlined) performs in the source text, as extracted by
  harness/py2lean.py on every run (`with self._x_lock:` → acq / rel; `from_rio_dataset(self._src_im …)` → io S; …).
  A dataset access moved out of its `with` block, a lock taken in another order, or a nested lock changes the generated
  program, and this theorem no longer checks.
-/
import Homonim.GeneratedCode
import Homonim.Model.Sched
import Homonim.Model.FS
import Homonim.Model.Cli
namespace Homonim
open Homonim.Src

theorem src_C04_prog (param : Bool) : prog param = progBase ++ (if param then progParam else []) := by
  cases param <;> rfl

/-- `RasterFuse.process` (C04, C09): the fan-out the machine assumes is the one the source states -/
theorem src_C04_fan_out : fanOutModel = fanOut := rfl

/-- `_out_files` (C10): the model's `processCall` - both existence checks, then both opens - is the event sequence the
    source text states, in its order.  Moving a check below an `open` changes the generated list. -/
theorem src_C10_out_files (fs : FS) (c : Call) : processCall fs c = runEvents fs c outFilesEvents := by
  unfold processCall outFilesEvents
  simp only [runEvents]

/-- `FuseCommand.invoke` (C19): a configuration-file value replaces a parameter exactly under the condition the source states,
    and the default creation options are used exactly under the source's condition -/
theorem src_C19_merge {α : Type} (p : PVal α) (c : α) :
    mergeKey p (some c) = (if cli_mergeCond p.val.isNone (p.src == .default) then ⟨some c, .commandline⟩ else p) ∧
    ∀ d o : PSource, useDefaultCreationOptions d o = cli_defaultCoCond (d == .default) (o == .default) := by
  unfold mergeKey cli_mergeCond useDefaultCreationOptions cli_defaultCoCond
  exact ⟨rfl, fun _ _ => rfl⟩

end Homonim
