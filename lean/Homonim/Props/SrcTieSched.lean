/-
  Homonim.Props.SrcTieSched — source-text tie of the scheduler model (C04, C09): the per-block program the machine runs
  (`Sched.prog`) is the sequence of lock acquisitions, dataset accesses, computations and lock releases that
  `RasterFuse._process_block` (with `RasterPairReader.read` inlined) performs in the source text, as extracted by
  harness/py2lean.py on every run (`with self._x_lock:` → acq / rel; `from_rio_dataset(self._src_im …)` → io S; …).
  A dataset access moved out of its `with` block, a lock taken in another order, or a nested lock changes the generated
  program, and this theorem no longer checks.
-/
import Homonim.GeneratedCode
import Homonim.Model.Sched
namespace Homonim
open Homonim.Src

theorem src_C04_prog (param : Bool) : prog param = progBase ++ (if param then progParam else []) := by
  cases param <;> rfl

end Homonim
