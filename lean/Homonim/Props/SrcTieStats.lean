/-
  Homonim.Props.SrcTie — the tie between the hand-written model and the *source text* of the package.

  `Homonim/GeneratedCode.lean` is regenerated on every run by the translator `harness/py2lean.py` from the Python AST of
  the arithmetic statements of kernel_model.py, compare.py, stats.py, raster_pair.py, utils.py and fuse.py.  Each theorem
  below says that a definition of the hand-written model (about which the property theorems are proved) is the
  expression the code evaluates.  A change to one of those statements changes the generated definition, and the
  corresponding theorem no longer checks.  Theorem names carry the property they serve: `src_Cxx_…`.
-/
import Homonim.GeneratedCode
import Homonim.Model.Stats
import Homonim.Model.Bands
import Mathlib.Tactic.Ring
import Mathlib.Tactic.FieldSimp
import Mathlib.Tactic.Linarith
import Mathlib.Tactic.NormNum
namespace Homonim
open Homonim.Src

/-! ### compare.py (C11) -/

/-- `get_band_stats`: the model's r², RMSE², rRMSE² are the code's `pcc_num² / (radicand·radicand)`, `res2_sum / mask_sum`
    and `(rmse / ref_mean)²` with the square roots squared away (`sqrt x · sqrt x = x`). -/
theorem src_C11_band_stats (s : CSums) (h : s.n ≠ 0) :
    bandStats s =
      { r2 := divO' (cmp_pccNum s.src s.ref s.src2 s.ref2 s.srcRef s.res2 s.n ^ 2)
                (cmp_pccDenSrc s.src s.ref s.src2 s.ref2 s.srcRef s.res2 s.n * cmp_pccDenRef s.src s.ref s.src2 s.ref2 s.srcRef s.res2 s.n)
        rmse2 := some (cmp_rmse2 s.src s.ref s.src2 s.ref2 s.srcRef s.res2 s.n)
        rrmse2 := divO' (cmp_rmse2 s.src s.ref s.src2 s.ref2 s.srcRef s.res2 s.n)
                    (cmp_refMean s.src s.ref s.src2 s.ref2 s.srcRef s.res2 s.n ^ 2)
        n := s.n.floor } := by
  unfold bandStats cmp_pccNum cmp_pccDenSrc cmp_pccDenRef cmp_rmse2 cmp_refMean
  rw [if_neg h]
  simp only [CStats.mk.injEq, and_true, true_and]
  refine ⟨?_, ?_⟩
  · congr 1 <;> ring
  · congr 1; ring

/-- with an exact square root the code's `rrmse² = (rmse / ref_mean)²` is the model's `rmse² / ref_mean²` -/
theorem src_C11_rrmse (s : CSums) (sqrt : Rat → Rat) (rm : Rat)
    (hs : rm * rm = cmp_rmse2 s.src s.ref s.src2 s.ref2 s.srcRef s.res2 s.n) :
    cmp_rrmse s.src s.ref s.src2 s.ref2 s.srcRef s.res2 s.n rm ^ 2
      = cmp_rmse2 s.src s.ref s.src2 s.ref2 s.srcRef s.res2 s.n / (cmp_refMean s.src s.ref s.src2 s.ref2 s.srcRef s.res2 s.n ^ 2) := by
  have _ := sqrt
  unfold cmp_rrmse cmp_refMean
  rw [div_pow, ← hs]
  ring

/-! ### stats.py (C12) -/

theorem src_C12_param_stats (a : PAcc) (w : Bool) (h : a.n ≠ 0) :
    paramStats a w =
      { mean := some (stats_mean a.sum a.sum2 a.n a.inpaint)
        var := some (stats_var a.sum a.sum2 a.n a.inpaint)
        min := a.min, max := a.max
        inpaintP := if w then some (stats_inpaintP a.sum a.sum2 a.n a.inpaint) else none } := by
  unfold paramStats stats_mean stats_var stats_inpaintP
  rw [if_neg h]
  simp only [PStats.mk.injEq, Option.some.injEq, true_and, and_true]
  congr 1
  ring


/-- `get_block_sums`: what one jointly valid pixel adds to the seven sums is what the model's `blockSums` adds -/
theorem src_C11_block_sums (pts : List (Rat × Rat)) :
    blockSums pts = pts.foldl (fun s x => s.add ⟨cmpPx_src x.1 x.2, cmpPx_ref x.1 x.2, cmpPx_src2 x.1 x.2, cmpPx_ref2 x.1 x.2,
      cmpPx_srcRef x.1 x.2, cmpPx_res2 x.1 x.2, cmpPx_n x.1 x.2⟩) CSums.zero := by
  unfold blockSums cmpPx_src cmpPx_ref cmpPx_src2 cmpPx_ref2 cmpPx_srcRef cmpPx_res2 cmpPx_n
  congr 1
  funext s x
  congr 1
  simp only [CSums.mk.injEq, true_and, and_true]
  refine ⟨by ring, by ring, by ring⟩

/-- `ParamStats`: the R2 bands are those with `band_i >= count * 2 / 3`; a pixel counts as in-painted when `R2 < thresh` -/
theorem src_C12_r2_band (count b : Nat) : isR2Band count b = stats_isR2Band count b := by
  unfold isR2Band stats_isR2Band
  rw [Bool.eq_iff_iff]
  simp only [decide_eq_true_eq]
  rw [div_le_iff₀ (by norm_num : (0 : ℚ) < 3)]
  constructor
  · intro h; exact_mod_cast (by omega : count * 2 ≤ b * 3)
  · intro h
    have : count * 2 ≤ b * 3 := by exact_mod_cast h
    omega

/-! ### matched_pair.py band matching (C15) -/

/-- `_match_pair_bands`: the model's relative distance is the source's `|s - r| / s` - normalised by the *source* wavelength - and
    undefined (masked) for a zero or missing wavelength -/
theorem src_C15_rel_dist (a b : Rat) : relDist (some a) (some b) = if a = 0 then none else some (match_relDist a b) := rfl

/-- the tolerance test, the condition under which wavelengths are used at all, and the greedy step are the source's -/
theorem src_C15_matching (srcW refW : List (Option Rat)) (force : Bool) (d tol : Rat) :
    (npAny srcW && npAny refW && !force) = match_useWavelengths (npAny srcW) (npAny refW) force ∧
      decide (tol < d) = match_tooFar d tol ∧ greedyStepsModel = match_greedySteps := ⟨rfl, rfl, rfl⟩

/-- `RasterCompare._get_image_stats` (C11): the "Mean" entry of a statistic is the source's fold - start at
    `sum_over_bands.get(k, 0)`, add every band's value with `+`, divide by the number of compared bands -/
theorem src_C11_mean_row (vals : List (Option Rat)) :
    meanRow vals = (vals.foldl cmp_meanAcc cmp_meanStart).map (fun t => cmp_meanRow t (vals.length : Rat)) := rfl


end Homonim
