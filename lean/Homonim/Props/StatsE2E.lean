/-
  Homonim.Props.StatsE2E (serves C12) — `ParamStats.stats()` end to end on the model: what is accumulated from the tiles that are
  actually read (those meeting the valid-data window of the pre-pass) is the accumulator of *all* valid pixels of the band - for
  every set of band masks, every tiling of band 1 and of the band, every completion order and every threshold.
-/
import Homonim.Props.C12
import Homonim.Props.StatsWindow
namespace Homonim

/-- the valid pixel values of band `b` (validity `b`, values `val`) inside tile `t`, row-major -/
def tileVals (b : Nat → Nat → Bool) (val : Nat → Nat → ℚ) (t : Win) : List ℚ :=
  (List.range t.h).flatMap fun i => (List.range t.w).filterMap fun j =>
    if b (t.r0 + i) (t.c0 + j) then some (val (t.r0 + i) (t.c0 + j)) else none

/-- a tile that holds no valid pixel of the band contributes no value -/
theorem tileVals_nil_of_no_valid (b : Nat → Nat → Bool) (val : Nat → Nat → ℚ) (t : Win)
    (h : ∀ r c, t.contains r c = true → b r c = false) : tileVals b val t = [] := by
  unfold tileVals
  rw [List.flatMap_eq_nil_iff]
  intro i hi
  rw [List.filterMap_eq_nil_iff]
  intro j hj
  have hc : t.contains (t.r0 + i) (t.c0 + j) = true := by
    unfold Win.contains
    simp only [Bool.and_eq_true, decide_eq_true_eq]
    have := List.mem_range.mp hi
    have := List.mem_range.mp hj
    omega
  simp [h _ _ hc]

/-- dropping tiles whose accumulator is neutral does not change the total -/
theorem foldl_filter_neutral (ts : List Win) (f : Win → PAcc) (p : Win → Bool) (init : PAcc)
    (h : ∀ t ∈ ts, p t = false → f t = PAcc.zero) :
    ((ts.filter p).map f).foldl PAcc.add init = (ts.map f).foldl PAcc.add init := by
  induction ts generalizing init with
  | nil => rfl
  | cons t rest ih =>
    have hrest : ∀ t' ∈ rest, p t' = false → f t' = PAcc.zero := fun t' ht' => h t' (List.mem_cons_of_mem _ ht')
    by_cases hp : p t = true
    · simp only [List.filter_cons, hp, if_true, List.map_cons, List.foldl_cons]
      exact ih _ hrest
    · have hpf : p t = false := by simpa using hp
      simp only [List.filter_cons, hpf, Bool.false_eq_true, if_false, List.map_cons, List.foldl_cons]
      rw [h t (List.mem_cons_self) hpf, PAcc.add_zero']
      exact ih _ hrest

/-- **The tiles that are read suffice**: accumulating over the tiles of the band that meet the valid-data window gives what
    accumulating over *all* its tiles gives - provided band 1's tiling (the pre-pass) covers the valid pixels (GDAL block windows
    cover the whole image) -/
theorem stats_tiles_read_suffice (bands : List (Nat → Nat → Bool)) (b : Nat → Nat → Bool) (hb : b ∈ bands)
    (val : Nat → Nat → ℚ) (th : Option ℚ) (tiles1 tilesB : List Win)
    (hcover : ∀ r c, b r c = true → ∃ t1 ∈ tiles1, t1.contains r c = true) :
    ((tilesRead bands tiles1 tilesB).map fun t => tileAcc th (tileVals b val t)).foldl PAcc.add PAcc.zero =
      (tilesB.map fun t => tileAcc th (tileVals b val t)).foldl PAcc.add PAcc.zero := by
  -- a tile that is not read holds no valid pixel of the band
  have key : ∀ t ∈ tilesB, t ∉ tilesRead bands tiles1 tilesB → tileVals b val t = [] := by
    intro t ht hnot
    apply tileVals_nil_of_no_valid
    intro r c hc
    cases hv : b r c with
    | false => rfl
    | true =>
      obtain ⟨t1, ht1, h1⟩ := hcover r c hv
      exact absurd (no_valid_pixel_skipped bands tiles1 tilesB b hb r c hv t1 t ht1 h1 ht hc) hnot
  unfold tilesRead at key ⊢
  cases hw : dataWindow (anyBand bands) tiles1 with
  | none => rfl
  | some w =>
    simp only [hw] at key
    simp only []
    apply foldl_filter_neutral tilesB (fun t => tileAcc th (tileVals b val t)) (fun t => w.intersects t)
    intro t ht hp
    have hnot : t ∉ tilesB.filter fun t => w.intersects t := by
      rw [List.mem_filter]
      simp [hp]
    rw [key t ht hnot]
    rfl

/-- … hence the figures `stats()` reports for a band are those of all its valid pixels, gathered tile by tile: the accumulator of
    the tiles read is the accumulator of the concatenation of every tile's valid values -/
theorem stats_reads_all_valid_pixels (bands : List (Nat → Nat → Bool)) (b : Nat → Nat → Bool) (hb : b ∈ bands)
    (val : Nat → Nat → ℚ) (th : Option ℚ) (tiles1 tilesB : List Win)
    (hcover : ∀ r c, b r c = true → ∃ t1 ∈ tiles1, t1.contains r c = true) :
    ((tilesRead bands tiles1 tilesB).map fun t => tileAcc th (tileVals b val t)).foldl PAcc.add PAcc.zero =
      tileAcc th (tilesB.map (tileVals b val)).flatten := by
  rw [stats_tiles_read_suffice bands b hb val th tiles1 tilesB hcover, ← tile_partition_invariant, List.map_map]
  rfl

example : tileVals (fun r c => r == 0 && c == 3) (fun _ c => c) ⟨0, 2, 1, 2⟩ = [3] := by decide +kernel

end Homonim
