/-
  Homonim.Props.StatsWindow (serves C12) — the valid-data window pre-pass of `ParamStats` never hides a valid pixel: for every
  set of band masks, every tiling and every completion order, each valid pixel of each band lies in a tile that `stats()` reads.
  With the window taken from the first band's mask alone that is false (kernel-checked counterexample).
-/
import Homonim.Model.StatsWindow
namespace Homonim

theorem foldl_max_ge_init (l : List Nat) (a : Nat) : a ≤ l.foldl max a := by
  induction l generalizing a with
  | nil => exact Nat.le_refl a
  | cons x xs ih => exact Nat.le_trans (Nat.le_max_left a x) (ih (max a x))

theorem foldl_max_ge_mem (l : List Nat) (a x : Nat) (hx : x ∈ l) : x ≤ l.foldl max a := by
  induction l generalizing a with
  | nil => cases hx
  | cons y ys ih =>
    rcases List.mem_cons.mp hx with rfl | h
    · exact Nat.le_trans (Nat.le_max_right a x) (foldl_max_ge_init ys (max a x))
    · exact ih (max a y) h

theorem foldl_min_le_init (l : List Nat) (a : Nat) : l.foldl min a ≤ a := by
  induction l generalizing a with
  | nil => exact Nat.le_refl a
  | cons x xs ih => exact Nat.le_trans (ih (min a x)) (Nat.min_le_left a x)

theorem foldl_min_le_mem (l : List Nat) (a x : Nat) (hx : x ∈ l) : l.foldl min a ≤ x := by
  induction l generalizing a with
  | nil => cases hx
  | cons y ys ih =>
    rcases List.mem_cons.mp hx with rfl | h
    · exact Nat.le_trans (foldl_min_le_init ys (min a x)) (Nat.min_le_right a x)
    · exact ih (min a y) h

theorem minL_le (l : List Nat) (x : Nat) (hx : x ∈ l) : minL l ≤ x := foldl_min_le_mem l _ x hx
theorem le_maxL (l : List Nat) (x : Nat) (hx : x ∈ l) : x ≤ maxL l := foldl_max_ge_mem l 0 x hx

/-- the bounding window of a tile's mask holds every pixel of the tile where the mask holds -/
theorem blockDataWindow_contains (mask : Nat → Nat → Bool) (blk : Win) (r c : Nat) (hin : blk.contains r c = true)
    (hm : mask r c = true) : ∃ w, blockDataWindow mask blk = some w ∧ w.contains r c = true := by
  unfold Win.contains at hin
  simp only [Bool.and_eq_true, decide_eq_true_eq] at hin
  obtain ⟨⟨⟨h1, h2⟩, h3⟩, h4⟩ := hin
  have hr : r - blk.r0 ∈ (List.range blk.h).filter fun i => (List.range blk.w).any fun j => mask (blk.r0 + i) (blk.c0 + j) := by
    rw [List.mem_filter]
    refine ⟨List.mem_range.mpr (by omega), ?_⟩
    rw [List.any_eq_true]
    refine ⟨c - blk.c0, List.mem_range.mpr (by omega), ?_⟩
    rw [show blk.r0 + (r - blk.r0) = r by omega, show blk.c0 + (c - blk.c0) = c by omega]
    exact hm
  have hc : c - blk.c0 ∈ (List.range blk.w).filter fun j => (List.range blk.h).any fun i => mask (blk.r0 + i) (blk.c0 + j) := by
    rw [List.mem_filter]
    refine ⟨List.mem_range.mpr (by omega), ?_⟩
    rw [List.any_eq_true]
    refine ⟨r - blk.r0, List.mem_range.mpr (by omega), ?_⟩
    rw [show blk.r0 + (r - blk.r0) = r by omega, show blk.c0 + (c - blk.c0) = c by omega]
    exact hm
  unfold blockDataWindow
  have hre : ((List.range blk.h).filter fun i => (List.range blk.w).any fun j => mask (blk.r0 + i) (blk.c0 + j)).isEmpty = false := by
    cases hl : (List.range blk.h).filter fun i => (List.range blk.w).any fun j => mask (blk.r0 + i) (blk.c0 + j) with
    | nil => rw [hl] at hr; cases hr
    | cons _ _ => rfl
  have hce : ((List.range blk.w).filter fun j => (List.range blk.h).any fun i => mask (blk.r0 + i) (blk.c0 + j)).isEmpty = false := by
    cases hl : (List.range blk.w).filter fun j => (List.range blk.h).any fun i => mask (blk.r0 + i) (blk.c0 + j) with
    | nil => rw [hl] at hc; cases hc
    | cons _ _ => rfl
  simp only [hre, hce, Bool.or_self, Bool.false_eq_true, if_false]
  refine ⟨_, rfl, ?_⟩
  have a1 := minL_le _ _ hr
  have a2 := le_maxL _ _ hr
  have a3 := minL_le _ _ hc
  have a4 := le_maxL _ _ hc
  unfold Win.contains
  simp only [Bool.and_eq_true, decide_eq_true_eq]
  omega

/-- a union holds what either window holds -/
theorem union_contains (a b : Win) (r c : Nat) (h : a.contains r c = true ∨ b.contains r c = true) :
    (a.union b).contains r c = true := by
  unfold Win.contains Win.union at *
  simp only [Bool.and_eq_true, decide_eq_true_eq] at *
  omega

/-- accumulating keeps what was already held and adds what the new tile's window holds -/
theorem accWindow_contains (acc w : Option Win) (r c : Nat)
    (h : (∃ a, acc = some a ∧ a.contains r c = true) ∨ (∃ x, w = some x ∧ x.contains r c = true)) :
    ∃ a, accWindow acc w = some a ∧ a.contains r c = true := by
  rcases h with ⟨a, rfl, ha⟩ | ⟨x, rfl, hx⟩
  · cases w with
    | none => exact ⟨a, rfl, ha⟩
    | some x => exact ⟨a.union x, rfl, union_contains a x r c (Or.inl ha)⟩
  · cases acc with
    | none => exact ⟨x, rfl, hx⟩
    | some a => exact ⟨a.union x, rfl, union_contains a x r c (Or.inr hx)⟩

theorem foldl_acc_keeps (mask : Nat → Nat → Bool) (tiles : List Win) (acc : Option Win) (r c : Nat)
    (h : ∃ a, acc = some a ∧ a.contains r c = true) :
    ∃ a, tiles.foldl (fun acc t => accWindow acc (blockDataWindow mask t)) acc = some a ∧ a.contains r c = true := by
  induction tiles generalizing acc with
  | nil => exact h
  | cons t ts ih => exact ih _ (accWindow_contains acc _ r c (Or.inl h))

/-- **The data window holds every valid pixel** (any tiling that covers the pixel, any completion order) -/
theorem dataWindow_contains (mask : Nat → Nat → Bool) (tiles : List Win) (r c : Nat) (hm : mask r c = true)
    (hcov : ∃ t ∈ tiles, t.contains r c = true) : ∃ w, dataWindow mask tiles = some w ∧ w.contains r c = true := by
  unfold dataWindow
  suffices ∀ acc : Option Win, ∃ a, tiles.foldl (fun acc t => accWindow acc (blockDataWindow mask t)) acc = some a ∧
      a.contains r c = true from this none
  induction tiles with
  | nil => obtain ⟨t, ht, _⟩ := hcov; cases ht
  | cons t ts ih =>
    intro acc
    obtain ⟨t', ht', hc'⟩ := hcov
    rcases List.mem_cons.mp ht' with rfl | hts
    · exact foldl_acc_keeps mask ts _ r c (accWindow_contains acc _ r c (Or.inr (blockDataWindow_contains mask t' r c hc' hm)))
    · exact ih ⟨t', hts, hc'⟩ _

/-- two windows holding the same pixel intersect -/
theorem intersects_of_common_pixel (a b : Win) (r c : Nat) (ha : a.contains r c = true) (hb : b.contains r c = true) :
    a.intersects b = true := by
  unfold Win.contains at ha hb
  unfold Win.intersects
  simp only [Bool.and_eq_true, decide_eq_true_eq] at *
  omega

/-- **No valid pixel is skipped**: a pixel valid in some band `b`, lying in tile `t1` of band 1's tiling and in tile `t` of
    band `b`'s tiling: `t` is among the tiles `stats()` reads of band `b` - whatever the other bands' masks, the tile shapes and
    the order in which the pre-pass tiles complete -/
theorem no_valid_pixel_skipped (bands : List (Nat → Nat → Bool)) (tiles1 tilesB : List Win) (b : Nat → Nat → Bool)
    (hb : b ∈ bands) (r c : Nat) (hv : b r c = true) (t1 t : Win) (ht1 : t1 ∈ tiles1) (h1 : t1.contains r c = true)
    (ht : t ∈ tilesB) (hc : t.contains r c = true) : t ∈ tilesRead bands tiles1 tilesB := by
  have hany : anyBand bands r c = true := by
    unfold anyBand
    rw [List.any_eq_true]
    exact ⟨b, hb, hv⟩
  obtain ⟨w, hw, hwc⟩ := dataWindow_contains (anyBand bands) tiles1 r c hany ⟨t1, ht1, h1⟩
  unfold tilesRead
  rw [hw]
  rw [List.mem_filter]
  exact ⟨ht, intersects_of_common_pixel w t r c hwc hc⟩

/-- the window is the same whatever order two tiles complete in -/
theorem union_comm (a b : Win) : a.union b = b.union a := by
  unfold Win.union
  simp only [Nat.min_comm a.r0 b.r0, Nat.min_comm a.c0 b.c0, Nat.max_comm (a.r0 + a.h) (b.r0 + b.h),
    Nat.max_comm (a.c0 + a.w) (b.c0 + b.w)]

/-- with the window taken from the FIRST band's mask only (instead of the dataset mask) a valid pixel of another band is
    skipped: band 1 valid only at (0,0), band 2 valid at (0,3), tiles 2 columns wide -/
theorem first_band_window_skips_counterexample :
    let b1 : Nat → Nat → Bool := fun r c => r == 0 && c == 0
    let b2 : Nat → Nat → Bool := fun r c => r == 0 && c == 3
    let tiles : List Win := [⟨0, 0, 1, 2⟩, ⟨0, 2, 1, 2⟩]
    (⟨0, 2, 1, 2⟩ : Win) ∈ tilesRead [b1, b2] tiles tiles ∧ (⟨0, 2, 1, 2⟩ : Win) ∉ tilesRead [b1] tiles tiles := by
  decide

example : dataWindow (fun r c => (r == 1 && c == 5) || (r == 6 && c == 2)) [⟨0, 0, 4, 4⟩, ⟨0, 4, 4, 4⟩, ⟨4, 0, 4, 4⟩, ⟨4, 4, 4, 4⟩]
    = some ⟨1, 2, 6, 4⟩ := by decide

end Homonim
