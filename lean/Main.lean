/-
  Line-protocol driver: one request per line on stdin, one reply per line on stdout.
  Imports the executable model only (no Mathlib).
-/
import Homonim.Model.Geom
import Homonim.Model.Blocks
import Homonim.Model.WindowIO
import Homonim.Model.Orient
import Homonim.Model.Kernel
import Homonim.Model.Resample
import Homonim.Model.Mask
import Homonim.Model.Convert
import Homonim.Model.Layout
import Homonim.Model.Stats
import Homonim.Model.Bands
import Homonim.Model.FS
import Homonim.Model.Sched
import Homonim.Model.Cli
import Homonim.Model.FuseImage
import Homonim.Model.PartialMask
import Homonim.Model.Cubic
import Homonim.Model.StatsWindow
open Homonim

def ints (ts : List String) : Option (List Int) := ts.mapM String.toInt?

def w1 (w : Win1) : String := s!"{w.lo} {w.hi}"

/-- rasterio order: col_off row_off width height -/
def w2 (row col : Win1) : String := s!"{col.lo} {row.lo} {col.len} {row.len}"

def parseRat (t : String) : Option Rat :=
  match t.splitOn "/" with
  | [a] => a.toInt?.map fun n => (n : Rat)
  | [a, b] => do
    let n ← a.toInt?
    let d ← b.toNat?
    if d = 0 then none else some (mkRat n d)
  | _ => none

def showRat (q : Rat) : String := if q.den = 1 then s!"{q.num}" else s!"{q.num}/{q.den}"
def showORat : Option Rat → String
  | some q => showRat q
  | none => "_"

/-- `_`-able list of rationals, row-major, as a lookup (value, validity) -/
def parseGrid (ts : List String) : Option (Array (Option Rat)) :=
  (ts.mapM fun t => if t = "_" then some none else (parseRat t).map some).map List.toArray

def gridVal (a : Array (Option Rat)) (w : Nat) (r c : Nat) : Rat := ((a.getD (r * w + c) none).getD 0)
def gridOk (a : Array (Option Rat)) (w : Nat) (r c : Nat) : Bool := (a.getD (r * w + c) none).isSome

def parseModel : String → Option Model
  | "gain" => some .gain
  | "gain-blk-offset" => some .gainBlkOffset
  | "gain-offset" => some .gainOffset
  | _ => none

/-- fit <model> <kh> <kw> <h> <w> <findR2> <thresh|_> <n0> <n1> S <h*w> R <h*w> [F <h*w>] -/
def handleFit (toks : List String) : String :=
  match toks with
  | ms :: kh :: kw :: h :: w :: fr :: th :: n0 :: n1 :: "S" :: rest =>
    match parseModel ms, kh.toNat?, kw.toNat?, h.toNat?, w.toNat?, fr.toNat?, parseRat n0, parseRat n1 with
    | some model, some kh, some kw, some h, some w, some fr, some n0, some n1 =>
      let n := h * w
      let sT := rest.take n
      let rest := rest.drop n
      match rest with
      | "R" :: rest =>
        let rT := rest.take n
        let rest := rest.drop n
        let fT := match rest with
          | "F" :: f => f.take n
          | _ => List.replicate n "0"
        let thresh := if th = "_" then some none else (parseRat th).map some
        match parseGrid sT, parseGrid rT, parseGrid fT, thresh with
        | some sa, some ra, some fa, some thresh =>
          if sa.size ≠ n || ra.size ≠ n then "bad-args" else
          let b : Block := { h := h, w := w, src := gridVal sa w, ref := gridVal ra w, sm := gridOk sa w, rm := gridOk ra w }
          let cell (r c : Nat) : String :=
            match fitAt b model kh kw (fr ≠ 0) thresh n0 n1 (fun r c => fa.getD (r * w + c) none) r c with
            | none => "_"
            | some p => s!"{showRat p.gain},{showRat p.offset},{showORat p.r2}"
          " ".intercalate ((List.range h).flatMap fun r => (List.range w).map fun c => cell r c)
        | _, _, _, _ => "bad-args"
      | _ => "bad-args"
    | _, _, _, _, _, _, _, _ => "bad-args"
  | _ => "bad-args"

/-- resample <method> Sr(o p n) Sc(o p n) Dr(o p n) Dc(o p n) V <Sr.n * Sc.n values, `_` invalid> -/
def handleResample (toks : List String) : String :=
  match toks with
  | ms :: rest =>
    let meth : Option (Resampling ⊕ Wide) := match ms with
      | "average" => some (.inl .average) | "nearest" => some (.inl .nearest) | "bilinear" => some (.inl .bilinear)
      | "cubic" => some (.inr .cubic) | "cubic_spline" => some (.inr .cubicSpline) | _ => none
    match meth, ints (rest.take 12), rest.drop 12 with
    | some meth, some [a, b, c, d, e, f, g, h, i, j, k, l], "V" :: vals =>
      let sr : Axis := ⟨a, b, c⟩; let sc : Axis := ⟨d, e, f⟩; let dr : Axis := ⟨g, h, i⟩; let dc : Axis := ⟨j, k, l⟩
      match parseGrid vals with
      | some arr =>
        if arr.size ≠ (c * f).toNat then "bad-args" else
        let img : ImgO := fun r cc =>
          if 0 ≤ r ∧ r < c ∧ 0 ≤ cc ∧ cc < f then arr.getD (r.toNat * f.toNat + cc.toNat) none else none
        " ".intercalate ((List.range i.toNat).flatMap fun (jr : Nat) => (List.range l.toNat).map fun (jc : Nat) =>
          showORat (match meth with
            | .inl m => resample2 m sr sc dr dc img jr jc
            | .inr m => resampleWide m sr sc dr dc img jr jc))
      | none => "bad-args"
    | _, _, _ => "bad-args"
  | _ => "bad-args"

def parseFVal (t : String) : Option FVal :=
  if t = "nan" then some .nan else (parseRat t).map .fin

def parseXVal (t : String) : Option XVal :=
  if t = "nan" then some .nan else if t = "inf" then some .pinf else if t = "-inf" then some .ninf
  else (parseRat t).map .fin

def parseDType : String → Option DType
  | "uint8" => some .uint8 | "uint16" => some .uint16 | "int16" => some .int16
  | "uint32" => some .uint32 | "int32" => some .int32 | "float32" => some .float | "float64" => some .float
  | _ => none

def showXVal : XVal → String
  | .fin q => showRat q | .pinf => "inf" | .ninf => "-inf" | .nan => "nan"

/-- convert <dtype> <nodata: number | nan | null> v...  →  per value `<stored>:<maskbit>` or `err` if nodata is not castable -/
def handleConvert (toks : List String) : String :=
  match toks with
  | dt :: nd :: vals =>
    let ndv : Option OutNodata := if nd = "null" then some .null else if nd = "nan" then some .nan
      else (parseRat nd).map .num
    match parseDType dt, ndv, vals.mapM parseXVal with
    | some dt, some ndv, some xs =>
      if !nodataCastable dt ndv then "err" else
      " ".intercalate (xs.map fun x =>
        let p := convertPx dt ndv x
        let s := match p.1 with
          | .val v => showXVal v | .ival n => toString n | .unspecified => "?"
        s!"{s}:{if p.2 then 1 else 0}")
    | _, _, _ => "bad-args"
  | _ => "bad-args"

/-- cmpstats S <v...> R <v...>  (same length, `_` = invalid)  →  n r2 rmse2 rrmse2 -/
def handleCmp (toks : List String) : String :=
  match toks with
  | "S" :: rest =>
    let sT := rest.takeWhile (· ≠ "R")
    let rT := (rest.dropWhile (· ≠ "R")).drop 1
    match parseGrid sT, parseGrid rT with
    | some sa, some ra =>
      if sa.size ≠ ra.size then "bad-args" else
      let pts : List (Rat × Rat) := (List.range sa.size).filterMap fun i =>
        match sa.getD i none, ra.getD i none with
        | some a, some b => some (a, b)
        | _, _ => none
      let st := bandStats (blockSums pts)
      s!"{st.n} {showORat st.r2} {showORat st.rmse2} {showORat st.rrmse2}"
    | _, _ => "bad-args"
  | _ => "bad-args"

/-- pstats <thresh|_> <withInpaint> T v.. T v..   (tiles of valid values)  →  n mean var min max inpaintP -/
def handlePStats (toks : List String) : String :=
  match toks with
  | th :: wi :: rest =>
    let thresh : Option (Option Rat) := if th = "_" then some none else (parseRat th).map some
    -- split on "T"
    let tiles : List (List String) := (rest.foldl (fun (acc : List (List String)) t =>
      if t = "T" then [] :: acc else match acc with
        | [] => [[t]]
        | x :: xs => (t :: x) :: xs) []).map List.reverse |>.reverse
    match thresh, tiles.mapM (fun tl => tl.mapM parseRat) with
    | some thresh, some tv =>
      let acc := (tv.map (tileAcc thresh)).foldl PAcc.add PAcc.zero
      let st := paramStats acc (wi ≠ "0")
      s!"{acc.n} {showORat st.mean} {showORat st.var} {showORat st.min} {showORat st.max} {showORat st.inpaintP}"
    | _, _ => "bad-args"
  | _ => "bad-args"

/-- datawin <H> <W> <tileH> <tileW> <order> <bits of band 1> <bits of band 2> ...  (row-major `0`/`1` strings, one per band;
    `order` = `f` tiles in file order, `r` reversed)  →  data window `r0 c0 h w` (or `none`), then the tiles read, `r0:c0` each -/
def handleDataWin (toks : List String) : String :=
  match toks with
  | hh :: ww :: th :: tw :: ord :: bandBits =>
    match hh.toNat?, ww.toNat?, th.toNat?, tw.toNat? with
    | some H, some W, some tH, some tW =>
      if tH = 0 || tW = 0 || bandBits.isEmpty || bandBits.any (fun b => b.length != H * W) then "bad-args" else
      let bands : List (Nat → Nat → Bool) := bandBits.map fun b =>
        let arr := b.toList.toArray
        fun r c => r < H && c < W && arr.getD (r * W + c) '0' == '1'
      let tiles0 : List Win := (List.range ((H + tH - 1) / tH)).flatMap fun i => (List.range ((W + tW - 1) / tW)).map fun j =>
        ⟨i * tH, j * tW, min tH (H - i * tH), min tW (W - j * tW)⟩
      let tiles := if ord = "r" then tiles0.reverse else tiles0
      let win := match dataWindow (anyBand bands) tiles with
        | none => "none"
        | some w => s!"{w.r0} {w.c0} {w.h} {w.w}"
      let read := (tilesRead bands tiles tiles0).map fun t => s!"{t.r0}:{t.c0}"
      win ++ " | " ++ " ".intercalate read
    | _, _, _, _ => "bad-args"
  | _ => "bad-args"

def parseBand (t : String) : Option BandMeta :=
  match t.splitOn ":" with
  | [flags, wl] =>
    match flags.toList with
    | [a, m, c] =>
      let ci : ColorInterp := if c = 'r' then .red else if c = 'g' then .green else if c = 'b' then .blue else .other
      let w : Option (Option Rat) := if wl = "_" then some none else (parseRat wl).map some
      w.map fun w => ⟨a = '1', m = '1', ci, w⟩
    | _ => none
  | _ => none

def parseSel (t : String) : Option (Option (List Nat)) :=
  if t = "_" then some none else if t = "[]" then some (some []) else
    ((t.splitOn ",").mapM String.toNat?).map some

def showNats (l : List Nat) : String := ",".intercalate (l.map toString)

/-- match <force> <tol> S <sel> <bands...> R <sel> <bands...> -/
def handleMatch (toks : List String) : String :=
  match toks with
  | f :: tol :: "S" :: selS :: rest =>
    let sT := rest.takeWhile (· ≠ "R")
    match (rest.dropWhile (· ≠ "R")).drop 1 with
    | selR :: rT =>
      match f.toNat?, parseRat tol, parseSel selS, parseSel selR, sT.mapM parseBand, rT.mapM parseBand with
      | some f, some tol, some selS, some selR, some sb, some rb =>
        match matchPair sb rb selS selR (f ≠ 0) tol with
        | .ok (s, r) => s!"ok s={showNats s} r={showNats r}"
        | .error e => "err " ++ (match e with
          | .invalidBand => "invalid-band" | .alphaBand => "alpha-band" | .noBands => "no-bands"
          | .fewerRef => "fewer-ref" | .unmatchedWavelength => "unmatched-wavelength" | .unmatchedCount => "unmatched-count")
      | _, _, _, _, _, _ => "bad-args"
    | _ => "bad-args"
  | _ => "bad-args"

/-- fshist F <name:content>... C <corr> <param|_> <overwrite> <corrContent> <paramContent> C ... -/
def handleFs (toks : List String) : String :=
  let initT := (toks.drop 2).takeWhile (· ≠ "C")
  let rest := toks.dropWhile (· ≠ "C")
  let init : Option FS := initT.mapM fun t => match t.splitOn ":" with
    | [n, c] => c.toNat?.map fun c => (n, c)
    | _ => none
  -- split calls on "C"
  let groups : List (List String) := (rest.foldl (fun (acc : List (List String)) t =>
      if t = "C" then [] :: acc else match acc with
        | [] => [[t]]
        | x :: xs => (t :: x) :: xs) []).map List.reverse |>.reverse
  let calls : Option (List Call) := groups.mapM fun g => match g with
    | [corr, param, ov, cc, pc] =>
      match ov.toNat?, cc.toNat?, pc.toNat? with
      | some ov, some cc, some pc => some ⟨corr, if param = "_" then none else some param, ov ≠ 0, cc, pc⟩
      | _, _, _ => none
    | _ => none
  match init, calls with
  | some fs, some cs =>
    let r := runHistory fs cs
    let outs := ",".intercalate (r.2.map fun o => match o with | .ok => "ok" | .fileExists => "exists")
    let files := (r.1.map fun e => s!"{e.1}:{e.2}").toArray.qsort (· < ·) |>.toList
    s!"{outs} | " ++ " ".intercalate files
  | _, _ => "bad-args"

def parseRes : Char → Option Res
  | 'S' => some .S | 'R' => some .R | 'C' => some .C | 'P' => some .P | _ => none

def parseLabel (t : String) : Option Label :=
  if t = "take" then some .take else if t = "cmp" then some .compute else if t = "fin" then some .fin
  else if t = "fail" then some (.fail none)
  else
    let cs := t.toList
    match cs.reverse with
    | r :: rest =>
      let pre := String.ofList rest.reverse
      match parseRes r with
      | some r => if pre = "acq" then some (.acq r) else if pre = "io" then some (.io r) else if pre = "rel" then some (.rel r)
                  else if pre = "fail" then some (.fail (some r)) else none
      | none => none
    | [] => none

def showRes : Res → String | .S => "S" | .R => "R" | .C => "C" | .P => "P"

/-- sched <param> <T> <njobs> F <j:pc>... E <t:label>... -/
def handleSched (toks : List String) : String :=
  match toks with
  | pa :: t :: nj :: "F" :: rest =>
    let fT := rest.takeWhile (· ≠ "E")
    let eT := (rest.dropWhile (· ≠ "E")).drop 1
    let faults : Option (List (Nat × Nat)) := fT.mapM fun x => match x.splitOn ":" with
      | [a, b] => match a.toNat?, b.toNat? with | some a, some b => some (a, b) | _, _ => none
      | _ => none
    let events : Option (List (Nat × Label)) := eT.mapM fun x => match x.splitOn ":" with
      | [a, b] => match a.toNat?, parseLabel b with | some a, some l => some (a, l) | _, _ => none
      | _ => none
    match pa.toNat?, t.toNat?, nj.toNat?, faults, events with
    | some pa, some t, some nj, some fl, some ev =>
      let param := pa ≠ 0
      let fp : Faults := fun j pc => fl.contains (j, pc)
      match replay param fp (initState (List.range nj) t) ev 0 with
      | .error k => s!"reject {k}"
      | .ok s =>
        let oc := match s.outcome with | .ok => "ok" | .raised => "raised"
        let ws := ",".intercalate (s.writes.map fun w => s!"{w.1}.{showRes w.2}")
        let dn := ",".intercalate (s.done.map fun d => match d.2 with | none => s!"{d.1}:ok" | some pc => s!"{d.1}:f{pc}")
        s!"accept outcome={oc} locks={if s.locksFree then "free" else "held"} final={if s.final then 1 else 0} writes={ws} done={dn}"
    | _, _, _, _, _ => "bad-args"
  | _ => "bad-args"

/-- merge P <key=val@d|c>... C <key=val>...   (val `~` = None)  →  merged `key=val@src ...` or `reject` -/
def handleMerge (toks : List String) : String :=
  match toks with
  | "P" :: rest =>
    let pT := rest.takeWhile (· ≠ "C")
    let cT := (rest.dropWhile (· ≠ "C")).drop 1
    let params : Option (List (String × PVal String)) := pT.mapM fun t =>
      match t.splitOn "=" with
      | [k, vs] => match vs.splitOn "@" with
        | [v, src] => some (k, ⟨if v = "~" then none else some v, if src = "c" then .commandline else .default⟩)
        | _ => none
      | _ => none
    let conf : Option (List (String × String)) := cT.mapM fun t =>
      match t.splitOn "=" with
      | [k, v] => some (k, v)
      | _ => none
    match params, conf with
    | some ps, some cf =>
      match mergeAll ps cf with
      | none => "reject"
      | some m => " ".intercalate (m.map fun p =>
          s!"{p.1}={p.2.val.getD "~"}@{match p.2.src with | .default => "d" | .commandline => "c"}")
    | _, _ => "bad-args"
  | _ => "bad-args"

/-- fuseimg <model> <kh> <kw> <ups> <n0> <n1> Sr(o p n) Sc Rr Rc S <src vals> R <ref vals> → corrected source pixels -/
def handleFuseImg (toks : List String) (srcGrid : Bool := false) (pmask : Bool := false) : String :=
  match toks with
  | ms :: kh :: kw :: us :: n0 :: n1 :: rest =>
    let wide : Option Wide := match us with
      | "cubic" => some .cubic | "cubic_spline" => some .cubicSpline | _ => none
    let ups : Option Resampling := match us with
      | "nearest" => some .nearest | "bilinear" => some .bilinear | "average" => some .average
      | "cubic" | "cubic_spline" => if srcGrid || pmask then none else some .nearest
      | _ => none
    match parseModel ms, kh.toNat?, kw.toNat?, ups, parseRat n0, parseRat n1, ints (rest.take 12), rest.drop 12 with
    | some model, some kh, some kw, some ups, some n0, some n1, some [a, b, c, d, e, f, g, h, i, j, k, l], "S" :: vals =>
      let sr : Axis := ⟨a, b, c⟩; let sc : Axis := ⟨d, e, f⟩; let rr : Axis := ⟨g, h, i⟩; let rc : Axis := ⟨j, k, l⟩
      let sT := vals.takeWhile (· ≠ "R")
      let rT := (vals.dropWhile (· ≠ "R")).drop 1
      match parseGrid sT, parseGrid rT with
      | some sa, some ra =>
        if sa.size ≠ (c * f).toNat || ra.size ≠ (i * l).toNat then "bad-args" else
        let mk (arr : Array (Option Rat)) (nr nc : Int) : ImgO := fun r cc =>
          if 0 ≤ r ∧ r < nr ∧ 0 ≤ cc ∧ cc < nc then arr.getD (r.toNat * nc.toNat + cc.toNat) none else none
        let p : ImagePair := ⟨sr, sc, rr, rc, mk sa c f, mk ra i l⟩
        " ".intercalate ((List.range c.toNat).flatMap fun (r : Nat) => (List.range f.toNat).map fun (cc : Nat) =>
          if pmask then (if (if srcGrid then p.partialValidSrcGrid model kh kw n0 n1 ups r cc else p.partialValid model kh kw n0 n1 r cc) then "1" else "0") else
          showORat (if srcGrid then p.correctedSrcGrid model kh kw n0 n1 ups r cc else
            match wide with
            | some w => p.correctedWide model kh kw n0 n1 w r cc
            | none => p.corrected model kh kw n0 n1 ups r cc))
      | _, _ => "bad-args"
    | _, _, _, _, _, _, _, _ => "bad-args"
  | _ => "bad-args"

/-- fuseimgblk <sr> <sc> <vr> <vc> <model> <kh> <kw> <ups> <n0> <n1> axes S .. R .. → corrected source pixels as computed by the
    block that writes each of them (reference-grid processing; block shape `sr x sc`, overlap `vr x vc`) -/
def handleFuseImgBlk (toks : List String) : String :=
  match toks with
  | srs :: scs :: vrs :: vcs :: ms :: kh :: kw :: us :: n0 :: n1 :: rest =>
    let wide : Option Wide := match us with
      | "cubic" => some .cubic | "cubic_spline" => some .cubicSpline | _ => none
    let ups : Option Resampling := match us with
      | "nearest" => some .nearest | "bilinear" => some .bilinear | "average" => some .average
      | "cubic" | "cubic_spline" => some .nearest
      | _ => none
    match ints [srs, scs, vrs, vcs], parseModel ms, kh.toNat?, kw.toNat?, ups, parseRat n0, parseRat n1, ints (rest.take 12), rest.drop 12 with
    | some [bsr, bsc, vr, vc], some model, some kh, some kw, some ups, some n0, some n1, some [a, b, c, d, e, f, g, h, i, j, k, l], "S" :: vals =>
      let sr : Axis := ⟨a, b, c⟩; let sc : Axis := ⟨d, e, f⟩; let rr : Axis := ⟨g, h, i⟩; let rc : Axis := ⟨j, k, l⟩
      let sT := vals.takeWhile (· ≠ "R")
      let rT := (vals.dropWhile (· ≠ "R")).drop 1
      match parseGrid sT, parseGrid rT with
      | some sa, some ra =>
        if sa.size ≠ (c * f).toNat || ra.size ≠ (i * l).toNat || bsr ≤ 0 || bsc ≤ 0 then "bad-args" else
        let mk (arr : Array (Option Rat)) (nr nc : Int) : ImgO := fun r cc =>
          if 0 ≤ r ∧ r < nr ∧ 0 ≤ cc ∧ cc < nc then arr.getD (r.toNat * nc.toNat + cc.toNat) none else none
        let p : ImagePair := ⟨sr, sc, rr, rc, mk sa c f, mk ra i l⟩
        let nbr := nBlocks (refWin sr rr).lo (refWin sr rr).hi bsr
        let nbc := nBlocks (refWin sc rc).lo (refWin sc rc).hi bsc
        let rowBlk : Nat → Option Nat := fun r => (List.range nbr).find? fun kr =>
          decide ((p.blockRows bsr vr kr).oout.lo ≤ (r : Int)) && decide ((r : Int) < (p.blockRows bsr vr kr).oout.hi)
        let colBlk : Nat → Option Nat := fun cc => (List.range nbc).find? fun kc =>
          decide ((p.blockCols bsc vc kc).oout.lo ≤ (cc : Int)) && decide ((cc : Int) < (p.blockCols bsc vc kc).oout.hi)
        " ".intercalate ((List.range c.toNat).flatMap fun (r : Nat) => (List.range f.toNat).map fun (cc : Nat) =>
          match rowBlk r, colBlk cc with
          | some kr, some kc =>
            showORat (match wide with
              | some w => p.correctedWideByBlock model kh kw n0 n1 w bsr bsc vr vc kr kc r cc
              | none => p.correctedByBlock model kh kw n0 n1 ups bsr bsc vr vc kr kc r cc)
          | _, _ => "?")
      | _, _ => "bad-args"
    | _, _, _, _, _, _, _, _, _ => "bad-args"
  | _ => "bad-args"

def handle (toks : List String) : String :=
  match toks with
  | "blocks1" :: rest =>
    match ints rest with
    | some [po, pp, pn, oo, op, on, a, b, s, v] =>
      let bs := blocks1 ⟨po, pp, pn⟩ ⟨oo, op, on⟩ a b s v
      s!"{bs.length}" ++ String.join (bs.map fun b => s!" | {w1 b.pin} {w1 b.pout} {w1 b.oin} {w1 b.oout}")
    | _ => "bad-args"
  -- pair: source rows, reference rows, source cols, reference cols (o p n each), procRef, bands, block shape, overlap,
  --       optionally followed by an explicit processing window (row lo hi, col lo hi) instead of the model's own
  -- autoshape H W maxBytes(rational) : block shape of `_auto_block_shape`, or err
  | ["autoshape", hh, ww, mb] =>
    match hh.toNat?, ww.toNat?, parseRat mb with
    | some H, some W, some m =>
      (match autoBlockShape 400 H W m with
       | some (a, b) => s!"{a} {b}"
       | none => "err")
    | _, _, _ => "bad-args"
  | "pair" :: rest =>
    match ints rest with
    | some (sro :: srp :: srn :: rro :: rrp :: rrn :: sco :: scp :: scn :: rco :: rcp :: rcn :: pr :: nb :: bsr ::
        bsc :: vr :: vc :: tail) =>
      let sr : Axis := ⟨sro, srp, srn⟩; let rr : Axis := ⟨rro, rrp, rrn⟩
      let sc : Axis := ⟨sco, scp, scn⟩; let rc : Axis := ⟨rco, rcp, rcn⟩
      let procRef := pr ≠ 0
      let pw : Option (Win1 × Win1) :=
        match tail with
        | [] => some (procWin sr rr procRef, procWin sc rc procRef)
        | [a, b, c, d] => some (⟨a, b⟩, ⟨c, d⟩)
        | _ => none
      match pw with
      | none => "bad-args"
      | some (pwr, pwc) =>
      let (prow, orow, pcol, ocol) := if procRef then (rr, sr, rc, sc) else (sr, rr, sc, rc)
      let bps := blockPairs nb.toNat prow orow pcol ocol pwr.lo pwr.hi bsr vr pwc.lo pwc.hi bsc vc
      let fmt (bp : BlockPair) : String :=
        let (sin, rin, sout, rout) :=
          if procRef then (w2 bp.row.oin bp.col.oin, w2 bp.row.pin bp.col.pin, w2 bp.row.oout bp.col.oout,
            w2 bp.row.pout bp.col.pout)
          else (w2 bp.row.pin bp.col.pin, w2 bp.row.oin bp.col.oin, w2 bp.row.pout bp.col.pout,
            w2 bp.row.oout bp.col.oout)
        s!" | {bp.band} {sin} {rin} {sout} {rout} {if bp.outer then 1 else 0}"
      s!"refwin {w2 (refWin sr rr) (refWin sc rc)} srcwin {w2 (srcWin sr rr) (srcWin sc rc)} n {bps.length}" ++
        String.join (bps.map fmt)
    | _ => "bad-args"
  | "expandto" :: rest =>
    match ints rest with
    | some [po, pp, pn, oo, op, on, lo, hi] => w1 (expandTo ⟨po, pp, pn⟩ ⟨oo, op, on⟩ ⟨lo, hi⟩)
    | _ => "bad-args"
  | "roundto" :: rest =>
    match ints rest with
    | some [po, pp, pn, oo, op, on, lo, hi] => w1 (roundTo ⟨po, pp, pn⟩ ⟨oo, op, on⟩ ⟨lo, hi⟩)
    | _ => "bad-args"
  -- read2 nr nc rlo rhi clo chi coded? : per result pixel the dataset (row,col) it shows, or _ for nodata
  | "read2" :: rest =>
    match ints rest with
    | some [nr, nc, rlo, rhi, clo, chi, coded] =>
      let rd := if coded ≠ 0 then readWindowCoded (α := Int) else readWindow (α := Int)
      match rd nr (fun r => r) (-1) rlo rhi, rd nc (fun c => c) (-1) clo chi with
      | some rows, some cols =>
        "ok " ++ ";".intercalate (rows.map fun r => " ".intercalate (cols.map fun c =>
          if r < 0 || c < 0 then "_" else s!"{r}.{c}"))
      | _, _ => "err"
    | _ => "bad-args"
  -- write2 nr nc  br0 brlen bc0 bclen  rlo rhi clo chi : per dataset pixel the block (row,col) stored there, or _
  | "write2" :: rest =>
    match ints rest with
    | some [nr, nc, br0, brlen, bc0, bclen, rlo, rhi, clo, chi] =>
      match writeWindow2 (α := Int × Int) nr nc (fun _ _ => (-1, -1)) br0 brlen bc0 bclen (fun i j => (i, j))
              rlo rhi clo chi with
      | some f =>
        "ok " ++ ";".intercalate ((List.range nr.toNat).map fun (r : Nat) =>
          " ".intercalate ((List.range nc.toNat).map fun (c : Nat) =>
            if (f r c).1 < 0 then "_" else s!"{(f r c).1}.{(f r c).2}"))
      | none => "err"
    | _ => "bad-args"
  | "orient" :: rest =>
    match ints rest with
    | some [sn, sc, rn, rc, ps] =>
      let r := sameOrientationCrs ⟨sn ≠ 0, sc.toNat⟩ ⟨rn ≠ 0, rc.toNat⟩ (ps ≠ 0)
      s!"{if r.1.northUp then 1 else 0} {r.1.crs} {if r.2.northUp then 1 else 0} {r.2.crs}"
    | _ => "bad-args"
  | "fit" :: rest => handleFit rest
  | "fuseimg" :: rest => handleFuseImg rest
  | "fuseimgsrc" :: rest => handleFuseImg rest true
  | "fuseimgblk" :: rest => handleFuseImgBlk rest
  | "pmask" :: rest => handleFuseImg rest false true
  | "pmasksrc" :: rest => handleFuseImg rest true true
  | "merge" :: rest => handleMerge rest
  | ["procres", sa, ra, req] =>
    match sa.toInt?, ra.toInt? with
    | some sa, some ra =>
      let rq : ProcCrs := if req = "src" then .src else if req = "ref" then .ref else .auto
      (match resolveProcCrs sa ra rq with | .auto => "auto" | .src => "src" | .ref => "ref")
    | _, _ => "bad-args"
  -- cprofile <cfgDriver> I <k=v>... C <k=v>...  → merged profile, sorted by key
  | "cprofile" :: drv :: "I" :: rest =>
    let iT := rest.takeWhile (· ≠ "C")
    let cT := (rest.dropWhile (· ≠ "C")).drop 1
    let kv (ts : List String) : Option (List (String × String)) := ts.mapM fun t =>
      match t.splitOn "=" with | [k, v] => some (k, v) | _ => none
    match kv iT, kv cT with
    | some ip, some cf =>
      let m := combineProfiles ip drv cf
      " ".intercalate ((m.map fun e => s!"{e.1}={e.2}").toArray.qsort (· < ·)).toList
    | _, _ => "bad-args"
  | ["postfix", pc, m, kh, kw, ext] =>
    match kh.toNat?, kw.toNat? with
    | some kh, some kw => outPostfix pc m kh kw ext
    | _, _ => "bad-args"
  | "sched" :: rest => handleSched rest
  | "fshist" :: _ => handleFs toks
  | "match" :: rest => handleMatch rest
  | "cmpstats" :: rest => handleCmp rest
  | "meanrow" :: rest =>
    match parseGrid rest with
    | some a => showORat (meanRow a.toList)
    | none => "bad-op"
  | "pstats" :: rest => handlePStats rest
  | "datawin" :: rest => handleDataWin rest
  | "convert" :: rest => handleConvert rest
  | "resample" :: rest => handleResample rest
  -- erode kh kw h w <h*w bits>  : `_full_coverage_mask` erosion over one block (false border)
  | "erode" :: kh :: kw :: h :: w :: bits =>
    match kh.toNat?, kw.toNat?, h.toNat?, w.toNat? with
    | some kh, some kw, some h, some w =>
      let arr := bits.toArray
      if arr.size ≠ h * w then "bad-args" else
      let m : Nat → Nat → Bool := fun i j => arr.getD (i * w + j) "0" = "1"
      " ".intercalate ((List.range h).flatMap fun r => (List.range w).map fun c =>
        if erodeAt kh kw h w m r c then "1" else "0")
    | _, _, _, _ => "bad-args"
  -- layout n : for every band 1..3n of the parameter image "<pair>.<suffix>" (pair 0-based), from the metadata loop
  | ["layout", n] =>
    match n.toNat? with
    | some n =>
      let asg := descrAssignments n (3 * n)
      " ".intercalate ((List.range (3 * n)).map fun b =>
        match asg.find? (fun p => p.1 == b + 1) with
        | some p =>
          -- which pair writes this band: invert paramIndex
          match (List.range n).find? (fun i => paramIndex n i p.2 == b + 1) with
          | some i => s!"{i}.{suffixName p.2}"
          | none => "?"
        | none => "?")
    | none => "bad-args"
  | "readpx" :: rest =>
    match rest with
    | [im, nd, st, mb] =>
      let ndv : Option (Option FVal) := if nd = "_" then some none else (parseFVal nd).map some
      match im.toNat?, ndv, parseFVal st, mb.toNat? with
      | some im, some ndv, some st, some mb => showORat (readPx (im ≠ 0) ndv st (mb ≠ 0))
      | _, _, _, _ => "bad-args"
    | _ => "bad-args"
  | "overlap" :: rest =>
    match rest with
    | [kh, kw] =>
      match kh.toNat?, kw.toNat? with
      | some kh, some kw => s!"{overlapForKernel kh} {overlapForKernel kw}"
      | _, _ => "bad-args"
    | _ => "bad-args"
  | "kshape" :: rest =>
    match rest with
    | [ms, kh, kw] =>
      match parseModel ms, kh.toInt?, kw.toInt? with
      | some m, some kh, some kw => if validKernelShape kh kw m then "1" else "0"
      | _, _, _ => "bad-args"
    | _ => "bad-args"
  | "covers" :: rest =>
    match ints rest with
    | some [rro, rrp, rrn, sro, srp, srn, rco, rcp, rcn, sco, scp, scn] =>
      let c := coversFixed ⟨rro, rrp, rrn⟩ ⟨sro, srp, srn⟩ && coversFixed ⟨rco, rcp, rcn⟩ ⟨sco, scp, scn⟩
      let c0 := coversCoded ⟨rro, rrp, rrn⟩ ⟨sro, srp, srn⟩ && coversCoded ⟨rco, rcp, rcn⟩ ⟨sco, scp, scn⟩
      s!"{if c then 1 else 0} coded {if c0 then 1 else 0}"
    | _ => "bad-args"
  | _ => "bad-op"

partial def loop (h : IO.FS.Stream) (out : IO.FS.Stream) : IO Unit := do
  let line ← h.getLine
  if line.isEmpty then return ()
  let toks := (line.trimAscii.toString.splitOn " ").filter (· ≠ "")
  out.putStrLn (handle toks)
  loop h out

def main : IO Unit := do
  let out ← IO.getStdout
  loop (← IO.getStdin) out
  out.flush
