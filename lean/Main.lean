/-
  Line-protocol driver: one request per line on stdin, one reply per line on stdout.
  Imports the executable model only (no Mathlib).
-/
import Homonim.Model.Geom
import Homonim.Model.Blocks
import Homonim.Model.WindowIO
import Homonim.Model.Orient
open Homonim

def ints (ts : List String) : Option (List Int) := ts.mapM String.toInt?

def w1 (w : Win1) : String := s!"{w.lo} {w.hi}"

/-- rasterio order: col_off row_off width height -/
def w2 (row col : Win1) : String := s!"{col.lo} {row.lo} {col.len} {row.len}"

def handle (toks : List String) : String :=
  match toks with
  | "blocks1" :: rest =>
    match ints rest with
    | some [po, pp, pn, oo, op, on, a, b, s, v] =>
      let bs := blocks1 ⟨po, pp, pn⟩ ⟨oo, op, on⟩ a b s v
      s!"{bs.length}" ++ String.join (bs.map fun b => s!" | {w1 b.pin} {w1 b.pout} {w1 b.oin} {w1 b.oout}")
    | _ => "bad-args"
  -- pair: source rows, reference rows, source cols, reference cols (o p n each), procRef, bands, block shape, overlap,
  --       optionally followed by an explicit processing window (row lo hi, col lo hi) instead of the model's own
  | "pair" :: rest =>
    match ints rest with
    | some (sro :: srp :: srn :: rro :: rrp :: rrn :: sco :: scp :: scn :: rco :: rcp :: rcn :: pr :: nb :: bsr ::
        bsc :: vr :: vc :: tail) =>
      let sr : Axis := ⟨sro, srp, srn⟩; let rr : Axis := ⟨rro, rrp, rrn⟩
      let sc : Axis := ⟨sco, scp, scn⟩; let rc : Axis := ⟨rco, rcp, rcn⟩
      let procRef := pr ≠ 0
      let pw : Option (Win1 × Win1) :=
        match tail with
        | [] => some (procWin sr rr procRef, procWin sc rc procRef)
        | [a, b, c, d] => some (⟨a, b⟩, ⟨c, d⟩)
        | _ => none
      match pw with
      | none => "bad-args"
      | some (pwr, pwc) =>
      let (prow, orow, pcol, ocol) := if procRef then (rr, sr, rc, sc) else (sr, rr, sc, rc)
      let bps := blockPairs nb.toNat prow orow pcol ocol pwr.lo pwr.hi bsr vr pwc.lo pwc.hi bsc vc
      let fmt (bp : BlockPair) : String :=
        let (sin, rin, sout, rout) :=
          if procRef then (w2 bp.row.oin bp.col.oin, w2 bp.row.pin bp.col.pin, w2 bp.row.oout bp.col.oout,
            w2 bp.row.pout bp.col.pout)
          else (w2 bp.row.pin bp.col.pin, w2 bp.row.oin bp.col.oin, w2 bp.row.pout bp.col.pout,
            w2 bp.row.oout bp.col.oout)
        s!" | {bp.band} {sin} {rin} {sout} {rout} {if bp.outer then 1 else 0}"
      s!"refwin {w2 (refWin sr rr) (refWin sc rc)} srcwin {w2 (srcWin sr rr) (srcWin sc rc)} n {bps.length}" ++
        String.join (bps.map fmt)
    | _ => "bad-args"
  | "expandto" :: rest =>
    match ints rest with
    | some [po, pp, pn, oo, op, on, lo, hi] => w1 (expandTo ⟨po, pp, pn⟩ ⟨oo, op, on⟩ ⟨lo, hi⟩)
    | _ => "bad-args"
  | "roundto" :: rest =>
    match ints rest with
    | some [po, pp, pn, oo, op, on, lo, hi] => w1 (roundTo ⟨po, pp, pn⟩ ⟨oo, op, on⟩ ⟨lo, hi⟩)
    | _ => "bad-args"
  -- read2 nr nc rlo rhi clo chi coded? : per result pixel the dataset (row,col) it shows, or _ for nodata
  | "read2" :: rest =>
    match ints rest with
    | some [nr, nc, rlo, rhi, clo, chi, coded] =>
      let rd := if coded ≠ 0 then readWindowCoded (α := Int) else readWindow (α := Int)
      match rd nr (fun r => r) (-1) rlo rhi, rd nc (fun c => c) (-1) clo chi with
      | some rows, some cols =>
        "ok " ++ ";".intercalate (rows.map fun r => " ".intercalate (cols.map fun c =>
          if r < 0 || c < 0 then "_" else s!"{r}.{c}"))
      | _, _ => "err"
    | _ => "bad-args"
  -- write2 nr nc  br0 brlen bc0 bclen  rlo rhi clo chi : per dataset pixel the block (row,col) stored there, or _
  | "write2" :: rest =>
    match ints rest with
    | some [nr, nc, br0, brlen, bc0, bclen, rlo, rhi, clo, chi] =>
      match writeWindow (α := Int) nr (fun _ => -1) br0 brlen (fun i => i) rlo rhi,
            writeWindow (α := Int) nc (fun _ => -1) bc0 bclen (fun i => i) clo chi with
      | some fr, some fc =>
        "ok " ++ ";".intercalate ((List.range nr.toNat).map fun (r : Nat) =>
          " ".intercalate ((List.range nc.toNat).map fun (c : Nat) =>
            if fr r < 0 || fc c < 0 then "_" else s!"{fr r}.{fc c}"))
      | _, _ => "err"
    | _ => "bad-args"
  | "orient" :: rest =>
    match ints rest with
    | some [sn, sc, rn, rc, ps] =>
      let r := sameOrientationCrs ⟨sn ≠ 0, sc.toNat⟩ ⟨rn ≠ 0, rc.toNat⟩ (ps ≠ 0)
      s!"{if r.1.northUp then 1 else 0} {r.1.crs} {if r.2.northUp then 1 else 0} {r.2.crs}"
    | _ => "bad-args"
  | "covers" :: rest =>
    match ints rest with
    | some [rro, rrp, rrn, sro, srp, srn, rco, rcp, rcn, sco, scp, scn] =>
      let c := coversFixed ⟨rro, rrp, rrn⟩ ⟨sro, srp, srn⟩ && coversFixed ⟨rco, rcp, rcn⟩ ⟨sco, scp, scn⟩
      let c0 := coversCoded ⟨rro, rrp, rrn⟩ ⟨sro, srp, srn⟩ && coversCoded ⟨rco, rcp, rcn⟩ ⟨sco, scp, scn⟩
      s!"{if c then 1 else 0} coded {if c0 then 1 else 0}"
    | _ => "bad-args"
  | _ => "bad-op"

partial def loop (h : IO.FS.Stream) (out : IO.FS.Stream) : IO Unit := do
  let line ← h.getLine
  if line.isEmpty then return ()
  let toks := (line.trimAscii.toString.splitOn " ").filter (· ≠ "")
  out.putStrLn (handle toks)
  loop h out

def main : IO Unit := do
  let out ← IO.getStdout
  loop (← IO.getStdin) out
  out.flush
