"""Run the repository's test suite (hooks guard off) and compare with /root/.vp/BASELINE.json stable_pass."""
import json, os, subprocess, sys, tempfile, xml.etree.ElementTree as ET
repo = os.environ.get('VERIF_REPO', '/repo')
env = dict(os.environ); env.pop('HOMONIM_VERIF', None)
with tempfile.TemporaryDirectory() as d:
    x = os.path.join(d, 'j.xml')
    subprocess.run(['/venv/bin/python', '-m', 'pytest', '-q', '-p', 'no:cacheprovider', '--timeout=900',
                    '--continue-on-collection-errors', f'--junitxml={x}'], cwd=repo, env=env,
                   stdout=subprocess.DEVNULL, stderr=subprocess.DEVNULL)
    passed = set()
    for tc in ET.parse(x).getroot().iter('testcase'):
        if not any(c.tag in ('failure', 'error', 'skipped') for c in tc):
            passed.add(f"{tc.get('classname')}::{tc.get('name')}")
base = json.load(open('/root/.vp/BASELINE.json'))['stable_pass']
missing = [t for t in base if t not in passed]
print(f'passed {len(passed)}; baseline stable_pass {len(base)}; baseline tests not passing now: {len(missing)}')
for t in missing[:20]:
    print('  MISSING', t)
print('extra passing:', sorted(passed - set(base))[:20])
sys.exit(1 if missing else 0)
