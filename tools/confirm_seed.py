"""
Confirm a seeded change produced by a sub-agent and file it under /verif/seeded/<name>/.
  usage: confirm_seed.py <property id> <agent out dir> [<name>] [--checks C02,C03] [--tier quick]
Steps (all in a fresh scratch worktree of /repo HEAD, removed afterwards):
  demo on clean tree -> must exit 0; apply patch; demo -> must exit != 0; test-suite baseline with the patch -> must
  pass; then the registered check(s) are run against the patched worktree (VERIF_REPO) and the outcome recorded.
"""
import json, os, pathlib, shutil, subprocess, sys, time
args = [a for a in sys.argv[1:] if not a.startswith('--')]
opts = {a.split('=')[0]: (a.split('=') + [''])[1] for a in sys.argv[1:] if a.startswith('--')}
pid, outdir = args[0], pathlib.Path(args[1])
name = args[2] if len(args) > 2 else pid
checks = (opts.get('--checks') or pid).split(',')
tier = opts.get('--tier') or 'quick'
V = pathlib.Path('/verif')
wt = pathlib.Path(f'/tmp/confirm_{name}')
if wt.exists():
    subprocess.run(['git', '-C', '/repo', 'worktree', 'remove', '--force', str(wt)])
subprocess.run(['git', '-C', '/repo', 'worktree', 'add', '-q', str(wt), 'HEAD'], check=True)
rec = dict(ran=[])
try:
    def demo():
        r = subprocess.run(['/venv/bin/python', str(outdir / 'demo.py')], cwd=wt, capture_output=True, text=True, timeout=1800)
        return r.returncode, (r.stdout + r.stderr)[-800:]
    rc0, out0 = demo()
    rec['demo_clean_exit'] = rc0
    ap = subprocess.run(['git', '-C', str(wt), 'apply', str(outdir / 'patch.diff')], capture_output=True, text=True)
    rec['patch_applies'] = ap.returncode == 0
    rc1, out1 = demo()
    rec['demo_patched_exit'] = rc1
    rec['demo_patched_tail'] = out1[-400:]
    env = dict(os.environ, VERIF_REPO=str(wt))
    b = subprocess.run(['/venv/bin/python', str(V / 'tools' / 'baseline.py')], env=env, capture_output=True, text=True)
    rec['baseline_patched_exit'] = b.returncode
    rec['baseline_patched'] = b.stdout.strip().split('\n')[0]
    rec['detected_by'] = {}
    for c in checks:
        r = subprocess.run([str(V / 'check'), c, '--tier', tier], env=env, capture_output=True, text=True, cwd=V)
        lines = [l for l in r.stdout.split('\n') if l.startswith('VIOLATION') or l.startswith('[' + c)]
        rec['detected_by'][c] = dict(exit=r.returncode, lines=lines[-2:])
    rec['confirmed'] = (rc0 == 0 and rc1 != 0 and ap.returncode == 0 and b.returncode == 0)
finally:
    subprocess.run(['git', '-C', '/repo', 'worktree', 'remove', '--force', str(wt)])
dst = V / 'seeded' / name
dst.mkdir(parents=True, exist_ok=True)
shutil.copy(outdir / 'patch.diff', dst / 'patch.diff')
shutil.copy(outdir / 'demo.py', dst / 'demo.py')
meta = json.loads((outdir / 'meta.json').read_text()) if (outdir / 'meta.json').exists() else {}
meta.update(property=pid, confirmation=rec, confirmed_at=time.strftime('%Y-%m-%d %H:%M'),
            what_was_run=['demo.py on a clean scratch worktree (expect exit 0)', 'git apply patch.diff; demo.py (expect exit != 0)',
                          'tools/baseline.py with VERIF_REPO=<patched worktree> (expect the 293 baseline tests to pass)',
                          f'./check <id> --tier {tier} with VERIF_REPO=<patched worktree> for ' + ','.join(checks)])
(dst / 'meta.json').write_text(json.dumps(meta, indent=1))
print(json.dumps(rec, indent=1))
