#!/bin/bash
# usage: tools/coverage.sh [tier]   - statement / branch coverage of /repo/homonim under the correspondence legs of all checks
# (measured, not assumed: which lines of the code under test no check ever executes).  Scratch files go to /tmp/verif_cov.
cd "$(dirname "$0")/.."
tier=${1:-quick}
d=/tmp/verif_cov; rm -rf $d; mkdir -p $d
ids=$(python3 -c "import json; print(' '.join(c['property_id'] for c in json.load(open('MANIFEST.json'))['checks']))")
for p in $ids; do
  COVERAGE_FILE=$d/.coverage.$p /venv/bin/python -W ignore -m coverage run --branch --source=/repo/homonim harness/run.py $p --tier $tier --no-proof > $d/$p.log 2>&1 &
done
wait
cd $d && /venv/bin/python -m coverage combine -q .coverage.C* && /venv/bin/python -m coverage report --show-missing
