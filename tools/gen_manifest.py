"""Regenerates MANIFEST.json from the table below (kept here so the manifest is always schema-valid)."""
import json, pathlib
V = pathlib.Path(__file__).resolve().parents[1]
CHECKS = {
 'C01': dict(
  text="Proof (Lean 4) over exact rationals, for every block shape, pixel values, masks, odd kernel (h != w included) and pixel: "
       "the window is kernel-shaped height x width centred on the pixel; the six zero-filled box sums are the sums over the "
       "window's jointly valid pixels; gain = ratio of sums; gain-offset = closed-form OLS, satisfies both normal equations and "
       "minimises RSS over all lines; gain-blk-offset = block-normalised ratio of sums; R2 expansions = 1 - RSS/TSS; the fitted "
       "line maps mean source to mean reference for all models, also at in-painted pixels; no parameters off the joint mask; "
       "kernel-shape validation spec (14 theorems); plus 8 source-tie theorems: the model's gain, OLS gain/offset, in-paint test, "
       "re-estimated gain, both R2 expansions and the block-offset incorporation are the expressions harness/py2lean.py re-derives "
       "from the source text of kernel_model.py on every run. Tied to the code by running the real KernelModel.fit on ~200 (quick) / 4000 "
       "(thorough) generated blocks: masks exact, gains bit-identical to float32(model rational), offsets/R2 within a float32 "
       "error budget, plus a brute-force definition oracle over each window.",
  note="OpenCV box filters are modelled as zero-border window sums (validated by the correspondence run on integer data where "
       "float32 sums are exact); rasterio.fill.fillnodata is a parameter of the model (its output is fed to the model); "
       "numpy std/percentile enter through the block normalisation pair (n0, n1) taken from the code."
       ' Input strata added from the seeded-change rounds: kernels up to 19 x 21 on fully valid blocks, sources negative throughout, block normalisation compared with its definition. Since round 8: a second fit against a reference block object that already went through another fit (the blocks are zeroed in place under their cached masks); the acceptance test and the warning of validate_kernel_shape are extracted from the source text and proved equal to the model\'s (Props/SrcTieCli.lean). Round 9: blocks whose reference is constant (block gain exactly 0: gain 0, offset = the reference value), NaN-aware tests. Round 10: 3 input(s) found by a bug-hunting sub-agent on the unchanged code (harness/found/C01_demo*.py) are replayed by this check on every run; those that violate the property are listed in known_findings.json by script name (repaired ones must stay quiet).',
  tech="Lean 4 proof (field_simp/ring/linarith over Q, list induction) + bit-exact differential correspondence run", ref='7 C01'),
 'C02': dict(
  text="Proof (Lean 4) over exact rationals: if ref = a x + b on the jointly valid pixels of a window, gain-offset OLS returns "
       "exactly (a, b), gain returns a (b = 0), gain-blk-offset returns (a, b) under the std/percentile hypotheses, R2 = 1; a "
       "normalised weighted-mean resampler keeps constants and commutes with affine maps; hence the up-sampled parameters are "
       "(a, b) and the corrected value at a source pixel is a src + b at its own location (11 theorems); the kernel-formula source-tie "
       "theorems, the end-to-end block transparency theorem (Props/E2E.lean) and the WHOLE-IMAGE line-recovery theorems (Props/E2ELine.lean: if ref = a x (+ b) of the source as seen on the reference grid, every valid corrected pixel is a src (+ b) at its own location, for every geometry, kernel and nearest/bilinear up-sampling; Props/E2EWide.lean: the same for cubic and the default cubic_spline, whose weights are proved to be a partition of unity) are audited here too. Tied to the code by real "
       "fusions of pairs constructed with the model's exact `average` resampler (ratios 1..4 incl. 5:2, 20:9, sub-pixel offsets, "
       "nodata borders/holes, NaN / numeric / internal-mask nodata, 1-3 bands with band-specific (a,b), three models, 1..64 blocks, "
       "threads 1/2/4, both processing grids): |corrected - (a src + b)| <= 2e-4 range at every valid source pixel, "
       "RasterCompare RMSE ~ 0; by a direct differential run of RasterArray.reproject against the resampling model; and by a "
       "whole-image oracle: RasterFuse.process on unrelated random source/reference images against the executable model of the "
       "complete reference-grid pipeline (Model/FuseImage.lean, Model/Cubic.lean: average down-sampling, kernel fit, nearest/bilinear/cubic/cubic_spline up-sampling, "
       "apply) - validity exact, values to a float32 budget.",
  note="GDAL warp = normalised weighted mean (average: overlap areas; nearest/bilinear/cubic_spline: centre rule; cubic: convolution with bilinear fall-back) is modelled and measured, "
       "not proved. Degenerate windows (single valid pixel / constant source under gain-offset) are excluded by hypothesis "
       "(partial). In decimal geometry value oracles avoid exactly coinciding pixel edges (GDAL float noise changes validity "
       "there, also on dyadic grids whose pixel size is not a power of two: GDAL multiplies by an inexact inverse geotransform); "
       "dyadic grids with power-of-two pixels cover them exactly. The whole-image pipeline is an executable model that is "
       "differentially tested; the theorems are per pixel."
       ' Input strata added from the seeded-change rounds: non-square pixels, flat source patches and isolated valid pixels (in-painted parameters), 8-bit sources with a partly semi-transparent alpha band, the cubic / cubic-spline kernels. Round 10: 3 input(s) found by a bug-hunting sub-agent on the unchanged code (harness/found/C02_demo*.py) are replayed by this check on every run; those that violate the property are listed in known_findings.json by script name (repaired ones must stay quiet).',
  tech="Lean 4 proof (algebra over Q, list induction) + constructed-oracle differential runs", ref='7 C02'),
 'C03': dict(
  text="Proof (Lean 4): a corrected pixel is valid only if the source pixel is, unconditionally, on both processing grids "
       "(corrected_valid_imp_src_valid*); conversely a valid source pixel is valid in the corrected image when its centre's "
       "processing pixel carries parameters and the up-sampling weights are non-negative (src_valid_imp_corrected_valid), with "
       "the chain behind the premise: a normalised mean over positive weights exists and is positive on positive data, the "
       "pixel is in its own kernel window, so the gain fit exists on positive data (12 theorems); end to end for the whole-image "
       "model (Props/E2EMask.lean, Props/E2EWide.lean - validity is the same for nearest, bilinear, cubic and the default cubic_spline): no invented pixels for every model and method, no lost pixels for the gain model on positive "
       "data with nearest/bilinear up-sampling, and the same through every block (block_mask_eq_whole). Tied to the code by ~45 (quick) / "
       "900 (thorough) real fusions over validity patterns x geometry x models x kernels x grids x blocks x output nodata/dtype x "
       "up-sampling: subset always, equality under the hypotheses; plus the resampler validity rules against GDAL.",
  note="Known finding D17 (open): gain-offset without in-painting loses an isolated valid pixel (degenerate window; witness theorem "
       "gain_offset_single_point_no_fit). GDAL validity rules R1 (average) / R2 (centre rule for up-sampling) are modelled and measured; no-gap tiling is C06's; "
       "re-masking after rounding is C13's. The converse is proved per pixel from explicit premises, not as one end-to-end theorem."
       ' Input strata added from the seeded-change rounds: tie geometries, alpha sources with semi-transparent valid pixels, exactly constant source patches with in-painting on. Since round 8: a 1/64 m source against a reference with pixels 2048 source pixels long, the source\'s far edge one source pixel beyond a reference pixel edge (no window edge may be snapped away); expand_window_to_grid\'s source-text tie also serves this property. Round 9: the flat-patch case as one block with the in-paint threshold 0 (bottom of the documented range). Round 10: 3 input(s) found by a bug-hunting sub-agent on the unchanged code (harness/found/C03_demo*.py) are replayed by this check on every run; those that violate the property are listed in known_findings.json by script name (repaired ones must stay quiet). Round 10/11: theorems on where the fit has no solution (gain_fit_exists_iff, gain_offset_constant_source_no_fit, variance_of_constant).',
  tech="Lean 4 proof (order/field facts over Q, list induction) + differential mask comparison on real fusions", ref='7 C03'),
 'C04': dict(
  text="Proof (Lean 4) on the block fan-out machine (4 locks, per-block straight-line program, any number of threads, any "
       "scheduler): the lock invariant holds in every reachable state of every schedule, mutual exclusion, every file access "
       "under the file's own lock, locks never nested, no deadlock (some thread can always step until all jobs are done), "
       "termination (a measure decreases with every step), each block written at most once per file, disjoint writes commute, and "
       "every complete run writes every block's corrected and parameter window exactly once whatever the schedule "
       "(schedule_independent) (11 theorems); source-tie: the machine's per-block program is the sequence of `with lock:` / dataset / "
       "fit / apply steps that harness/py2lean.py extracts from _process_block and read on every run (src_C04_prog). Tied to the code by running the real RasterFuse.process under a controlled scheduler that replaces the executor, "
       "the four locks and the four datasets from outside: 30 (quick) / 1800 (thorough) seeded schedules (random, stall-first, "
       "round-robin, starve, sticky, switch; 2-4 workers); every observed trace is replayed and accepted by the Lean machine, no "
       "dataset call happens without its lock, outputs (pixels, masks, tags, descriptions; NaN and internal-mask outputs with "
       "band-specific masks) are bit-identical to the single-threaded run; free-running 1/2/4/16 threads; compare/stats likewise.",
  note="Races inside GDAL below the proxies, the GIL and memory visibility are outside the model. The controller serialises "
       "worker threads, so only interleavings at yield points (lock acquire/release, first dataset access, fit, apply, job end) are "
       "explored - which is all that matters when every shared access is under a lock, and that premise is checked per access."
       ' Added from the seeded-change rounds: lock-set discipline (some one controlled lock held at every access to a file; locks the code creates during a run come from a factory), schedules on objects that already did a single-threaded call, a free-running stress leg (switch interval 1 us) for races between byte-codes. The lock-set check sees Python-level locks only. Since round 8: a pass-through probe counts the threads inside read / dataset_mask of the parameter dataset shared by the workers of ParamStats.stats (more than one at a time is a failing input); validate_threads is extracted and proved (never more than the processors). Round 9: compare on a 640 x 560 band (more than a megabyte) with the finer grid forced, 1 / 2 / 4 threads - the partition is a matter of max_block_mem alone. Round 10: 3 inputs found by a bug-hunting sub-agent on the unchanged code (harness/found/C04_demo*.py: GDAL block cache under pressure) are replayed by this check on every run; they are listed in known_findings.json by script name. Round 11: min / max of parameter bands with empty tiles inside the data window under 1 / 2 / 4 threads and under reversed / shuffled completion orders (a lazy executor). Round 12: two real workers ordered by events so that another block\'s fit() completes between a block\'s own fit() and apply() (the one model object is shared by all blocks), on images with blocks that hold no valid pixel, both processing grids; the assumption that the value a block writes is a function of the block alone is a named hypothesis (SharedModel.Stateless: stateless_compute_interleaving_independent, noting_model_schedule_dependent) tied to the source text: no method of the model classes other than __init__ stores into the shared object (src_C04_model_state).',
  tech="Lean 4 proof about a scheduler state machine + trace validation of real threads under a controlled scheduler", ref='7 C04'),
 'C05': dict(
  text="Proof (Lean 4): overlap_for_kernel = ceil(k/2) = radius + 1; the kernel window of every pixel within one pixel of a "
       "block's output window lies inside its input window (all A, B, s, v >= k/2+1); the fit at a pixel of a sub-block that "
       "contains its clipped kernel window equals the fit over the whole processing window, for all three models "
       "(fit_depends_only_on_window, via a crop lemma on window lists); bilinear/nearest support stays within one pixel of "
       "the centre pixel and has non-negative normalised weights (5 theorems); END TO END (Props/E2E.lean): block_transparent - for every "
       "image pair, grid geometry (ties included), kernel, block shape and overlap >= radius + 1, every source pixel gets from the "
       "block that writes it exactly the value and validity of the single-block run of the whole-image model (nearest/bilinear; "
       "all models given the same block normalisation), and partitions_agree; source-tie theorems for overlap_for_kernel and the "
       "block loop of block_pairs; source-grid processing (Props/E2ESrc.lean): block_transparent_src_grid for average (the automatic "
       "source grid) and nearest, for bilinear up to a reference pixel three source pixels wide, with a kernel-checked "
       "counterexample beyond (forced grid, outside this property); THE 4 x 4 KERNELS (Model/Cubic.lean, Props/E2EWide.lean): cubic "
       "(with GDAL's bilinear fall-back) and cubic_spline (the default) are modelled exactly; block_transparent_wide - a source pixel "
       "gets from its block the value of the single-block run unless the reference pixel under its centre is the first / last "
       "row or column of the block's output window next to another block (the property's 'within one processing-grid pixel of a "
       "block boundary'), with a kernel-checked counterexample at such a seam; block_mask_eq_whole_wide - validity agrees everywhere; "
       "the parameter image (Props/E2EParam.lean): param_image_block_transparent, param_image_partitions_agree. "
       "Tied to the code by pairs of real fusions (1 block vs "
       "1..6 halvings): parameter images identical (bit-identical on dyadic integer-exact data), corrected identical for nearest/"
       "bilinear/source grid, cubic-spline differences confined to one processing pixel of a seam; overlap_for_kernel vs model; and "
       "multi-block real fusions against the whole-image model (Model/FuseImage.lean), which has no blocks at all, and at every pixel - "
       "seams included - against the block model (what the block that writes a pixel computes from what it read; fuseimgblk op).",
  note="gain-blk-offset and in-painting have a per-block term and are excluded (partial), as the property states."
       ' Known finding D24 (open): down-sampling methods other than `average` are partition dependent (recorded signatures: cubic; bilinear on the reference grid). Since round 8: mask_partial=True with bilinear / cubic-spline up-sampling in 2, 4 and 8 blocks against one (aligned integer ratios, gain model: findings D8 / D16 cannot interfere). Round 10: 5 input(s) found by a bug-hunting sub-agent on the unchanged code (harness/found/C05_demo*.py) are replayed by this check on every run; those that violate the property are listed in known_findings.json by script name (repaired ones must stay quiet).',
  tech="Lean 4 proof (omega on windows, list congruence) + partition-pair differential runs", ref='7 C05'),
 'C06': dict(
  text="Proof (Lean 4): for all origins, pixel sizes, image sizes, block lengths s>0 and overlaps v>=0 the processing-grid "
       "output windows partition the processing window, the rounded other-grid output windows partition [round A, round B) "
       "which contains the source image, input windows are output windows grown by the overlap, paired windows cover the same "
       "ground in whole pixels; the block shape of _auto_block_shape (halving loop) is positive, never exceeds the window, fits the "
       "memory budget, and is the whole window when that fits (22 theorems, Props/C06.lean); source-tie theorems: block_pairs' range "
       "and corner arithmetic, expand_window_to_grid (divmod/ceil = [floor, ceil) = the model's integer expandTo), "
       "round_bounds_to_grid are the model's definitions. Tied to the code by a differential run of "
       "RasterPairReader.block_pairs() against the model's executable block generator on ~200 (quick) / 4000 (thorough) "
       "geometries, exact on dyadic grids with power-of-two pixels, tie-tolerant (only at exact ties, computed in integers) where "
       "the pixel arithmetic is inexact, _auto_block_shape against the model for 8 budgets per geometry, plus the property's own predicates (cover count of every source pixel = 1, input "
       "windows contain output windows) on the code's windows, also for source and reference in different CRSs.",
  note="Float behaviour of rasterio's affine maps is outside the proof: the proof needs both neighbours to derive a shared "
       "boundary by the same function of the same integer corner; that obligation is checked on the real code per case. "
       "Block shape (_auto_block_shape) is read from the code and passed to the model (theorems hold for every s). Since round 8: sliver geometries - the dyadic geometries on a unit 1024 times finer with the source moved by 1-3 such units, so that window edges lie 1/20000 ... 1/700 pixel beside pixel edges of the other grid. Round 9: non-square pixels (rows twice as tall as wide, source or reference) and a same-ground predicate for the output windows (each edge within half a pixel of the processing window's).",
  tech="Lean 4 proof (induction/omega over integer grids) + differential correspondence run", ref='7 C06'),

 'C07': dict(
  text="Proof (Lean 4) over exact rationals, for every block, mask, kernel, model, R2/in-paint setting and positive factors a, c: "
       "fit(a src, c ref) = (c/a gain, c offset, same R2) at every pixel (fit_scale, and its src-only / ref-only corollaries), "
       "masks and R2 unchanged, apply gives c times the corrected value, resampling (normalised weighted mean) is homogeneous, the "
       "corrected pixel through the up-sampled parameters scales accordingly, variance scales with the square (9 theorems); whole image (Props/E2ELine.lean whole_image_scale, Props/E2EWide.lean whole_image_scale_wide): scaling source by s > 0 and reference by t > 0 multiplies every corrected pixel by t and preserves validity, for every geometry, kernel and resampling method incl. cubic and the default cubic_spline. Tied to "
       "the code by triples of real fusions (base, source x a, reference x c): bit-identical corrected/parameter images and masks "
       "after the exact rescale for power-of-two factors (all models, in-painting on/off, 1..16 blocks, both grids), relative "
       "tolerance for general factors; and by the real KernelModel.fit on scaled blocks against the model of the unscaled block.",
  note="Hypotheses of the law that are measured, not proved: rasterio.fill.fillnodata commutes with multiplication by c; numpy "
       "std / percentile scale (variance_scale is proved; the percentile is not); GDAL warp is a normalised weighted mean. Integer "
       "output dtypes are excluded (rounding is not homogeneous). Since round 8: every fourth case stores the rescaled copies as float64 next to float32 originals (the law is about values, not about the data type of the file). Round 10: 3 input(s) found by a bug-hunting sub-agent on the unchanged code (harness/found/C07_demo*.py) are replayed by this check on every run; those that violate the property are listed in known_findings.json by script name (repaired ones must stay quiet). Round 12 (first sweeps of thorough seeds 1 and 2): for factors that are no powers of two a pixel over the tolerance budget fails only beyond twenty times what random last-bit disturbances of the scaled image do to it (two more real fusions, run only then); R2 band masks of one-pixel kernels (1 - x/0) are not compared; relative errors are taken against at least 1 % of the image's median magnitude.",
  tech="Lean 4 proof (field algebra over Q, case analysis on Option/ite) + bit-identity differential runs", ref='7 C07'),
 'C08': dict(
  text="Proof (Lean 4): under a dataset mask a hidden value reads as invalid whatever is stored; NaN nodata, numeric nodata, "
       "internal mask and alpha band encodings of one logical pixel read to the same pixel for any hidden value "
       "(encodings_agree); blocks that agree on masks and on jointly valid values give identical fits at every pixel for all "
       "models, and identical inputs to the block normalisation (fit_congr_on_mask, blocknorm_congr_on_mask) (6 theorems). Tied to the "
       "code by writing one logical pair in 4 encodings x hidden values (0, 3.4e38, -1e30, NaN, random; uint8 alpha/mask/nodata) "
       "and requiring bit-identical corrected image (float32/NaN, integer types with non-zero nodata, float with numeric nodata "
       "outputs), parameter image and comparison statistics; and by from_rio_dataset vs readPx.",
  note="How GDAL exposes masks (alpha honoured only for 1/3-band Byte/UInt16 + alpha) is GDAL's rule; WarpedVRT mask handling "
       "is not modelled."
       ' Encodings exercised: NaN / numeric / non-float32 numeric nodata, internal mask (hidden 0, 3.4e38, -1e30, NaN, random), mask + nodata tag, side-car .msk, alpha (opaque and partly semi-transparent); south-up storage x encoding (known finding D19, open: an internal mask is lost through WarpedVRT). Since round 8: sources invalid over an area larger than a block\'s read window (all mask encodings, hidden values under the mask). Round 10: 3 input(s) found by a bug-hunting sub-agent on the unchanged code (harness/found/C08_demo*.py) are replayed by this check on every run; those that violate the property are listed in known_findings.json by script name (repaired ones must stay quiet).',
  tech="Lean 4 proof (case analysis, list congruence) + bit-identity differential runs across encodings", ref='7 C08'),
 'C09': dict(
  text="Proof (Lean 4) on the same machine with fault plans: a failed job makes the caller's outcome `raised` (fail_loud); "
       "under every fault plan: no deadlock, locks free in every final state, every submitted job finishes exactly once (a failure "
       "does not cancel the others), a job with a faulting step is recorded as failed (the same source-tied block program as C04), outcome ok implies every block completed its "
       "corrected (and parameter) write; a faulting io step releases its lock; CLI exit status 0 iff nothing raised - with the commands' handler as a tree of log / if / abort steps, under every assignment of the conditions it could look at (command_exit_zero_iff, allAbort_exit; conditional_abort_fails_silently for a handler that aborts on quiet runs only) (13 theorems); source-tie: fuse, compare and stats each end in one try with the single handler `except Exception: log; raise click.Abort()` and no inner handler (src_C09_handlers). Tied to the code by fault enumeration through "
       "the interposed datasets/model hooks: every (site in source read, reference read, fit, apply, corrected write, parameter "
       "write) x block x threads 1/2/4 (exhaustive in the thorough tier, a seeded third in the quick tier): the API raises, "
       "terminates within a watchdog, all four datasets closed, all locks free, reader reusable with the reference result; "
       "multi-thread traces replayed by the Lean machine with the same fault plan (outcome raised, locks free, all other blocks "
       "complete); CLI exit codes; compare and stats analogues.",
  note="Faults inside GDAL that do not surface as Python exceptions are outside. The watchdog bound (60 s) stands for liveness. Since round 8: every fourth fault plan writes its outputs through the Erdas Imagine or ENVI driver. Round 9: CLI compare / stats exit status under block failures; worker threads alive after a failed call are a failing input (and are joined before the datasets are closed); failure of the last tile of the valid-data window pre-pass on an all-valid parameter image; an interpreter crash of the check process is reported as a violation. Round 10: 3 input(s) found by a bug-hunting sub-agent on the unchanged code (harness/found/C09_demo*.py) are replayed by this check on every run; those that violate the property are listed in known_findings.json by script name (repaired ones must stay quiet). Round 11: blocks unreadable at the GDAL level (the compressed bytes of a tile zeroed in a parameter image and in a source). Round 12: the CLI fault legs run under no flag, -v, -q, -vv and -v -q -v (the exit status does not depend on the verbosity); the handlers are extracted from the source text and modelled.",
  tech="Lean 4 proof about the machine under fault plans + exhaustive single-fault enumeration on the real code",
  ref='7 C09', category='proof'),
 'C10': dict(
  text="Proof (Lean 4) over a file-system machine (finite map path -> content; process = both existence checks, then both opens "
       "for writing, then content that depends on inputs+configuration only): without overwrite an existing output means "
       "FileExistsError and an unchanged file system; paths other than the two outputs are untouched by every call and every "
       "history; no other files appear; a successful call leaves exactly its configuration's content; after any history the "
       "outputs equal those of the same call on an empty directory (9 theorems); source-tie: processCall is the check/check/open/open "
       "event sequence extracted from _out_files (src_C10_out_files). Tied to the code by histories of 1-4 calls (one "
       "object / fresh objects / CLI / mixed; str and Path; overwrite on/off; with/without parameter image; pre-existing garbage "
       "or older outputs): outcomes and listings vs the machine, bytes+mtime of untouched files, decoded outputs vs fresh runs.",
  note="GDAL side-car files (.aux.xml, .msk, .ovr) are whitelisted. Content identity is the decoded raster (pixels, masks, "
       "tags, descriptions), not the compressed bytes. Since round 8: an overwrite over outputs that own GDAL side-car files (strict GeoTIFF profile: tags in .aux.xml) must equal the same call into an empty directory - files, decoded content, tags, parameter statistics. Round 9: homonim fuse on a symbolic link to the source in another directory and on a relative source path, without --out-dir. Round 10: 2 input(s) found by a bug-hunting sub-agent on the unchanged code (harness/found/C10_demo*.py) are replayed by this check on every run; those that violate the property are listed in known_findings.json by script name (repaired ones must stay quiet). Round 11: flags of process() given positionally in the documented order. Round 12: output and pre-existing file names with glob characters (scene[1].tif).",
  tech="Lean 4 proof (invariants over call histories of a state machine) + differential history runs", ref='7 C10'),
 'C11': dict(
  text="Proof (Lean 4) over exact rationals: block sums are additive over any split of the pixels, accumulating the blocks of any "
       "partition gives the whole-image sums, in any completion order (sums_additive_over_partition, fold_perm); N = number of "
       "jointly valid processing pixels; RMSE^2 = mean squared difference; r2 = squared Pearson correlation (centred-sum identity); "
       "rRMSE^2 = RMSE^2/mean(ref)^2; the Mean entry of a statistic is the band average when every band's value is defined and undefined exactly when some band's is (meanRow_defined, meanRow_none_iff; skipping_mean_differs) (20 theorems); source-tie: the Mean entry is the source's fold - start at 0, add with +, divide by the number of bands (src_C11_mean_row) -; bandStats is get_band_stats' expressions with the square roots "
       "squared away, blockSums adds what get_block_sums adds per pixel; END TO END (Props/E2ECompare.lean): for every pair, geometry "
       "and block shape, accumulating the seven sums of the blocks - each computed from what that block read, with the source "
       "averaged onto the reference grid per block - gives exactly the sums of the single-block run "
       "(compare_sums_partition_invariant), hence the same N, r2, RMSE, rRMSE. Tied to the code by RasterCompare.process on integer-valued pairs with holes in both images, invalid pixels encoded as NaN / "
       "numeric nodata / internal mask (model "
       "resampler + cmpstats give the exact values): N exact, r2/RMSE/rRMSE to 5e-5, 3 partitions x threads 1/2/4 must agree, Mean "
       "row = band average, CLI JSON = API.",
  note="Known findings (open): D7 forced finer processing grid with a non-nearest kernel (block-edge effects), D10 duplicate band "
       "names collapse rows, D11 N partition-dependent in tie geometry on a forced finer grid. Square roots are not modelled "
       "(squares compared). GDAL cubic/cubic_spline up-sampling is not modelled (those cases only get the partition check). Round 9: near-identical pairs at 16-bit magnitudes (5000 / 40000 differing by 1-10 counts; reflectances differing by 1e-4) against the float64 definition of RMSE / rRMSE. Round 10: 3 input(s) found by a bug-hunting sub-agent on the unchanged code (harness/found/C11_demo*.py) are replayed by this check on every run; those that violate the property are listed in known_findings.json by script name (repaired ones must stay quiet). Round 11: a 4100 x 4100 pair with more than 2^24 (and an odd number of) jointly valid pixels: N exact for one block and for many. Round 12: bands with undefined statistics (no valid pixel in a source / reference band, a band constant in both images) beside ordinary bands: N by definition, Mean the (undefined) average of the rows; every Mean entry is also compared with the model's meanRow (driver op `meanrow`).",
  tech="Lean 4 proof (list induction, permutation invariance of a commutative fold, field algebra) + differential runs", ref='7 C11'),
 'C12': dict(
  text="Proof (Lean 4): tile accumulators are additive, tiling- and completion-order-invariant (tile_partition_invariant, "
       "pacc_fold_perm); skipping empty tiles is sound, choosing them from band 1 is not (checked witness, D6); mean = sum/n; "
       "one-pass variance = population variance; min/max are attained bounds; in-paint percentage = 100 #(R2<t)/n; R2 bands are the "
       "last third (20 theorems); source-tie: paramStats is ParamStats._get_image_stats' expressions. Tied to the code by ParamStats.stats on synthetic parameter images with band-specific validity, bands of mixed sign / all "
       "negative / all positive / constant values, and "
       "on images written by real fusions, each with 2 of 5 tilings and threads 1/2/4: every figure vs the exact model (pstats), "
       "figures equal across tilings, CLI JSON = API.",
  note="Bands holding +-inf (R2 with zero TSS) are outside the rational model and skipped in the value comparison. std is "
       "compared squared."
       ' Since round 4 the +-inf bands are compared with their IEEE definitions (finding D20, fixed in /repo); thresholds outside [0, 1]; tiles without valid pixels inside the data window. Since round 8: thresholds whose repr has no decimal point (1e-05: finding D26, fixed in /repo); the valid-data window pre-pass is modelled (Model/StatsWindow.lean), proved never to hide a valid pixel of any band for any tiling and completion order (no_valid_pixel_skipped; counterexample for a first-band window), compared with the real _get_data_window and with the tiles stats() actually reads (datawin op), and tied to the source text; the FUSE_* tag contract between fuse, validate_param_image and ParamStats is extracted and proved (src_C12_tags). Round 9: end-to-end theorem stats_reads_all_valid_pixels (Props/StatsE2E.lean): the accumulator of the tiles read is the accumulator of all valid pixels of the band. Round 10: 2 input(s) found by a bug-hunting sub-agent on the unchanged code (harness/found/C12_demo*.py) are replayed by this check on every run; those that violate the property are listed in known_findings.json by script name (repaired ones must stay quiet).',
  tech="Lean 4 proof (commutative-monoid fold invariance, algebra over Q) + differential runs", ref='7 C12'),
 'C13': dict(
  text="Proof (Lean 4): round-half-even is within half a unit and ties go to even (rhe_nearest, rhe_tie_even); a valid float32 "
       "value becomes the nearest integer clamped into the range, +-inf and out-of-range values saturate, the stored integer is "
       "always in range (never_wraps), invalid pixels carry nodata or a cleared internal-mask bit, float targets are the identity, a "
       "valid pixel is lost only by coinciding with nodata, nodata must be castable (10 theorems). Tied to the code by "
       "_convert_array_dtype on adversarial arrays (ties, negatives, >2^32, +-inf, +-3e38, NaN) x 7 dtypes x 5-7 nodata settings "
       "and by real fusions repeated with dtype x nodata x driver (GTiff/PNG) x lossless creation options: every output pixel and "
       "mask must equal the model conversion of the float32 run.",
  note="GeoTIFF/PNG encoders and the GDAL internal-mask mechanism are trusted to store what is written (lossless options only). Round 10: 2 input(s) found by a bug-hunting sub-agent on the unchanged code (harness/found/C13_demo*.py) are replayed by this check on every run; those that violate the property are listed in known_findings.json by script name (repaired ones must stay quiet).",
  tech="Lean 4 proof (omega/nlinarith on integer division, case analysis) + per-pixel differential run", ref='7 C13'),
 'C14': dict(
  text="Proof (Lean 4): paramIndex n i k = k n + i + 1 gives bands i, n+i, 2n+i; it is a bijection onto 1..3n and injective "
       "(writes of different pairs/parameters never collide); the metadata loop labels exactly band paramIndex n i k with "
       "parameter k; the suffix validate_param_image expects there is k; on the source grid corrected = gain*src + offset "
       "(7 theorems); source-tie: paramIndex and apply are the source's expressions. Tied to the code by multi-band fusions with default/subset/re-ordered band selections: each matched pair "
       "re-run as a single-band fusion must be bit-identical to bands i, n+i, 2n+i and corrected band i; labels vs the model's "
       "layout; tags; ParamStats accepts; parameter mask = jointly valid on the processing grid (model validity rules); "
       "source-grid identity bit for bit.",
  note="The value content of the parameter bands is C01/C05's; degenerate windows are excluded from the mask comparison "
       "(gain-offset skipped there). Since round 8: one reference band paired with several source bands (`repeat` selections); validate_param_image's count test, required tags and suffix list are extracted and proved to match what fuse writes (src_C12_label_matches_suffix). Round 9: a parameter image with non-finite statistics (R2 = -inf over a constant reference patch) is accepted by the API, homonim stats and homonim stats --output. Round 10: 3 input(s) found by a bug-hunting sub-agent on the unchanged code (harness/found/C14_demo*.py) are replayed by this check on every run; those that violate the property are listed in known_findings.json by script name (repaired ones must stay quiet). Round 11: references with NAME / ID / ABBREV band tags - each parameter band carries the upper-cased value with its own parameter's name. Round 12: no band of the parameter image (gain, offset, R2 of any pair, any model, in-painting on or off) is valid where the two images are not both valid.",
  tech="Lean 4 proof (Nat division/modulo arithmetic, list computation) + bit-identity differential runs", ref='7 C14'),
 'C15': dict(
  text="Proof (Lean 4) about the executable model of _match_pair_bands (greedy loop with masked-array semantics, threshold, "
       "file-order fallback, force, truncation), for every band list, wavelength metadata and selection: matched lists have "
       "equal length; the source list is a sub-list of the given order; only candidate reference bands are used and none twice; "
       "unless forced no selected source band is dropped; every pair with wavelengths on both sides is within tolerance - "
       "including file-order fallback pairs; and if every source band's nearest reference band is strictly nearest, distinct and "
       "within tolerance, the result is exactly that assignment (8 theorems, ~1100 lines incl. the greedy-loop invariant); and 9 "
       "theorems about _get_band_info (Props/BandInfo.lean): only candidate bands are selected, a user selection is kept or "
       "rejected, the default selection, a wavelength tag is never overwritten, the RGB defaults only fill gaps of three-band "
       "images and the file-order assumption is made only when no candidate carries any wavelength information. Tied "
       "to the code by 2000 (quick) / 50000 (thorough) generated configurations through the real matcher (stub datasets) and a "
       "sample through real files and RasterFuse: band lists / error kind equal to the model's, plus soundness predicates.",
  note="Known finding D12 (open, with a checked witness theorem): all-zero reference wavelengths bypass the tolerance test "
       "(numpy any()). Wavelengths are dyadic rationals in the correspondence run; tolerance = exact rational of the double 0.1. "
       "Modelled domain: wavelengths are positive or absent; a *source* wavelength of exactly 0.0 (division by zero: the code gets inf "
       "for a non-zero reference wavelength and then refuses the match, the model treats the distance as undefined) is outside the "
       "model and the theorems assume positive source wavelengths; the correspondence run generates none. Since round 8: RGB(A) files described by colour interpretation only with the alpha band first or in the middle, against references tagged near the standard wavelengths; the soundness predicate counts the documented colour-interpretation defaults as wavelengths; the candidate filter, refusal order, selection chain and RGB table of _get_band_info are extracted and tied. Round 10: 1 input(s) found by a bug-hunting sub-agent on the unchanged code (harness/found/C15_demo*.py) are replayed by this check on every run; those that violate the property are listed in known_findings.json by script name (repaired ones must stay quiet).",
  tech="Lean 4 proof (loop invariant for the greedy matcher, list/nodup/sublist reasoning) + differential run", ref='7 C15'),
 'C16': dict(
  text="Proof (Lean 4): the repaired covers_bounds predicate accepts iff the source footprint is contained in the reference "
       "footprint on each axis (covers_iff_contains), overhang on any side by any amount is rejected, the same grid is accepted, "
       "a checked counterexample for the originally coded predicate (D2), and the orientation/CRS decision table of "
       "same_orientation_crs (decide over all 32 rows); source-tie: covers_bounds' final predicate with zero tolerance is the model's. Tied to the code by constructing RasterFuse/RasterCompare on ~300 (quick) "
       "/ 6000 (thorough) generated placements (inside, flush, overhang by 1 unit..many pixels per side; both resolution orders; "
       "dyadic/decimal; south-up storage), by driving the real same_orientation_crs through all table rows, and by real placements "
       "of a source in another CRS (EPSG/EPSG, two custom CRSs without EPSG codes, mixed) well inside / straddling each edge / far "
       "outside the reference.",
  note="Known finding D15 (open): across CRSs the code tests against the bounding box of the re-projected reference. "
       "Cross-CRS footprints are not modelled (PROJ/WarpedVRT geometry); float noise of flush placements in decimal "
       "geometry is absorbed by the 1e-6 px tolerance of the repaired predicate, which the exact model ignores. Round 10: 3 input(s) found by a bug-hunting sub-agent on the unchanged code (harness/found/C16_demo*.py) are replayed by this check on every run; those that violate the property are listed in known_findings.json by script name (repaired ones must stay quiet). Round 11: the float-noise geometries of finding D14 (south-up source flush with the reference's top, decimal coordinates) as a deterministic leg.",
  tech="Lean 4 proof (linear integer arithmetic, decide over a finite table) + differential correspondence run", ref='7 C16'),
 'C17': dict(
  text="Proof (Lean 4): erosion characterisation, the full-coverage definition (kept iff the pixel and every pixel of the "
       "(kh+2)x(kw+2) window are inside, covered by valid pixels only and carry parameters), subset of the joint mask, strictness "
       "(first row/column never survives), and block invariance of the erosion on sub-blocks whose overlap equals the grown radius "
       "(partial_block_invariant, grown_radius_eq_overlap) (6 theorems); END TO END (Model/PartialMask.lean, Props/E2EPartial.lean): the "
       "whole pipeline as one function of the two images, and partial_mask_block_transparent / _of_fit: the block computes the "
       "single-block validity for every source pixel whose centre's reference pixel lies in the block's output window, given "
       "that every jointly valid pixel has a fit - both hypotheses shown necessary by kernel-checked counterexamples (a centre on a "
       "block boundary = D8; a degenerate window = D16). Tied to the code by real fusions with mask_partial=True: the "
       "corrected dataset mask must equal the definition evaluated by the model (average cover of the zero-padded mask >= 1, joint "
       "mask, erode, nearest back to the source grid) on the whole window, be a strict subset of the source mask, and not depend "
       "on the partition; the whole-image model (pmask) against the real mask; degenerate-window pairs (D16).",
  note="Known findings D8 and D16 (open; D16: with gain-offset a kernel window in which the source is constant has no fit, and "
       "whether it is constant depends on where a block cuts it).  D8: in geometries where source pixel centres lie exactly on reference pixel edges the mask depends "
       "on the block partition (nearest-neighbour tie + erosion reach at seams). GDAL nearest tie-breaking is not modelled. Round 10: 2 input(s) found by a bug-hunting sub-agent on the unchanged code (harness/found/C17_demo*.py) are replayed by this check on every run; those that violate the property are listed in known_findings.json by script name (repaired ones must stay quiet).",
  tech="Lean 4 proof (omega, Bool/List.all reasoning) + differential mask comparison against the model definition", ref='7 C17'),
 'C18': dict(
  text="Proof (Lean 4) of the decision logic: auto resolves to the coarser image (ties to the reference), explicit choices are "
       "kept; combine_profiles takes size/CRS/transform from the input image and format keys from the configuration, also across "
       "a driver change; flips are involutive; every model/block configuration key reaches the metadata call (generated tables); "
       "and the band round trip: with the matched reference bands' wavelengths copied to the corrected bands and pairwise distinct "
       "reference wavelengths, matching the corrected image against the same reference selects exactly the bands the fusion used "
       "(roundtrip_bands, a corollary of C15's match_nearest) (10 theorems); source-tie: _resolve_proc_crs. Tied to the code by real fusions: corrected grid = "
       "north-up source grid, band count/order/descriptions/wavelength tags of the matched reference bands, parameter image on the "
       "processing grid, which under auto is the coarser image - also for degree-sized pixels (EPSG:4326 stratum) (model "
       "procres), FUSE_* tags complete and equal to the effective settings, south-up storage of source/"
       "reference/both bit-identical (dyadic geometry), RasterCompare(corrected, reference) re-selects the fusion's bands; "
       "combine_profiles vs the model on generated profiles.",
  note="Partial: WarpedVRT (north-up re-projection, CRS changes), rotated and cross-CRS inputs are exercised, not modelled; "
       "south-up storage is only generated on dyadic geometry (a flipped decimal grid is an ulp off the north-up one)."
       ' Known finding D21 (open): with different CRSs and the source grid as processing grid the corrected image is written on the re-projected source grid. Since round 8: bands paired by hand against the wavelengths with force=True - the corrected bands carry the tags of the bands they were paired with. Round 9: numeric settings (thresholds 1/3, 0.123456789; the computed block memory) must parse back exactly from the FUSE_* tags of both outputs. Round 10: 3 input(s) found by a bug-hunting sub-agent on the unchanged code (harness/found/C18_demo*.py) are replayed by this check on every run; those that violate the property are listed in known_findings.json by script name (repaired ones must stay quiet). Round 11: a south-up source in another CRS than the reference stays on the north-up source grid. Round 12: creation_options left out / {} / None in the output profile (byte outputs with 3 and 4 bands included); the profile-merge tie (src_C13_profiles) now also serves this property.',
  tech="Lean 4 proof of the decision logic (+ corollary of the matcher theorem) + differential runs", ref='7 C18'),
 'C19': dict(
  text="Proof (Lean 4) of the front-end logic: per-key precedence command line > file > default (merge_precedence), file keys "
       "count as given, unknown configuration keys are rejected, known keys merge key by key; every key of the block/model/output "
       "dictionaries is a fuse keyword option and vice versa, likewise for compare (decide over tables regenerated from the live "
       "code by the translator gen_tables.py on every run); _update_existing_keys, output naming (kernel height then width), "
       "parameter file name, nodata callback, default creation options (13 theorems); source-tie: the merge and default-creation-option "
       "conditions are the ones FuseCommand.invoke states (src_C19_merge). Tied to the code by CliRunner runs of "
       "`homonim fuse` where every option is independently default / flag / file / both (falsy flag values included), compared "
       "with the API call using the model's merged settings: corrected and parameter images pixel-, mask-, description- and "
       "tag-identical; file names vs the model; unknown keys rejected; every RasterCompare.process call made by `homonim compare` and "
       "by `homonim fuse --compare [FILE]` (options from flags or the configuration file) recorded and compared with the API call "
       "with the same settings (grid, bands, statistics, --output JSON); stats JSON vs API in C12.",
  note="Partial: click's own parsing and type conversion are trusted; values that come from the YAML file bypass click's "
       "callbacks (e.g. a kernel shape arrives as a list), which the harness mirrors. Since round 8: the default= expression of every click option that feeds an API dictionary is extracted (it must be an expression over the API's own create_* defaults), as are validate_threads (with both callers), the output-name f-strings and validate_kernel_shape; proved equal to the model's. Round 10: 3 input(s) found by a bug-hunting sub-agent on the unchanged code (harness/found/C19_demo*.py) are replayed by this check on every run; those that violate the property are listed in known_findings.json by script name (repaired ones must stay quiet). Round 11: kernel shape given in the configuration file only (a yaml list). Round 12: the command-line spelling of a real option (kernel-shape, max-block-mem, ...) as a configuration key is an unknown key.",
  tech="Lean 4 proof + translator-generated tables (decide) + CLI-vs-API differential runs", ref='7 C19'),
 'C20': dict(
  text="Proof (Lean 4): for every integer window with non-negative size the boundless read succeeds (read_total) and returns "
       "the image pixel at its own location where the window overlaps the image and nodata elsewhere (read_spec), with the "
       "window's geo-referencing (read_transform); writes store the block's pixels (values and validity: the pixel type is "
       "arbitrary) on window ∩ dataset and leave the rest (write_spec, write2_spec), a window that misses the dataset is a no-op "
       "and never an error (write2_outside_noop), every write of a block that contains its window succeeds wherever the window "
       "lies (write2_total_of_block_contains) and every block of block_pairs does contain it (fuse_write_contained_*), "
       "write-then-read round trip; checked counterexamples for the originally coded read and write logic (D3, D13) (20 theorems); "
       "source-tie: boundedFixed is bounded_window_slices' np.clip / np.fmax arithmetic (src_C20_bounded). "
       "Tied to the code by ~4000 reads (exhaustive per-axis windows, 4 dtype/nodata/mask/band variants), ~200 writes and 50 "
       "writes of blocks with invalid pixels into internal-mask / numeric-nodata datasets, compared pixel by pixel.",
  note="GDAL read/write of an in-range window is trusted to transfer pixels faithfully; dtype conversion on write belongs to C13."
       ' Findings D22 (multi-band block with conversion) and D23 (window=None on decimal grids) were fixed in /repo; legs for both, for rotated / sheared / south-up reads and for values near a numeric nodata value. Round 9: blocks whose mask was read, then edited in place through ra.array[...], then written: the window reads back the block as edited. Round 10: 3 input(s) found by a bug-hunting sub-agent on the unchanged code (harness/found/C20_demo*.py) are replayed by this check on every run; those that violate the property are listed in known_findings.json by script name (repaired ones must stay quiet). Round 11: windows of the block\'s own size that start inside the block and end beyond it must be refused; a pixel the block does not hold is never written. Round 12: every third read runs with the package logger at DEBUG (homonim -v).',
  tech="Lean 4 proof (omega over integer windows, list extensionality) + exhaustive small-window differential run", ref='7 C20'),
}
NA_REASON = 'check not built yet in this round (planned: see DESIGN.md section 7); nothing is claimed for it'
props = [json.loads(l)['id'] for l in open(V / 'properties.jsonl')]
m = dict(
 version=1,
 setup_cmd='cd lean && lake build',
 hooks=dict(guard='HOMONIM_VERIF', enable='no source hooks: HOMONIM_VERIF=1 only switches on the harness-side interposition '
            '(rasterio.open / lock / executor proxies installed from outside the package)',
            baseline_off_cmd='/venv/bin/python tools/baseline.py', source_commits=[], add_only=True),
 engines=[dict(name='lean-model', path='lean', serves_properties=sorted(CHECKS),
               kind_free_text='hand-written executable Lean 4 model + property theorems; line-protocol driver lean/Main.lean'),
          dict(name='harness', path='harness', serves_properties=sorted(CHECKS),
               kind_free_text='Python differential harness calling the real homonim code in-process')],
 checks=[dict(property_id=p, quick_cmd=f'./check {p} --tier quick', thorough_cmd=f'./check {p} --tier thorough',
              evidence_file=f'evidence/{p}.json', replay_cmd_template=f'./check {p} --replay {{path}}', engine='lean-model',
              level_claimed=dict(category=c.get('category', 'proof'), text=c['text'], design_ref=c['ref']), level_note=c['note'],
              technique=c['tech']) for p, c in sorted(CHECKS.items())],
 notes='See DESIGN.md. Exit 2 of a check means the harness itself failed or timed out (not a verdict).',
 not_applicable=[dict(property_id=p, reason=NA_REASON) for p in props if p not in CHECKS],
)
(V / 'MANIFEST.json').write_text(json.dumps(m, indent=1))
print('claimed', sorted(CHECKS), 'not claimed', len(m['not_applicable']))
