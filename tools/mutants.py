"""
Re-run the registered checks against every seeded change under /verif/seeded (regression test of the machinery itself).
  usage: mutants.py [--tier quick] [--cross] [name ...]
For each seeded/<name>/patch.diff: a scratch worktree of /repo HEAD is created under /tmp, the patch applied, and
`./check <property> --tier <tier> --no-proof` run with VERIF_REPO pointing at it (the proof leg does not depend on the
tree). `--cross` additionally runs every other property's quick check (which other checks notice the change).
Writes seeded/RESULTS.json: {name: {property, applies, detected_by: {Cxx: "failing-input"|"correspondence"|"missed"}}}.
Nothing is ever applied to /repo itself; every worktree is removed.
"""
import concurrent.futures as cf, json, pathlib, re, subprocess, sys

V = pathlib.Path(__file__).resolve().parents[1]
args = [a for a in sys.argv[1:] if not a.startswith('--')]
opts = {a.split('=')[0]: (a.split('=') + [''])[1] for a in sys.argv[1:] if a.startswith('--')}
tier = opts.get('--tier') or 'quick'
names = args or sorted(p.name for p in (V / 'seeded').iterdir() if (p / 'patch.diff').exists() and not p.name.startswith('_'))
ALL = [f'C{k:02d}' for k in range(1, 21)]


def one(name):
    d = V / 'seeded' / name
    prop = json.loads((d / 'meta.json').read_text())['property']
    wt = pathlib.Path(f'/tmp/mut_{name}')
    subprocess.run(['git', '-C', '/repo', 'worktree', 'remove', '--force', str(wt)], capture_output=True)
    subprocess.run(['git', '-C', '/repo', 'worktree', 'add', '-q', '--detach', str(wt), 'HEAD'], check=True, capture_output=True)
    rec = dict(property=prop, detected_by={})
    try:
        ap = subprocess.run(['git', '-C', str(wt), 'apply', str(d / 'patch.diff')], capture_output=True, text=True)
        rec['applies'] = ap.returncode == 0
        if not rec['applies']:
            rec['apply_error'] = ap.stderr[-300:]
            return name, rec
        import os
        env = dict(os.environ, VERIF_REPO=str(wt))
        for c in ([prop] + ([x for x in ALL if x != prop] if '--cross' in opts else [])):
            r = subprocess.run([str(V / 'check'), c, '--tier', tier if c == prop else 'quick', '--no-proof'],
                               env=env, capture_output=True, text=True, cwd=V)
            v = [l for l in r.stdout.split('\n') if l.startswith('VIOLATION')]
            if r.returncode == 0:
                rec['detected_by'][c] = 'missed'
            elif v and v[0].endswith('no-failing-input-found'):
                rec['detected_by'][c] = 'correspondence'
            elif v:
                rec['detected_by'][c] = 'failing-input'
            else:
                rec['detected_by'][c] = f'exit {r.returncode}'
    finally:
        subprocess.run(['git', '-C', '/repo', 'worktree', 'remove', '--force', str(wt)], capture_output=True)
    return name, rec


out = {}
with cf.ThreadPoolExecutor(max_workers=6) as ex:
    for name, rec in ex.map(one, names):
        out[name] = rec
        print(name, rec['property'], 'applies' if rec.get('applies') else 'DOES-NOT-APPLY', rec['detected_by'], flush=True)
p = V / 'seeded' / 'RESULTS.json'
old = json.loads(p.read_text()) if p.exists() else {}
old.update(out)
p.write_text(json.dumps(old, indent=1, sort_keys=True))
missed = [n for n, r in out.items() if r.get('applies') and r['detected_by'].get(r['property']) == 'missed']
print('missed by own check:', missed)
sys.exit(1 if missed else 0)
