#!/bin/bash
# for each fix commit: revert it alone on top of HEAD in a scratch worktree and run its property's quick check
cd /verif
declare -A PROP=( [89d5ebd]=C09 [c1180e7]=C20 [9bbfe7b]=C19 [3aa5a77]=C12 [e62689b]=C12 [3de39d8]=C09 [34b584e]=C12 [146903c]=C20 [10da234]=C20 [6886611]=C12 [957c4f0]=C08 [3e7f080]=C16 [4a033c8]=C20 [49e075b]=C10 [daf23c7]=C12 [c69a47b]=C12 [2ab0fc7]=C17 [62ec86d]=C20 [03369c0]=C16 [8d60eaf]=C06 )
for c in "${!PROP[@]}"; do
  p=${PROP[$c]}
  wt=/tmp/rev_$c
  git -C /repo worktree remove --force $wt 2>/dev/null
  git -C /repo worktree add -q --detach $wt HEAD
  if git -C $wt revert --no-commit $c >/dev/null 2>&1; then
    out=$(VERIF_REPO=$wt ./check $p --tier quick --no-proof 2>&1 | grep -v "^KNOWN" | tail -2 | tr '\n' ' ' | cut -c1-220)
    echo "$c $p :: $out"
  else
    echo "$c $p :: REVERT-CONFLICT"
  fi
  git -C /repo worktree remove --force $wt 2>/dev/null
done
