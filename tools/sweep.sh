#!/bin/bash
# usage: tools/sweep.sh <tier> <seed>...   - runs every claimed check for every seed, prints a summary of alarms
cd "$(dirname "$0")/.."
tier=$1; shift
(cd lean && lake build >/dev/null 2>&1)
ids=$(python3 -c "import json; print(' '.join(c['property_id'] for c in json.load(open('MANIFEST.json'))['checks']))")
for s in "$@"; do
  for p in $ids; do
    start=$(date +%s)
    out=$(VERIF_SEED=$s timeout 7200 ./check $p --tier $tier 2>&1)
    rc=$?
    echo "seed=$s $p rc=$rc $(( $(date +%s) - start ))s :: $(echo "$out" | grep -E '^\[C[0-9]+\]' | tail -1)"
    if [ $rc -ne 0 ]; then echo "$out" | grep -E "VIOLATION|Traceback|Error" | head -5; cp -r replays/$p /tmp/sweep_replays_${tier}_${s}_$p 2>/dev/null; fi
  done
done
echo SWEEP-DONE
